"""C08 - serialization combinators: sibling wire traces, reject-don't-truncate guards, size-query
totality/consistency, bounded reads, checked inner windows (DESIGN.md section 4, C08)."""
from __future__ import annotations

import ast
import re
from typing import Dict, List, Optional, Set, Tuple

from ..core import (AnalysisError, ClassInfo, FuncInfo, ap, atoms, facts, find_calls, is_none_test, norm, parent,
                    stores, walk, kw)
from ..wiretrace import (SPEC_PATH, STREAM_CTORS, Guard, St, Tracer, canon, is_abstract, opens_window, render_set,
                         size_terms, spec_syms, words)

SER = "hippolyzer/lib/base/serialization.py"
TMPL = "hippolyzer/lib/base/templates.py"
NV = "hippolyzer/lib/base/namevalue.py"
ANIM = "hippolyzer/lib/base/llanim.py"
MESH = "hippolyzer/lib/base/mesh.py"
HELPERS = "hippolyzer/lib/base/helpers.py"
PAIR_MODULES = (SER, TMPL, NV, ANIM, MESH)

# Pairs whose two directions have no comparable sequential trace.  One reason each; for these only
# the *set of specs* put on / taken off the wire is compared.
R1_EXCEPTIONS = {
    "serialization.BytesTerminated": "reader scans byte-wise for a terminator, seeks back and re-reads the payload",
    "serialization.TypedBytesTerminated": "None is written as zero bytes (no terminator); the inherited reader's "
                                          "terminated read at end-of-window consumes zero bytes and yields None",
    "serialization.BinaryLLSD": "reader hands the stream to the LLSD binary parser",
    "templates.TEExceptionField": "the separator NUL is written by the *next* field and consumed as an empty face "
                                  "bitfield by the previous one",
    "namevalue.NameValueSerializer": "the POD bare-string form is written raw: it is the textual form of the same fields",
    "namevalue.NameValuesSerializer": "the newline written between entries is the terminator consumed by the "
                                      "previous entry's value field (write_terminator=False)",
    "mesh.LLMeshSerializer": "segments are addressed through the header's offset table (seek), body buffered first",
}

# (label, module, writer qual, reader qual, stream of the writer, stream of the reader)
#   stream 'self' = the method's receiver is the stream; None = only locally built windows
R1_EXTRA_PAIRS = [
    ("serialization.BufferWriter.write~Reader.read", SER, "BufferWriter.write", "Reader.read", "self", "self"),
    ("serialization.BaseSubfieldSerializer._serialize_template~_deserialize_template", SER,
     "BaseSubfieldSerializer._serialize_template", "BaseSubfieldSerializer._deserialize_template", None, None),
    ("llanim.Animation.to_bytes~from_bytes", ANIM, "Animation.to_bytes", "Animation.from_bytes", None, None),
]

# fixed-size writers: (module, class, size path, facts under which the row does not apply)
R2_FIXED = [
    (SER, "BytesFixed", "@._size", []),
    (SER, "StrFixed", "@._length", []),
    (SER, "Collection", "@._length", [("@._len_spec", True), ("@._length", False)]),
    (SER, "TupleCoord", "@.NUM_ELEMS", []),
    (MESH, "VertexWeights", "@.INFLUENCE_LIMIT", []),
]

R5_WINDOWS = [(SER, "TypedBytesBase._deserialize_inner"), (SER, "BaseSubfieldSerializer._deserialize_template")]

STRUCT_SIZE = re.compile(r"bytes:@\.(_pick_struct\(\)|_be_struct|_le_struct|\{@\._be_struct\|@\._le_struct\})\.size")


def _label(ci: ClassInfo) -> str:
    return f"{ci.module.rel.rsplit('/', 1)[-1][:-3]}.{ci.name}"


def _params(fi: FuncInfo) -> List[str]:
    a = fi.node.args
    ps = [p.arg for p in list(a.posonlyargs) + list(a.args)]
    return ps[1:] if fi.cls is not None and ps else ps


def _stream_param(fi: FuncInfo, want: str, pos: int) -> Optional[str]:
    """The writer/reader parameter: by annotation or name, else by protocol position."""
    a = fi.node.args
    ps = list(a.posonlyargs) + list(a.args)
    if fi.cls is not None and ps:
        ps = ps[1:]
    for p in ps:
        ann = ap(p.annotation) or "" if p.annotation is not None else ""
        if want in p.arg.lower() or want in ann.lower():
            return p.arg
    return ps[pos].arg if len(ps) > pos else None


def _wordset(repo, ci, fi, stream_param, record, self_is_stream=False):
    t = Tracer(repo, ci, record)
    # a path that puts the stream position back where it started (peek) consumes nothing and has no
    # counterpart on the writing side
    ws = words([x for x in t.run(fi, stream_param, self_is_stream) if not x.rewound])
    if record == "inner":
        # a path that never builds a window has no trace on the window stream (sentinel short-cuts)
        ws = {w for w in ws if opens_window(w)}
    return {canon(w) for w in ws}


def _raw_words(repo, ci, fi, stream_param, record=None):
    t = Tracer(repo, ci, record)
    return words(t.run(fi, stream_param))


# ----------------------------------------------------------------------------- R1

def discover_pairs(ctx):
    repo = ctx.repo
    base = repo.cls("SerializableBase", SER)
    pairs = []
    for name in sorted(repo.classes):
        for ci in repo.classes[name]:
            if ci.module.rel not in PAIR_MODULES:
                continue
            own_s, own_d = ci.methods.get("serialize"), ci.methods.get("deserialize")
            if own_s is None and own_d is None:
                continue
            is_ser = any(m == base for m in repo.mro(ci))
            if is_ser:
                s = own_s or repo.lookup_method(ci, "serialize")
                d = own_d or repo.lookup_method(ci, "deserialize")
                if s is None or d is None or is_abstract(s) or is_abstract(d):
                    continue
                sp, dp = _stream_param(s, "writer", 1), _stream_param(d, "reader", 0)
                if sp is None or dp is None:
                    raise AnalysisError(f"C08.R1: cannot identify the stream parameter of {_label(ci)}")
                pairs.append((_label(ci), ci, s, d, sp, dp))
            elif own_s is not None and own_d is not None:
                # not a combinator: compared only if both directions build local stream windows
                probe = Tracer(repo, ci, None)

                def builds(fi, probe=probe):
                    return any(probe.is_stream_ctor(c) for c in [n for n in walk(fi.node) if isinstance(n, ast.Call)])
                held = {t_.attr for m in ci.methods.values() for a_ in ast.walk(m.node)
                        if isinstance(a_, ast.Assign) and isinstance(a_.value, ast.Call)
                        and Tracer._callee_last(a_.value) in STREAM_CTORS
                        for t_ in a_.targets if isinstance(t_, ast.Attribute)}

                def windows(fi):
                    return builds(fi) or any(isinstance(n, ast.Attribute) and n.attr in held for n in walk(fi.node))
                if windows(own_s) and windows(own_d):
                    pairs.append((_label(ci), ci, own_s, own_d, None, None))
    return pairs


def r1(ctx):
    repo = ctx.repo
    ctx.rule("C08.R1", "sibling wire-trace agreement: per stream, serialize and deserialize put the same specs on "
                       "the wire in the same order / branch / loop structure (loops driven by the same spec table)")
    compared = 0
    jobs = []
    for label, ci, s, d, sp, dp in discover_pairs(ctx):
        jobs.append((label, ci, s, d, sp, dp, False, False))
    for label, mod, wq, rq, ws, rs in R1_EXTRA_PAIRS:
        w, r = repo.fn(wq, mod), repo.fn(rq, mod)
        jobs.append((label, w.cls, w, r, None, None, ws == "self", rs == "self"))
    seen_exc = set()
    for label, ci, s, d, sp, dp, s_self, d_self in jobs:
        where = s.where
        if label in R1_EXCEPTIONS:
            seen_exc.add(label)
            ws = set().union(*[spec_syms(w) for w in _raw_words(repo, ci, s, sp)] or [set()])
            rs = set().union(*[spec_syms(w) for w in _raw_words(repo, ci, d, dp)] or [set()])
            ctx.ob("C08.R1", f"{label}: same spec set on both sides (no sequential trace: tabled exception)",
                   ws == rs, where, f"writer specs {sorted(ws)} reader specs {sorted(rs)}")
            ctx.note(f"C08.R1 exception {label}: {R1_EXCEPTIONS[label]}")
            continue
        compared += 1
        for stream in ("main", "inner"):
            w = _wordset(repo, ci, s, sp, stream, s_self)
            r = _wordset(repo, ci, d, dp, stream, d_self)
            if stream == "inner" and not w and not r:
                continue
            if stream == "main" and sp is None and not s_self and w <= {()} and r <= {()}:
                continue
            ok = w == r
            msg = ""
            if not ok:
                msg = (f"{stream} stream: only the writer can produce {render_set(w - r)}; "
                       f"only the reader expects {render_set(r - w)}")
            ctx.ob("C08.R1", f"{label}: serialize~deserialize traces agree on the {stream} stream", ok, where, msg)
    for label in R1_EXCEPTIONS:
        if label not in seen_exc:
            ctx.note(f"C08.R1 exception entry {label} no longer matches a pair in the tree")
    ctx.floor("C08.R1", "sibling pairs with comparable traces", compared, 28)


# ----------------------------------------------------------------------------- guard relations

_NEG = {"<": ">=", "<=": ">", ">": "<=", ">=": "<", "==": "!=", "!=": "=="}
_FLIP = {"<": ">", "<=": ">=", ">": "<", ">=": "<=", "==": "==", "!=": "!="}
_OPS = {ast.Lt: "<", ast.LtE: "<=", ast.Gt: ">", ast.GtE: ">=", ast.Eq: "==", ast.NotEq: "!="}


def _rel_of_compare(e: ast.Compare, pol: bool, symf):
    if not (isinstance(e, ast.Compare) and len(e.ops) == 1 and type(e.ops[0]) in _OPS):
        return None
    op = _OPS[type(e.ops[0])]
    if not pol:
        op = _NEG[op]
    return symf(e.left), op, symf(e.comparators[0]), e


def relations(test, pol: bool, symf):
    """Relations (L, op, R, enabling, compare-node) known to hold on a path on which `test` evaluated to
    `pol`.  `not (A and B and cmp)` yields cmp negated, conditional on the enabling conjuncts."""
    out = []
    for e, p in atoms(test, pol):
        if isinstance(e, ast.Compare) and len(e.ops) > 1 and p:
            # a <= b <= c holds: every adjacent pair holds
            terms = [e.left] + list(e.comparators)
            for a_, op_, b_ in zip(terms, e.ops, terms[1:]):
                r = _rel_of_compare(ast.Compare(left=a_, ops=[op_], comparators=[b_]), True, symf)
                if r is not None:
                    out.append((r[0], r[1], r[2], [], r[3]))
            continue
        r = _rel_of_compare(e, p, symf)
        if r is not None:
            out.append((r[0], r[1], r[2], [], r[3]))
        elif isinstance(e, ast.BoolOp) and isinstance(e.op, ast.And) and not p:
            cmps = [v for v in e.values if isinstance(v, ast.Compare) and is_none_test(v) is None]
            if len(cmps) == 1:
                r = _rel_of_compare(cmps[0], False, symf)
                if r is not None:
                    out.append((r[0], r[1], r[2], [v for v in e.values if v is not cmps[0]], r[3]))
    return out


def _guard_rels(tracer: Tracer, g: Guard):
    st = St()
    st.env = g.env

    def symf(n):
        return tracer.sym(n, st, g.fr)
    return [(l, op, r, [symf(_strip_none_test(x)) for x in en], node) for l, op, r, en, node in
            relations(g.test, g.pol, symf)]


def _strip_none_test(e):
    if isinstance(e, ast.Compare) and len(e.ops) == 1 and isinstance(e.ops[0], (ast.Is, ast.IsNot)):
        return e.left
    if isinstance(e, ast.UnaryOp) and isinstance(e.op, ast.Not):
        return e.operand
    return e


def _bounded(tracer, guards, bound_sym: str, ok_ops, enabling_ok) -> bool:
    """Some guard on the path states  len(..) <op> bound_sym  with op in ok_ops."""
    for g in guards:
        for l, op, r, en, _ in _guard_rels(tracer, g):
            if r.startswith("len(") and l == bound_sym:
                l, op, r = r, _FLIP[op], l
            if l.startswith("len(") and r == bound_sym and op in ok_ops and all(enabling_ok(e) for e in en):
                return True
    return False


# ----------------------------------------------------------------------------- R2

def r2(ctx):
    repo = ctx.repo
    ctx.rule("C08.R2", "reject, don't truncate: a raising length/size/range comparison dominates every length-"
                       "prefixed or fixed-size write; helpers.BitField.pack range-checks each member before OR-ing")
    # (i) length-prefix writes  S.write(<spec>, len(X))
    found = 0
    for label, ci, s, d, sp, dp in discover_pairs(ctx):
        if label in R1_EXCEPTIONS:
            continue
        results: Dict[str, List[bool]] = {}
        t = Tracer(repo, ci, "main")

        def hook(tok, node, st, fr, sid, t=t, results=results):
            if tok[0] != "E" or sid != "main" or not isinstance(node, ast.Call) or len(node.args) < 2:
                return
            if not t.sym(node.args[1], st, fr).startswith("len("):
                return
            bound = tok[1] + ".max_val"
            ok = _bounded(t, st.guards, bound, ("<=", "<"), lambda e: e == bound)
            results.setdefault(tok[1], []).append(ok)
        t.event_hooks.append(hook)
        t.run(s, sp)
        for spec, oks in sorted(results.items()):
            found += 1
            ctx.ob("C08.R2", f"{label}.serialize: length written through {spec} is bounded by {spec}.max_val "
                             f"(raise) on every path", all(oks), s.where,
                   "a value longer than the length field can express would be written with a wrapped/failed length")
    ctx.floor("C08.R2", "length-prefix writes", found, 2)

    # (ii) fixed-size writers
    for mod, cname, size_path, excluded in R2_FIXED:
        ci = repo.cls(cname, mod)
        s = repo.lookup_method(ci, "serialize")
        ctx.require(s is not None, f"C08.R2: {cname}.serialize vanished")
        sp = _stream_param(s, "writer", 1)
        t = Tracer(repo, ci, "main")
        verdicts: List[bool] = []

        def hook(tok, node, st, fr, sid, t=t, verdicts=verdicts, size_path=size_path, excluded=excluded):
            if sid != "main" or tok[0] not in ("E", "B"):
                return
            for path, pol in excluded:
                if pol in st.facts_about(path):
                    return
            verdicts.append(_bounded(t, st.guards, size_path, ("==", "<=", "<"), lambda e: e == size_path))
        t.event_hooks.append(hook)
        t.run(s, sp)
        ctx.require(bool(verdicts), f"C08.R2: {cname}.serialize has no wire event to guard")
        if not all(verdicts):
            deleg: List[bool] = []
            t2 = Tracer(repo, ci, "main")
            t2.event_hooks.append(lambda tok, node, st, fr, sid, deleg=deleg, ci=ci:
                                  deleg.append(tok[0] == "E" and _child_is_guarded_fixed(repo, ci, tok[1]))
                                  if sid == "main" and tok[0] in ("E", "B") else None)
            t2.run(s, sp)
            if deleg and all(deleg):
                verdicts[:] = [True]
                ctx.note(f"C08.R2 {cname}.serialize: size enforced by the fixed-size child spec it writes through")
        ctx.ob("C08.R2", f"{_label(ci)}.serialize: size {size_path} enforced (raise) before every write",
               all(verdicts), s.where, "a value of the wrong size would be written instead of rejected")

    # (iii) helpers.BitField.pack
    pack = repo.fn("BitField.pack", HELPERS)
    t = Tracer(repo, pack.cls, None)
    acc: Dict[str, List[bool]] = {}
    acc_low: Dict[str, List[bool]] = {}

    def shook(stmt, st, fr):
        if not (isinstance(stmt, ast.AugAssign) and isinstance(stmt.op, ast.BitOr)):
            return
        if st.loopdepth == 0:
            return
        # the member being OR-ed in: an element of pack()'s value parameter, whatever it is called here
        members = {t.sym(n, st, fr) for n in ast.walk(stmt.value) if isinstance(n, (ast.Name, ast.Subscript))}
        members = {m for m in members if m.startswith("<param>[")}
        if not members:
            return
        branch = ",".join(sorted(f"{v[2]}={v[0]}" for v in st.pc.values() if SPEC_PATH.fullmatch(v[2])))
        ok = False
        low = False
        for g in st.guards[st.gbase:]:
            gst = St()
            gst.env = g.env
            for l, op, r, en, node in _guard_rels(t, g):
                if en:
                    continue
                lhs, rhs = node.left, node.comparators[0]
                for a, asym, b, o in ((lhs, l, rhs, op), (rhs, r, lhs, _FLIP[op])):
                    # non-negative: member >= 0 / member > -1, or member == member & mask (a mask has no sign)
                    if asym in members and ((o == ">=" and isinstance(b, ast.Constant) and b.value == 0) or
                                            (o == ">" and t.sym(b, gst, g.fr) in ("-1", "?UnaryOp")) or
                                            (o == "==" and any(isinstance(x, ast.BinOp) and isinstance(x.op, ast.BitAnd)
                                                               for x in ast.walk(b)))):
                        low = True
                    # the bound must be computed (a mask), not the member itself or a literal
                    computed = any(not t.sym(n, gst, g.fr).startswith(("<param>", "<value>"))
                                   for n in ast.walk(b) if isinstance(n, ast.Name))
                    if asym in members and o in ("<=", "<", "==") and computed:
                        ok = True
        acc.setdefault(branch or "always", []).append(ok)
        acc_low.setdefault(branch or "always", []).append(low)
    t.stmt_hooks.append(shook)
    t.run(pack)
    ctx.floor("C08.R2", "BitField.pack accumulate sites", len(acc), 1)
    for branch, oks in sorted(acc.items()):
        ctx.ob("C08.R2", f"helpers.BitField.pack [{branch}]: member value range-checked against its own mask "
                         f"(raise) before being OR-ed in", all(oks), pack.where,
               "an out-of-range member would spill into its neighbour's bits instead of being rejected")
    for branch, lows in sorted(acc_low.items()):
        ctx.ob("C08.R2", f"helpers.BitField.pack [{branch}]: member value checked to be non-negative (raise) before "
                         f"being OR-ed in", all(lows), pack.where,
               "a negative member sign-extends over every later member (val << n keeps the sign) instead of being rejected")


def _child_is_guarded_fixed(repo, ci: ClassInfo, spec_sym: str) -> bool:
    """spec_sym is '@.attr' and every assignment of self.attr in the class builds a class that has its
    own fixed-size row (whose guard is checked there)."""
    m = re.fullmatch(r"@\.(\w+)", spec_sym)
    if not m:
        return False
    fixed = {c for _, c, _, _ in R2_FIXED}
    vals = []
    for c in repo.mro(ci):
        for meth in c.methods.values():
            for st in stores(meth.node, into_defs=False):
                if st.path == f"self.{m.group(1)}" and st.kind == "assign" and st.value is not None:
                    vals.append(st.value)
    return bool(vals) and all(isinstance(v, ast.Call) and (ap(v.func) or "").split(".")[-1] in fixed
                              and (ap(v.func) or "").split(".")[-1] != ci.name for v in vals)


# ----------------------------------------------------------------------------- R2 (iv) / R8: statement lints

def _scoped_nodes(t: Tracer, node, st: St, fr):
    """(sub-node, state in whose env comprehension targets are bound) for every node below `node`."""
    yield node, st
    if isinstance(node, (ast.GeneratorExp, ast.ListComp, ast.SetComp, ast.DictComp)):
        inner = St()
        inner.env = dict(st.env)
        for g in node.generators:
            yield from _scoped_nodes(t, g.iter, inner, fr)
            _, _, elem = t.iter_info(g.iter, inner, fr)
            t._bind(g.target, elem, inner)
            for c in g.ifs:
                yield from _scoped_nodes(t, c, inner, fr)
        for e in ([node.key, node.value] if isinstance(node, ast.DictComp) else [node.elt]):
            yield from _scoped_nodes(t, e, inner, fr)
        return
    if isinstance(node, ast.Lambda):
        return
    for ch in ast.iter_child_nodes(node):
        if isinstance(ch, (ast.expr, ast.keyword, ast.comprehension)):
            yield from _scoped_nodes(t, ch, st, fr)


_S_CODE = re.compile(r"\d*[sp]")


def _fmt_truncates(node) -> bool:
    """A struct format with a byte-string code ('Ns' / 'Np' silently cut longer values)."""
    if isinstance(node, ast.Constant) and isinstance(node.value, str):
        return bool(_S_CODE.search(node.value.lstrip("<>!=@")))
    # a format assembled at run time (f-string, %-formatting, .format): any literal piece carrying the code
    return any(isinstance(v, ast.Constant) and isinstance(v.value, str)
               and re.search(r"[sp]", v.value.replace("%s", "").replace("{}", ""))
               for v in ast.walk(node))


def _struct_attr_truncates(repo, ci: Optional[ClassInfo], recv_sym: str) -> bool:
    m = re.fullmatch(r"@\.(\w+)", recv_sym)
    if not m or ci is None:
        return False
    for c in repo.mro(ci):
        for meth in c.methods.values():
            for st in stores(meth.node, into_defs=False):
                if st.path == f"self.{m.group(1)}" and isinstance(st.value, ast.Call) and \
                        (ap(st.value.func) or "").endswith("Struct") and st.value.args and _fmt_truncates(st.value.args[0]):
                    return True
    return False


def _len_guarded(t: Tracer, guards, measured: str) -> bool:
    for g in guards:
        for l, op, r, en, _ in _guard_rels(t, g):
            if r == f"len({measured})":
                l, op, r = r, _FLIP[op], l
            if l == f"len({measured})" and op in ("<=", "<", "==") and not en:
                return True
    return False


def _range_guarded(t: Tracer, guards, measured: str) -> bool:
    for g in guards:
        for l, op, r, en, _ in _guard_rels(t, g):
            if not en and measured in (l, r) and op in ("<=", "<", ">=", ">"):
                return True
    return False


def r2_truncation(ctx):
    """(iv) nothing on a write path silently cuts the value: a slice with an upper bound or a struct 's'/'p'
    pack applied to (a representation of) the value is dominated by a rejecting length test of that very
    representation."""
    repo = ctx.repo
    for label, ci, s, d, sp, dp in discover_pairs(ctx):
        if sp is None:
            continue
        vp = (_params(s) or [None])[0]
        t = Tracer(repo, ci, "main")
        bad: List[str] = []
        seen: List[int] = []

        def pre(stmt, st, fr, t=t, bad=bad, seen=seen, ci=ci):
            for n, sc in _scoped_nodes(t, stmt.iter if isinstance(stmt, ast.For) else stmt, st, fr):
                cut = None
                if isinstance(n, ast.Call) and isinstance(n.func, ast.Name) and n.func.id == "zip" and len(n.args) >= 2:
                    # zip() stops at the shorter operand: walking a spec table in step with the value needs the
                    # two lengths to be equal, or the surplus is silently dropped
                    syms_ = [t.sym(a, sc, fr) for a in n.args]
                    tables = [x for x in syms_ if SPEC_PATH.fullmatch(x)]
                    data = [x for x in syms_ if x.startswith("<value>")]
                    if tables and data:
                        seen.append(1)
                        ok = False
                        for g in st.guards:
                            for l, op, r, en, _ in _guard_rels(t, g):
                                if not en and op == "==" and {l, r} == {f"len({data[0]})", f"len({tables[0]})"}:
                                    ok = True
                        if not ok:
                            bad.append(f"{norm(n)} drops the surplus of {data[0]}")
                    continue
                if isinstance(n, ast.Subscript) and isinstance(n.slice, ast.Slice) and n.slice.upper is not None \
                        and isinstance(n.ctx, ast.Load):
                    cut = n.value
                elif isinstance(n, ast.Call) and isinstance(n.func, ast.Attribute) and n.func.attr in ("pack", "pack_into") \
                        and n.args:
                    rs = t.sym(n.func.value, sc, fr)
                    if rs == "struct" and _fmt_truncates(n.args[0]) and len(n.args) > 1:
                        cut = n.args[1]
                    elif _struct_attr_truncates(repo, ci, rs):
                        cut = n.args[0]
                if cut is None and isinstance(n, ast.BinOp) and isinstance(n.op, (ast.BitAnd, ast.Mod)):
                    # val & 0xFF / val % 256 wraps an out-of-range number instead of rejecting it
                    for val_, k_ in ((n.left, n.right), (n.right, n.left)):
                        is_mask = (isinstance(k_, ast.Constant) and isinstance(k_.value, int) and not isinstance(k_.value, bool)) \
                            or bool(SPEC_PATH.fullmatch(t.sym(k_, sc, fr)))
                        if is_mask and t.sym(val_, sc, fr) == "<value>":
                            seen.append(1)
                            if not _range_guarded(t, st.guards, "<value>"):
                                bad.append(f"{norm(n)} wraps <value>")
                    continue
                if cut is None:
                    continue
                measured = t.sym(cut, sc, fr)
                alts = measured[1:-1].split("|") if measured.startswith("{") and measured.endswith("}") else [measured]
                for m_ in alts:
                    if not m_.startswith("<value>"):
                        continue
                    seen.append(1)
                    if not _len_guarded(t, st.guards, m_):
                        bad.append(f"{norm(n)} cuts {m_}")
        t.pre_stmt_hooks.append(pre)
        t.run(s, sp, value_param=vp)
        ctx.stats["C08.R2.truncating operations on values"] = ctx.stats.get("C08.R2.truncating operations on values", 0) + len(seen)
        ctx.ob("C08.R2", f"{label}.serialize: nothing silently cuts the value (slice / struct 's' pack / zip against a spec table / integer mask) without a "
                         f"rejecting length test of that same representation", not bad, s.where,
               "; ".join(sorted(set(bad))) + ": an over-long value would be written truncated instead of rejected")


def r8(ctx):
    repo = ctx.repo
    ctx.rule("C08.R8", "decoders do not sanitise: a value read from the stream is never replaced by a constant "
                       "under a test of that value (two wire values would decode to the same result)")
    n_cls = 0
    for label, ci, s, d, sp, dp in discover_pairs(ctx):
        if dp is None:
            continue
        n_cls += 1
        t = Tracer(repo, ci, "main")
        bad: List[str] = []

        def from_stream(sym_: str) -> bool:
            return "<stream:" in sym_

        def pre(stmt, st, fr, t=t, bad=bad):
            for n, sc in _scoped_nodes(t, stmt, st, fr):
                if not isinstance(n, ast.IfExp):
                    continue
                for keep, other in ((n.body, n.orelse), (n.orelse, n.body)):
                    if isinstance(other, ast.Constant) and other.value is not None and not isinstance(keep, ast.Constant):
                        ks = t.sym(keep, sc, fr)
                        tested = {t.sym(x, sc, fr) for x in ast.walk(n.test) if isinstance(x, (ast.Name, ast.Attribute, ast.Subscript))}
                        if from_stream(ks) and ks in tested:
                            bad.append(norm(n))
        t.pre_stmt_hooks.append(pre)
        orig_if = t._if

        def _if(s_, st, fr, t=t, bad=bad, orig_if=orig_if):
            # statement form:  if test(v): v = CONST
            for blk, _pol in ((s_.body, True), (s_.orelse, False)):
                for a in blk:
                    if isinstance(a, ast.Assign) and len(a.targets) == 1 and isinstance(a.targets[0], ast.Name) \
                            and isinstance(a.value, ast.Constant) and a.value.value is not None:
                        vs = t.sym(a.targets[0], st, fr)
                        tested = {t.sym(x, st, fr) for x in ast.walk(s_.test) if isinstance(x, (ast.Name, ast.Attribute, ast.Subscript))}
                        if from_stream(vs) and vs in tested:
                            bad.append(f"if {norm(s_.test)}: {norm(a)}")
            return orig_if(s_, st, fr)
        t._if = _if
        t.run(d, dp)
        ctx.ob("C08.R8", f"{label}.deserialize: no value read from the stream is replaced by a constant under a test "
                         f"of that value", not bad, d.where,
               "; ".join(sorted(set(bad))) + ": distinct wire values decode to one result, read(write(v)) != v for them")
    ctx.floor("C08.R8", "deserializers inspected", n_cls, 28)


# ----------------------------------------------------------------------------- R3

PRIM_TYPES = {"SerializablePrimitive", "Struct"}
ARITH = (ast.Add, ast.Sub, ast.Mult, ast.Div, ast.FloorDiv, ast.Mod, ast.Pow, ast.LShift, ast.RShift)


def _ann_is_prim(ann) -> bool:
    if ann is None:
        return False
    for n in ast.walk(ann):
        p = ap(n) if isinstance(n, (ast.Name, ast.Attribute)) else None
        if p and p.split(".")[-1] in PRIM_TYPES:
            return True
        if isinstance(n, ast.Constant) and isinstance(n.value, str) and n.value.split(".")[-1] in PRIM_TYPES:
            return True
    return False


def _static_prim(repo, f: FuncInfo, recv) -> bool:
    p = ap(recv)
    if p is None:
        return False
    fn_node = f.node
    if isinstance(recv, ast.Name):
        a = fn_node.args
        for prm in list(a.posonlyargs) + list(a.args) + list(a.kwonlyargs):
            if prm.arg == recv.id and _ann_is_prim(prm.annotation):
                return True
        for n in walk(fn_node):
            if isinstance(n, ast.AnnAssign) and _ann_is_prim(n.annotation):
                if isinstance(n.value, ast.Name) and n.value.id == recv.id:
                    return True
                if isinstance(n.target, ast.Name) and n.target.id == recv.id:
                    return True
        v = repo.module_assign(f.module, recv.id)
        if isinstance(v, ast.Call) and (ap(v.func) or "").split(".")[-1] in PRIM_TYPES:
            return True
        return False
    if isinstance(recv, ast.Attribute) and isinstance(recv.value, ast.Name) and recv.value.id in ("self", "cls") \
            and f.cls is not None:
        for c in repo.mro(f.cls):
            for st in c.node.body:
                if isinstance(st, ast.AnnAssign) and isinstance(st.target, ast.Name) and st.target.id == recv.attr \
                        and _ann_is_prim(st.annotation):
                    return True
            for m in c.methods.values():
                for n in walk(m.node):
                    if isinstance(n, ast.AnnAssign) and ap(n.target) == f"self.{recv.attr}" and _ann_is_prim(n.annotation):
                        return True
    return False


def _is_arith_use(node) -> Optional[ast.AST]:
    """The arithmetic construct that consumes `node` as an operand, if any."""
    p = parent(node)
    if isinstance(p, ast.BinOp) and isinstance(p.op, ARITH):
        return p
    if isinstance(p, ast.AugAssign) and p.value is node and isinstance(p.op, ARITH):
        return p
    if isinstance(p, ast.UnaryOp) and isinstance(p.op, (ast.USub, ast.UAdd)):
        return p
    if isinstance(p, ast.Call) and isinstance(p.func, ast.Name) and p.func.id in ("sum", "max", "min") and node in p.args:
        return p
    return None


def _scalar_guarded(use, name: str, fn_node) -> bool:
    for e, pol in facts(use, fn_node):
        t = is_none_test(e)
        if t and t[0] == name and t[1] != pol:
            return True
        if ap(e) == name and pol:
            return True
    return False


def _collection_guarded(use, name: str, fn_node) -> bool:
    for e, pol in facts(use, fn_node):
        if isinstance(e, ast.Call) and isinstance(e.func, ast.Name) and e.func.id in ("any", "all") and e.args \
                and isinstance(e.args[0], (ast.GeneratorExp, ast.ListComp)):
            g = e.args[0]
            if len(g.generators) == 1 and ap(g.generators[0].iter) == name:
                t = is_none_test(g.elt)
                tgt = ap(g.generators[0].target)
                if t and t[0] == tgt:
                    if e.func.id == "any" and t[1] and not pol:
                        return True
                    if e.func.id == "all" and not t[1] and pol:
                        return True
        if isinstance(e, ast.Compare) and len(e.ops) == 1 and isinstance(e.left, ast.Constant) and e.left.value is None \
                and ap(e.comparators[0]) == name:
            if isinstance(e.ops[0], ast.In) and not pol or isinstance(e.ops[0], ast.NotIn) and pol:
                return True
    return False


def _name_uses(fn_node, name: str):
    return [n for n in walk(fn_node) if isinstance(n, ast.Name) and n.id == name and isinstance(n.ctx, ast.Load)]


def r2_casts(ctx):
    """(v) a numpy cast of the value to the spec's own dtype is an unchecked C cast (wraps / truncates): on a write
    path it is followed by a rejecting comparison with the source, or asks numpy for a safe cast."""
    repo = ctx.repo
    n = 0
    for ci in _spec_classes(repo):
        for name in ("encode", "serialize"):
            m = ci.methods.get(name)
            if m is None or is_abstract(m):
                continue
            vp = (_params(m) or [None])[0]
            casts = []
            for c in [x for x in walk(m.node) if isinstance(x, ast.Call)]:
                tgt = None
                if isinstance(c.func, ast.Attribute) and c.func.attr == "astype" and c.args:
                    tgt = c.args[0]
                    safe = isinstance(kw(c, "casting"), ast.Constant) and kw(c, "casting").value in ("safe", "no", "equiv")
                elif (ap(c.func) or "").split(".")[-1] in ("array", "asarray") and kw(c, "dtype") is not None:
                    tgt = kw(c, "dtype")
                    safe = False
                if tgt is not None and (ap(tgt) or "").startswith(("self.", "cls.")) and not safe:
                    casts.append(c)
            if not casts:
                continue
            # the data being cast comes straight from the value parameter
            direct = [c for c in casts if vp in {x.id for x in ast.walk(c) if isinstance(x, ast.Name)}
                      or any(isinstance(c.func, ast.Attribute) and isinstance(c.func.value, ast.Name) and
                             any(st.path == c.func.value.id and st.value is not None and
                                 vp in {x.id for x in ast.walk(st.value) if isinstance(x, ast.Name)}
                                 and not any(isinstance(y, ast.BinOp) for y in ast.walk(st.value))
                                 for st in stores(m.node, into_defs=False)) for _ in (0,))]
            # a value already computed by this method (quantised codes) is that method's business
            direct = [c for c in direct if not any(st.kind == "augassign" and st.path == vp for st in stores(m.node, into_defs=False))]
            if not direct:
                continue
            n += 1
            scope = _writer_scope(repo, m)           # the comparison may live in a helper the method calls
            checked = any(isinstance(x, ast.Call) and (ap(x.func) or "").split(".")[-1] in ("array_equal", "can_cast", "allclose")
                          for f_ in scope for x in walk(f_.node)) and \
                any(isinstance(x, ast.Raise) for f_ in scope for x in walk(f_.node))
            ctx.ob("C08.R2", f"{_label(ci)}.{name}: cast of the value to the spec's dtype is checked against the source (raise)",
                   checked, ctx.w(m, direct[0]), f"{norm(direct[0])} wraps / truncates elements that do not fit "
                                                 f"(70000 -> 4464 in a 16-bit index list) instead of rejecting them")
    ctx.stats["C08.R2.numpy casts of values"] = n


def r3(ctx):
    repo = ctx.repo
    ctx.rule("C08.R3", "size queries: arithmetic on a calc_size() result is None-guarded (or the receiver is "
                       "statically a Struct/primitive); a fixed size reported by calc_size equals the byte total of "
                       "the class's single deserialize trace")
    uses = 0
    for f in repo.all_funcs:
        if f.parent_fn is not None:
            continue
        for c in find_calls(f.node, "calc_size", into_defs=True):
            if not isinstance(c.func, ast.Attribute) or c.args:
                continue
            recv = c.func.value
            static = _static_prim(repo, f, recv)
            key_base = f"{f.qual}: arithmetic on {norm(c)}"
            where = ctx.w(f, c)
            direct = _is_arith_use(c)
            p = parent(c)
            if direct is not None:
                uses += 1
                ctx.ob("C08.R3", key_base, static, where,
                       "calc_size() may return None (variable-size spec): the size query would raise TypeError")
                continue
            if isinstance(p, (ast.GeneratorExp, ast.ListComp, ast.SetComp)) and p.elt is c:
                outer = _is_arith_use(p)
                if outer is not None:
                    uses += 1
                    ctx.ob("C08.R3", key_base + " (aggregated)", static, where,
                           "sum over sizes that may be None: the size query would raise TypeError")
                    continue
                pp = parent(p)
                if isinstance(pp, ast.Assign) and len(pp.targets) == 1 and isinstance(pp.targets[0], ast.Name):
                    coll = pp.targets[0].id
                    for u in _name_uses(f.node, coll):
                        au = _is_arith_use(u)
                        if au is not None:
                            uses += 1
                            ctx.ob("C08.R3", f"{f.qual}: {norm(au)} over sizes from {norm(c)}",
                                   static or _collection_guarded(au, coll, f.node), ctx.w(f, au),
                                   "aggregate over sizes that may contain None without a dominating None test")
                continue
            if isinstance(p, (ast.Assign, ast.AnnAssign)) and p.value is c:
                tgt = p.targets[0] if isinstance(p, ast.Assign) and len(p.targets) == 1 else getattr(p, "target", None)
                if isinstance(tgt, ast.Name):
                    for u in _name_uses(f.node, tgt.id):
                        au = _is_arith_use(u)
                        if au is not None:
                            uses += 1
                            ctx.ob("C08.R3", f"{f.qual}: {norm(au)} uses size from {norm(c)}",
                                   static or _scalar_guarded(au, tgt.id, f.node), ctx.w(f, au),
                                   "arithmetic on a size that may be None without a dominating None test")
    ctx.floor("C08.R3", "arithmetic uses of calc_size results", uses, 3)
    # None ("no fixed size") and 0 ("nothing on the wire") are both answers: `calc_size() or K` replaces them by a guess
    for f in repo.all_funcs:
        if f.parent_fn is not None or f.module.rel not in PAIR_MODULES:
            continue
        for c in find_calls(f.node, "calc_size", into_defs=True):
            p_ = parent(c)
            if isinstance(p_, ast.BoolOp) and isinstance(p_.op, ast.Or) and p_.values[0] is c and \
                    any(isinstance(v, ast.Constant) and isinstance(v.value, (int, float)) and v.value for v in p_.values[1:]):
                ctx.ob("C08.R3", f"{f.qual}: {norm(p_)} replaces an unknown / zero size by a guess", False, ctx.w(f, c),
                       "entries of unknown size may take fewer bytes than the guess, entries of size 0 take none: a limit "
                       "computed from it rejects encodings the writer produces")

    # consistency of reported fixed sizes with the reader's trace
    base = repo.cls("SerializableBase", SER)
    checked = 0
    for name in sorted(repo.classes):
        for ci in repo.classes[name]:
            if ci.module.rel not in PAIR_MODULES or "calc_size" not in ci.methods:
                continue
            if not any(m == base for m in repo.mro(ci)):
                continue
            cs = ci.methods["calc_size"]
            rets = [n for n in walk(cs.node) if isinstance(n, ast.Return)]
            if all(r.value is None or (isinstance(r.value, ast.Constant) and r.value.value is None) for r in rets):
                continue
            d = repo.lookup_method(ci, "deserialize")
            ctx.require(d is not None and not is_abstract(d), f"C08.R3: {ci.name} reports a size but has no deserialize")
            dp = _stream_param(d, "reader", 0)
            ws = _raw_words(repo, ci, d, dp, "main")
            checked += 1
            label = _label(ci)
            ctx.ob("C08.R3", f"{label}: class reporting a fixed size has a single deserialize trace", len(ws) == 1,
                   d.where, f"{len(ws)} distinct wire shapes: {render_set({canon(w) for w in ws})}")
            if len(ws) != 1:
                continue
            want = {(c, STRUCT_SIZE.sub("bytes:STRUCT", t)) for c, t in size_terms(next(iter(ws)))}
            got = {(c, STRUCT_SIZE.sub("bytes:STRUCT", t)) for c, t in _calc_terms(repo, ci, cs)}
            got, want = ({x for x in g_ if x[1] != "bytes:0"} for g_ in (got, want))     # nothing on the wire
            ctx.ob("C08.R3", f"{label}: calc_size equals the byte total of the deserialize trace", want == got,
                   cs.where, f"calc_size terms {sorted(got)} vs reader terms {sorted(want)}")
    ctx.floor("C08.R3", "classes reporting a fixed size", checked, 7)
    # the Struct equivalence used above: both struct objects come from the same format
    init = repo.fn("Struct.__init__", SER)
    from .common import class_methods_reachable
    fmts = set()
    n_structs = 0
    for f_ in class_methods_reachable(repo, init, depth=2):
        prm = set(_params(f_)) | {a.arg for a in f_.node.args.args}
        for c in [x for x in walk(f_.node) if isinstance(x, ast.Call) and (ap(x.func) or "").endswith("Struct") and x.args]:
            n_structs += 1
            # which of the enclosing function's parameters the format is made of (module constants = prefixes)
            fmts.add(frozenset(n.id for n in ast.walk(c.args[0]) if isinstance(n, ast.Name) and n.id in prm))
    ctx.ob("C08.R3", "serialization.Struct: _le_struct and _be_struct are built from the same format",
           n_structs >= 1 and len(fmts) == 1 and bool(next(iter(fmts))), init.where,
           f"format sources {sorted(map(sorted, fmts))}")


def _calc_terms(repo, ci: ClassInfo, cs: FuncInfo):
    t = Tracer(repo, ci, None)
    st = St()
    for prm in cs.node.args.args[:1]:
        st.env[prm.arg] = "@"
    fr = t._frame(cs, ci, cs.module, 0, (cs.full,))
    out = set()
    from .common import class_methods_reachable
    calls = [c for f_ in class_methods_reachable(repo, cs, depth=2) if f_.name != "deserialize"
             for c in find_calls(f_.node, "calc_size", into_defs=False) if isinstance(c.func, ast.Attribute)
             and not (isinstance(c.func.value, ast.Name) and c.func.value.id in ("self", "cls") and f_ is not cs)]
    if calls:
        for c in calls:
            recv = c.func.value
            ctxs: Tuple[str, ...] = ()
            sym = None
            if isinstance(recv, ast.Name):
                # bound by an enclosing loop / comprehension?
                n = c
                while n is not None and not isinstance(n, (ast.FunctionDef, ast.AsyncFunctionDef)):
                    gens = []
                    if isinstance(n, ast.For):
                        gens = [(n.target, n.iter)]
                    elif isinstance(n, (ast.GeneratorExp, ast.ListComp, ast.SetComp, ast.DictComp)):
                        gens = [(g.target, g.iter) for g in n.generators]
                    for tgt, it in gens:
                        if recv.id in {x.id for x in ast.walk(tgt) if isinstance(x, ast.Name)}:
                            sources, count, elem = t.iter_info(it, st, fr)
                            b = St()
                            b.env = dict(st.env)
                            t._bind(tgt, elem, b)
                            sym = b.env.get(recv.id)
                            k = t.loop_kind(sources)
                            ctxs = (k if k != "rep" else f"rep:{count}",)
                    if sym is not None:
                        break
                    n = parent(n)
            if sym is None:
                sym = t.sym(recv, st, fr)
            p = parent(c)
            if isinstance(p, ast.BinOp) and isinstance(p.op, ast.Mult):
                other = p.right if p.left is c else p.left
                ctxs = ctxs + (f"rep:{t.sym(other, st, fr)}",)
            out.add((ctxs, f"size({sym})"))
        return out
    for r in [n for n in walk(cs.node) if isinstance(n, ast.Return)]:
        if r.value is None or (isinstance(r.value, ast.Constant) and r.value.value is None):
            continue
        out.add(((), f"bytes:{t.sym(r.value, st, fr)}"))
    return out


# ----------------------------------------------------------------------------- R4

def _bound_facts(node, fn_node, pos_names: Set[str]):
    """(op, other, enabling) for dominating facts  <pos> op <other>  at node."""
    out = []
    for e, pol in facts(node, fn_node):
        for l, op, r, en, cmp_ in relations(e, pol, lambda n: ap(n) or norm(n)):
            if r in pos_names and l not in pos_names:
                l, op, r = r, _FLIP[op], l
            if l in pos_names:
                out.append((op, r, [ap(x) or norm(x) for x in en]))
    return out


def r4(ctx):
    repo = ctx.repo
    ctx.rule("C08.R4", "bounded reads: BufferReader.read_bytes / seek raise on out-of-range positions before "
                       "moving; the only way to skip the check (check_len=False) is a non-consuming peek")
    cls = repo.cls("BufferReader", SER)
    rb = repo.fn("BufferReader.read_bytes", SER)
    sk = repo.fn("BufferReader.seek", SER)
    # the reader's fields by role, not by name: position = what tell() returns, length = len(<buffer>) taken
    # in __init__
    tell = repo.lookup_method(cls, "tell")
    init = repo.lookup_method(cls, "__init__")
    ctx.require(tell is not None and init is not None, "C08.R4: BufferReader.tell / __init__ vanished")
    pos_paths = {ap(r.value) for r in walk(tell.node) if isinstance(r, ast.Return) and r.value is not None}
    pos_paths = {p_ for p_ in pos_paths if p_ and p_.startswith("self.")}
    ctx.require(len(pos_paths) == 1, f"C08.R4: BufferReader.tell does not return one position field ({sorted(pos_paths)})")
    POS = next(iter(pos_paths))
    len_paths = {s_.path for s_ in stores(init.node, into_defs=False) if s_.kind == "assign" and s_.path.startswith("self.")
                 and isinstance(s_.value, ast.Call) and ap(s_.value.func) == "len"}
    ctx.require(len(len_paths) == 1, f"C08.R4: BufferReader.__init__ does not record one buffer length ({sorted(len_paths)})")
    LEN = next(iter(len_paths))

    def position_moves(f: FuncInfo):
        """(node at which the move is decided, names of the new position there): direct stores, or calls of
        helper methods that store one of their parameters into the position field."""
        out = []
        for s_ in stores(f.node, into_defs=False):
            if s_.path == POS and s_.kind in ("assign", "augassign"):
                out.append((s_.node, {ap(s_.value) or norm(s_.value)}))
        for c in [n for n in walk(f.node) if isinstance(n, ast.Call)]:
            fn_ = c.func
            if isinstance(fn_, ast.Attribute) and isinstance(fn_.value, ast.Name) and fn_.value.id == "self":
                m = repo.lookup_method(cls, fn_.attr)
                if m is None or m is f or m.name in ("seek", "read_bytes"):
                    continue
                prm = _params(m)
                for s_ in stores(m.node, into_defs=False):
                    if s_.path == POS and s_.kind == "assign" and isinstance(s_.value, ast.Name) and s_.value.id in prm:
                        k = prm.index(s_.value.id)
                        arg = c.args[k] if k < len(c.args) else kw(c, s_.value.id)
                        if arg is not None:
                            out.append((c, {ap(arg) or norm(arg)}))
        return out
    helper_ok = set()
    for f in (rb, sk):
        moves = position_moves(f)
        ctx.require(moves, f"C08.R4: {f.qual} no longer moves the read position ({POS})")
        for node, names in moves:
            if isinstance(node, ast.Call):
                helper_ok.add(node.func.attr)
            bf = _bound_facts(node, f.node, names)
            upper = [b for b in bf if b[0] in ("<=", "<") and b[1] == LEN]
            params = set(_params(f))
            if f is rb:
                ok_u = any(all(e in params for e in b[2]) for b in upper)
                opt_out = sorted({e for b in upper for e in b[2]})
                ctx.ob("C08.R4", "BufferReader.read_bytes: position move bounded above by the buffer length (raise)", ok_u,
                       ctx.w(f, node), "a read past the end would silently return a short slice")
                ctx.ob("C08.R4", "BufferReader.read_bytes: the bound can only be waived by the check_len parameter",
                       opt_out in ([], ["check_len"]), ctx.w(f, node), f"waivers {opt_out}")
            else:
                ok_u = any(not b[2] for b in upper)
                ok_l = any(b[0] in (">=", ">") and b[1] in ("0", "-1") and not b[2] for b in bf)
                ctx.ob("C08.R4", "BufferReader.seek: position move bounded above by the buffer length (raise)", ok_u,
                       ctx.w(f, node))
                ctx.ob("C08.R4", "BufferReader.seek: position move bounded below by 0 (raise)", ok_l, ctx.w(f, node))
    # the slice itself is taken under the same bound
    slices = [n for n in walk(rb.node) if isinstance(n, ast.Subscript) and (ap(n.value) or "").startswith("self.")
              and isinstance(n.slice, ast.Slice) and isinstance(n.ctx, ast.Load)]
    ctx.require(slices, "C08.R4: read_bytes no longer slices the buffer")
    for sl in slices:
        up = sl.slice.upper
        names = {ap(up) or norm(up)} if up is not None else set()
        bf = _bound_facts(sl, rb.node, names)
        ctx.ob("C08.R4", "BufferReader.read_bytes: buffer slice end bounded above by the buffer length (raise)",
               any(b[0] in ("<=", "<") and b[1] == LEN for b in bf), ctx.w(rb, sl))
    # no other method of the reader moves the position
    for m in cls.methods.values():
        if m.name in ("__init__", "seek", "read_bytes") or m.name in helper_ok:
            continue
        for s_ in stores(m.node, into_defs=True):
            if s_.path == POS:
                ctx.ob("C08.R4", f"BufferReader.{m.name}: moves the read position outside seek/read_bytes", False,
                       ctx.w(m, s_.node), "position written without the range check")
    # call sites waiving the check must be peeks
    n_sites = 0
    for f in repo.all_funcs:
        if f.parent_fn is not None:
            continue
        for c in find_calls(f.node, "read_bytes", into_defs=True):
            cl = kw(c, "check_len")
            if cl is None and len(c.args) >= 4:
                cl = c.args[3]
            if cl is None or (isinstance(cl, ast.Constant) and cl.value is True):
                continue
            n_sites += 1
            pk = kw(c, "peek")
            if pk is None and len(c.args) >= 2:
                pk = c.args[1]
            ok = isinstance(pk, ast.Constant) and pk.value is True
            ctx.ob("C08.R4", f"{f.qual}: read_bytes with check_len waived is a peek", ok, ctx.w(f, c),
                   "an unchecked consuming read moves the position past the end of the buffer")
    ctx.stats["C08.R4.check_len waivers"] = n_sites
    # embedded positive example so that the (normally small) matcher cannot go blind
    ctx.assume("FHReader.read_bytes (file handles) ignores check_len; only BufferReader is in the property's scope")


# ----------------------------------------------------------------------------- R5

def _leftover_shape(tracer: Tracer, g: Guard):
    """-> (is leftover test on an inner stream, flag symbols it is conditioned on)"""
    st = St()
    st.env = g.env

    def symf(n):
        return tracer.sym(n, st, g.fr)

    def is_left(e):
        if isinstance(e, ast.Compare) and len(e.ops) == 1 and isinstance(e.ops[0], (ast.Gt, ast.NotEq)) \
                and isinstance(e.comparators[0], ast.Constant) and e.comparators[0].value == 0:
            e = e.left
        return symf(e) in ("len(<stream:inner>)", "<stream:inner>")
    if g.pol:
        return False, []
    t = g.test
    if is_left(t):
        return True, []
    if isinstance(t, ast.BoolOp) and isinstance(t.op, ast.And):
        left = [v for v in t.values if is_left(v)]
        rest = [symf(v) for v in t.values if not is_left(v)]
        if len(left) >= 1 and all(SPEC_PATH.fullmatch(r) for r in rest):
            return True, rest
    return False, []


def r5(ctx):
    repo = ctx.repo
    ctx.rule("C08.R5", "inner windows are checked: after the inner read a raising leftover-bytes test lies on "
                       "every completing path (unless its flag is off)")
    for mod, qual in R5_WINDOWS:
        f = repo.fn(qual, mod)
        t = Tracer(repo, f.cls, "inner")
        finals = t.run(f)
        reads = [s for s in finals if any(tok[0] == "E" for tok in s.tok)]
        ctx.require(reads, f"C08.R5: {qual} no longer reads a spec from a locally built reader")
        flags: Set[str] = set()
        verdict = []
        for s in reads:
            last = max(i for i, tok in enumerate(s.tok) if tok[0] == "E")
            ok = False
            for g in s.guards:
                if g.inloop or g.pos <= last:
                    continue
                is_l, fl = _leftover_shape(t, g)
                if is_l:
                    ok = True
                    flags |= set(fl)
                    flags |= {v[2] for v in s.pc.values() if v[0] and SPEC_PATH.fullmatch(v[2])}
            verdict.append((s, ok))
        any_guard = any(ok for _, ok in verdict)
        all_ok = any_guard
        for s, ok in verdict:
            if not ok and not any(False in s.facts_about(fl) for fl in flags):
                all_ok = False
        ctx.ob("C08.R5", f"{qual}: leftover-bytes test (raise) follows the inner read on every completing path",
               all_ok, f.where, "trailing bytes of a length-delimited window would be silently dropped")


# ----------------------------------------------------------------------------- R6

def r6(ctx):
    repo = ctx.repo
    ctx.rule("C08.R6", "deferred decoding takes a snapshot: a closure/lambda that a serialize/deserialize path "
                       "returns or hands to another callable (lazy proxy) never refers to the reader/writer object - "
                       "whatever it needs (endianness, pod mode, bytes) is captured into locals before it is created")
    seen = 0
    jobs = [(label, ci, s, d, sp, dp) for label, ci, s, d, sp, dp in discover_pairs(ctx)]
    for label, ci, s, d, sp, dp in jobs:
        for fi, prm in ((s, sp), (d, dp)):
            t = Tracer(repo, ci, None)
            t.run(fi, prm)
            by_site: Dict[Tuple[str, str], Set[str]] = {}
            for name, where, refs in t.deferred:
                by_site.setdefault((name, where), set()).update(refs)
            for (name, where), refs in sorted(by_site.items()):
                seen += 1
                ctx.ob("C08.R6", f"{label}.{fi.name}: deferred {name} does not touch the stream object", not refs, where,
                       f"deferred code reads {sorted(refs)} when it is eventually run: byte order / pod mode / position "
                       f"of the stream may have changed since the field was read")
    ctx.floor("C08.R6", "deferred closures on (de)serialize paths", seen, 1)


# ----------------------------------------------------------------------------- R7

def _value_param(repo, ci: ClassInfo, fi: FuncInfo, ser_base, sub_base) -> Optional[str]:
    ps = _params(fi)
    mro = repo.mro(ci)
    if any(m == ser_base for m in mro):
        return ps[0] if ps else None
    if any(m == sub_base for m in mro):
        return ps[1] if len(ps) > 1 else None
    return None


def _flag_of(e) -> Optional[str]:
    p = ap(e)
    if p and p.count(".") == 1 and p.split(".")[0] in ("self", "cls"):
        return p.split(".")[1]
    return None


def _conjuncts(test) -> List[ast.AST]:
    if isinstance(test, ast.BoolOp) and isinstance(test.op, ast.And):
        out = []
        for v in test.values:
            out.extend(_conjuncts(v))
        return out
    return [test]


def _reader_sentinel_flags(fns: List[FuncInfo]) -> Set[str]:
    """Flags (self.X / cls.X) under which some deserialize path returns the None sentinel."""
    out: Set[str] = set()
    for f in fns:
        for n in walk(f.node):
            if isinstance(n, ast.Return) and (n.value is None or (isinstance(n.value, ast.Constant) and n.value.value is None)):
                for e, pol in facts(n, f.node):
                    fl = _flag_of(e)
                    if fl and pol:
                        out.add(fl)
    return out


def r7(ctx):
    repo = ctx.repo
    from .common import class_methods_reachable
    ctx.rule("C08.R7", "sentinel symmetry: where the reader maps a short/empty window to None under a flag and the "
                       "writer forwards the value unchanged to an arbitrary child spec, the writer's short-cut under "
                       "that flag tests the value with `is None` only (a truthiness test would swallow 0, '', [] ...)")
    ser_base = repo.cls("SerializableBase", SER)
    sub_base = repo.cls("BaseSubfieldSerializer", SER)
    n = 0
    for name in sorted(repo.classes):
        for ci in repo.classes[name]:
            if ci.module.rel not in PAIR_MODULES:
                continue
            if "serialize" not in ci.methods and "deserialize" not in ci.methods:
                continue
            s, d = repo.lookup_method(ci, "serialize"), repo.lookup_method(ci, "deserialize")
            if s is None or d is None or is_abstract(s) or is_abstract(d):
                continue
            vp = _value_param(repo, ci, s, ser_base, sub_base)
            if vp is None:
                continue
            flags = _reader_sentinel_flags(class_methods_reachable(repo, d, depth=3))
            if not flags:
                continue
            # does the writer hand the value on, whole, as the value of a spec write?
            forwards = []
            t = Tracer(repo, ci, None)

            def hook(tok, node, st, fr, sid, t=t, forwards=forwards):
                if tok[0] != "E" or not isinstance(node, ast.Call):
                    return
                attr = node.func.attr if isinstance(node.func, ast.Attribute) else None
                arg = node.args[1] if attr == "write" and len(node.args) > 1 else \
                    node.args[0] if attr == "serialize" and node.args else None
                if arg is not None and t.sym(arg, st, fr) == "<value>":
                    forwards.append(node)
            t.event_hooks.append(hook)
            is_stream = any(m == ser_base for m in repo.mro(ci))
            t.run(s, _stream_param(s, "writer", 1) if is_stream else None, value_param=vp)
            if not forwards:
                continue
            for n_ in walk(s.node):
                if not isinstance(n_, (ast.If, ast.IfExp)):
                    continue
                conj = _conjuncts(n_.test)
                flagged = {_flag_of(c) for c in conj} | {_flag_of(e) for e, pol in facts(n_, s.node) if pol}
                hit = sorted(f for f in flagged if f in flags)
                if not hit:
                    continue
                about_value = [c for c in conj if vp in {x.id for x in ast.walk(c) if isinstance(x, ast.Name)}]
                if not about_value:
                    continue
                n += 1
                ok = all((is_none_test(c) or (None,))[0] == vp for c in about_value)
                ctx.ob("C08.R7", f"{_label(ci)}.serialize: short-cut under {'/'.join(hit)} tests the value with `is None`",
                       ok, ctx.w(s, n_), f"test {norm(n_.test)}: a falsy in-domain value (0, '', []) with a non-empty "
                                         f"encoding would be written as the None sentinel and read back as None")
    ctx.floor("C08.R7", "flagged None short-cuts in writers that forward the value", n, 2)


def _ctx_only(text) -> bool:
    return not any(m in str(text) for m in ("<value>", "<stream", "?", "<elem>", "<idx>", "<loopvar>", "<exc>",
                                            "<closure>", "<lambda>", "<pos>", "{"))


def _norm_kind(base: str, kind):
    """Known-equivalent ways of asking the same thing of the same expression."""
    if kind == ("eq", "0"):
        return "truthy"
    if kind == ("gt", "0") and base.startswith("(") and " & " in base:
        return "truthy"                      # mask test: (x & m) > 0  ==  (x & m) != 0  for a non-negative mask
    if kind == "none-test" and SPEC_PATH.fullmatch(base):
        return "truthy"                      # spec attributes are None or an object
    return kind


def r9(ctx):
    repo = ctx.repo
    ctx.rule("C08.R9", "sibling gates agree: when serialize and deserialize both branch on the same expression of the "
                       "spec object / parse context, they ask the same question of it (a condition strengthened on one "
                       "side only desynchronises what is written from what is read)")
    n = 0
    for label, ci, s, d, sp, dp in discover_pairs(ctx):
        if label in R1_EXCEPTIONS:
            continue
        sides = []
        for fi, prm, vp in ((s, sp, (_params(s) or [None])[0] if sp is not None else None), (d, dp, None)):
            t = Tracer(repo, ci, None)
            t.run(fi, prm, value_param=vp)
            by_base: Dict[str, Set] = {}
            for base, kind in t.gates:
                if _ctx_only(base) and _ctx_only(kind) and base not in ("True", "False", "None"):
                    by_base.setdefault(base, set()).add(_norm_kind(base, kind))
            sides.append(by_base)
        w, r = sides
        for base in sorted(set(w) & set(r)):
            n += 1
            ctx.ob("C08.R9", f"{label}: both directions ask the same question of {base}", w[base] == r[base], s.where,
                   f"writer tests {sorted(map(str, w[base]))}, reader tests {sorted(map(str, r[base]))}: for contexts "
                   f"where the answers differ the reader expects a field that was not written (or skips one that was)")
    ctx.floor("C08.R9", "expressions gated on both sides", n, 4)


# ----------------------------------------------------------------------------- R10 / R11 / R12: declarations

def _spec_classes(repo):
    base = repo.cls("SerializableBase", SER)
    for name in sorted(repo.classes):
        for ci in repo.classes[name]:
            if ci.module.rel in PAIR_MODULES and any(m == base for m in repo.mro(ci)):
                yield ci


def _own_class_attr(ci: ClassInfo, name: str):
    for st in ci.node.body:
        if isinstance(st, ast.Assign) and any(isinstance(t, ast.Name) and t.id == name for t in st.targets):
            return st.value
        if isinstance(st, ast.AnnAssign) and isinstance(st.target, ast.Name) and st.target.id == name:
            return st.value
    return None


# classes for which a missing key is part of a Template's value domain (presence is carried on the wire /
# by a sibling field, so Template(skip_missing) omits the member and must be able to write it back)
R10_MUST_BE_OPTIONAL = {
    "OptionalPrefixed": "presence is carried by its own U8 prefix",
    "OptionalFlagged": "presence is carried by a sibling flag field",
}


def r10(ctx):
    repo = ctx.repo
    ctx.rule("C08.R10", "the OPTIONAL marker agrees with its consumer Template: presence-coded members are marked "
                        "(an omitted key is written as 'absent' and dropped again on read), and every marked class "
                        "accepts the None that Template.serialize hands it for an omitted key")
    tser = repo.fn("Template.serialize", SER)
    tdes = repo.fn("Template.deserialize", SER)
    for f, what in ((tser, "fetches OPTIONAL members with .get()"), (tdes, "drops None OPTIONAL members under skip_missing")):
        uses = [n for n in walk(f.node) if isinstance(n, ast.Attribute) and n.attr == "OPTIONAL"]
        ctx.ob("C08.R10", f"{f.qual} consults <field spec>.OPTIONAL", bool(uses), f.where, f"Template no longer {what}")
    n = 0
    for ci in _spec_classes(repo):
        v = None
        for c in repo.mro(ci):
            v = _own_class_attr(c, "OPTIONAL")
            if v is not None:
                break
        marked = isinstance(v, ast.Constant) and bool(v.value)
        if ci.name in R10_MUST_BE_OPTIONAL:
            n += 1
            ctx.ob("C08.R10", f"{_label(ci)} is marked OPTIONAL", marked, ctx.w(ci.module, ci.node),
                   f"{R10_MUST_BE_OPTIONAL[ci.name]}: Template(skip_missing) returns values without this key, which "
                   f"Template.serialize can then no longer write (KeyError) - and absent members come back as None")
        if marked and "serialize" in {m for c in repo.mro(ci) for m in c.methods}:
            s_ = repo.lookup_method(ci, "serialize")
            if s_ is None or is_abstract(s_):
                continue
            vp = (_params(s_) or [None])[0]
            none_aware = any(is_none_test(c) and is_none_test(c)[0] == vp for t_ in walk(s_.node)
                             if isinstance(t_, (ast.If, ast.IfExp, ast.Assert)) for c in ast.walk(t_.test)
                             if isinstance(c, ast.Compare)) or \
                any(isinstance(c, ast.Compare) and is_none_test(c) and is_none_test(c)[0] == vp for c in ast.walk(s_.node))
            # ... or the value is only touched under a gate that does not involve it (flag-gated members)
            t = Tracer(repo, ci, "main")
            ungated: List[bool] = []
            t.event_hooks.append(lambda tok, node, st, fr, sid, ungated=ungated:
                                 ungated.append(not st.pc) if sid == "main" and tok[0] in ("E", "B") else None)
            t.run(s_, _stream_param(s_, "writer", 1), value_param=vp)
            gated = bool(ungated) and not any(ungated)
            ctx.ob("C08.R10", f"{_label(ci)}.serialize (OPTIONAL) copes with the None of an omitted key",
                   none_aware or gated, s_.where, "Template.serialize passes None for an omitted OPTIONAL member")
    ctx.floor("C08.R10", "presence-coded classes", n, len(R10_MUST_BE_OPTIONAL))


def r11(ctx):
    repo = ctx.repo
    ctx.rule("C08.R11", "constructor gates on spec-typed arguments are no narrower than what the class needs of the "
                        "spec: an isinstance test that decides whether an argument becomes a wire spec accepts every "
                        "serializable (a narrower class silently diverts valid specs into another wire mode)")
    base = repo.cls("SerializableBase", SER)
    base_members = {m for c in repo.mro(base) for m in c.methods} | {"OPTIONAL"}
    n = 0
    for ci in _spec_classes(repo):
        init = ci.methods.get("__init__")
        if init is None:
            continue
        prm = set(_params(init))
        # attributes of self used in spec position anywhere in the class
        spec_attrs: Set[str] = set()
        hard: Dict[str, Set[str]] = {}
        for m in ci.methods.values():
            for c in [x for x in walk(m.node, into_defs=True) if isinstance(x, ast.Call)]:
                f_ = c.func
                if isinstance(f_, ast.Attribute) and f_.attr in ("write", "read") and c.args:
                    p_ = ap(c.args[0]) or ""
                    if p_.startswith("self.") and p_.count(".") == 1:
                        spec_attrs.add(p_.split(".")[1])
                if isinstance(f_, ast.Attribute) and f_.attr in ("serialize", "deserialize"):
                    p_ = ap(f_.value) or ""
                    if p_.startswith("self.") and p_.count(".") == 1:
                        spec_attrs.add(p_.split(".")[1])
            for a in [x for x in walk(m.node, into_defs=True) if isinstance(x, ast.Attribute)]:
                p_ = ap(a.value) or ""
                if p_.startswith("self.") and p_.count(".") == 1 and a.attr not in base_members:
                    hard.setdefault(p_.split(".")[1], set()).add(a.attr)
        for node in walk(init.node):
            if not isinstance(node, ast.If):
                continue
            for e in [x for x in ast.walk(node.test) if isinstance(x, ast.Call)]:
                if not (isinstance(e.func, ast.Name) and e.func.id == "isinstance" and len(e.args) == 2
                        and isinstance(e.args[0], ast.Name) and e.args[0].id in prm):
                    continue
                stored = [st.path.split(".")[1] for st in stores(ast.Module(body=node.body, type_ignores=[]), into_defs=False)
                          if st.kind == "assign" and st.path.startswith("self.") and st.path.count(".") == 1
                          and isinstance(st.value, ast.Name) and st.value.id == e.args[0].id]
                for attr in stored:
                    if attr not in spec_attrs:
                        continue
                    classes = e.args[1].elts if isinstance(e.args[1], ast.Tuple) else [e.args[1]]
                    resolved = [repo.resolve_class(ap(c) or "", ci.module) for c in classes]
                    n += 1
                    wide = any(r is not None and r == base for r in resolved)
                    needs = hard.get(attr, set())
                    justified = bool(needs) and all(
                        r is not None and needs <= {m for c in repo.mro(r) for m in c.methods} | _self_attrs(repo, r)
                        for r in resolved)
                    ctx.ob("C08.R11", f"{_label(ci)}.__init__: isinstance gate for spec attribute {attr} accepts every "
                                      f"serializable", wide or justified, ctx.w(init, e),
                           f"gate {norm(e)} but {ci.name} only uses self.{attr} as a spec"
                           f"{' and ' + str(sorted(needs)) if needs else ''}: other serializables fall through to "
                           f"another mode (e.g. a prefixed collection silently becomes greedy)")
    ctx.floor("C08.R11", "isinstance gates on spec arguments", n, 1)


def _self_attrs(repo, ci: ClassInfo) -> Set[str]:
    out = set()
    for c in repo.mro(ci):
        for m in c.methods.values():
            for st in stores(m.node, into_defs=False):
                if st.path.startswith("self.") and st.path.count(".") == 1:
                    out.add(st.path.split(".")[1])
                    out.add(st.path.split(".")[1].lstrip("_"))      # exposed through a property of the same name
    return out


# what combinators ask of a child spec besides serialize/deserialize (Template/Tuple/Adapter/TupleCoord/FixedPoint
# call calc_size, dataclass_field / TypedBytesBase call default_value, readers call need_pod)
R12_CHILD_API = ("calc_size", "default_value", "need_pod")


def _class_callable(fi: FuncInfo) -> bool:
    return any(isinstance(d, ast.Name) and d.id in ("classmethod", "staticmethod") for d in fi.node.decorator_list)


def r12(ctx):
    repo = ctx.repo
    ctx.rule("C08.R12", "bare-class specs answer the whole child API: a spec class whose serialize and deserialize "
                        "are class-level (it is used as `se.X`, not `se.X()`) has class-level calc_size / "
                        "default_value / need_pod too (a size query on a composite containing it must not fail)")
    n = 0
    for ci in _spec_classes(repo):
        s_, d_ = repo.lookup_method(ci, "serialize"), repo.lookup_method(ci, "deserialize")
        if s_ is None or d_ is None or is_abstract(s_) or is_abstract(d_):
            continue
        if not (_class_callable(s_) and _class_callable(d_)):
            continue
        n += 1
        for api in R12_CHILD_API:
            m = repo.lookup_method(ci, api)
            ctx.ob("C08.R12", f"{_label(ci)}.{api} is callable on the class object", m is not None and _class_callable(m),
                   m.where if m is not None else ctx.w(ci.module, ci.node),
                   f"{ci.name} is used as a bare class; {api}() resolved to "
                   f"{m.qual if m is not None else 'nothing'} needs an instance: TypeError from every composite that asks")
    ctx.floor("C08.R12", "bare-class specs", n, 5)


# ----------------------------------------------------------------------------- R13 / R14: re-entrancy, faults

def r13(ctx):
    repo = ctx.repo
    ctx.rule("C08.R13", "stream windows are per call: the writer/reader a (de)serialize path fills or drains is its "
                        "parameter or built on that path, never an object kept on the spec instance (a spec reached "
                        "again through its own child - recursive specs - would clear and overwrite the outer call's window)")
    n = 0
    for label, ci, s, d, sp, dp in discover_pairs(ctx):
        for fi, prm in ((s, sp), (d, dp)):
            t = Tracer(repo, ci, None)
            t.run(fi, prm)
            n += 1
            ctx.ob("C08.R13", f"{label}.{fi.name}: no stream window kept on the spec instance is used", not t.shared_used,
                   fi.where, f"self.{', self.'.join(sorted(t.shared_used))} is one object for all calls on this spec: "
                             f"a nested call on the same spec object resets it while the outer call is still using it")
    ctx.floor("C08.R13", "(de)serialize paths inspected", n, 56)


def _is_ctxmanager(fi: FuncInfo) -> bool:
    return any((ap(d) or "").split(".")[-1] == "contextmanager" for d in fi.node.decorator_list)


def _in_cleanup_of_try_around(stmt, anchor) -> bool:
    """stmt lies in the finally (or a re-raising handler) of a try whose body contains anchor."""
    cur = stmt
    while cur is not None:
        p = parent(cur)
        if isinstance(p, ast.Try) and any(cur is x for x in p.finalbody):
            if any(anchor is y for b in p.body for y in ast.walk(b)):
                return True
        cur = p
    return False


def r14(ctx):
    repo = ctx.repo
    ctx.rule("C08.R14", "scoped stream state is restored on every exit: whatever a scoped_* context manager (or a "
                        "deserialize path that switches its reader's mode) undoes after the block, it undoes in a "
                        "`finally` - a failed inner read must not leave the reader in the other pod mode / position")
    n = 0
    for f in repo.all_funcs:
        if f.module.rel not in PAIR_MODULES or f.parent_fn is not None or not _is_ctxmanager(f):
            continue
        yields = [x for x in walk(f.node) if isinstance(x, (ast.Yield, ast.YieldFrom))]
        for y in yields:
            ystmt = y
            while not isinstance(ystmt, ast.stmt):
                ystmt = parent(ystmt)
            # statements that run after the yield on the normal path
            after: List[ast.stmt] = []
            cur = ystmt
            while cur is not None and cur is not f.node:
                p = parent(cur)
                for fld in ("body", "orelse", "finalbody"):
                    blk = getattr(p, fld, None)
                    if isinstance(blk, list) and any(cur is x for x in blk):
                        i = next(i for i, x in enumerate(blk) if x is cur)
                        after.extend(blk[i + 1:])
                        if fld == "body" and isinstance(p, ast.Try):
                            pass            # its finalbody is cleanup by construction
                cur = p
            late = [a for a in after if not isinstance(a, (ast.Pass, ast.Return)) and not _in_cleanup_of_try_around(a, y)]
            n += 1
            ctx.ob("C08.R14", f"{f.qual}: everything undone after the yield is undone in a finally", not late, ctx.w(f, ystmt),
                   f"{'; '.join(norm(a) for a in late)} is skipped when the block raises: the stream keeps the "
                   f"temporary state (pod mode / position / member stack)")
    ctx.floor("C08.R14", "scoped context managers", n, 3)
    # mode switches of the caller's reader written out by hand
    for label, ci, s, d, sp, dp in discover_pairs(ctx):
        if dp is None:
            continue
        from .common import class_methods_reachable
        for fi in class_methods_reachable(repo, d, depth=2):
            for st in stores(fi.node, into_defs=True):
                if st.kind != "assign" or "." not in st.path:
                    continue
                recv, attr = st.path.rsplit(".", 1)
                if recv != dp or fi is not d and recv not in _params(fi):
                    continue
                t_ = None
                cur = st.node
                while cur is not None:
                    p = parent(cur)
                    if isinstance(p, ast.Try) and p.finalbody:
                        t_ = p
                        break
                    cur = p
                in_final = t_ is not None and any(st.node is x for b in t_.finalbody for x in ast.walk(b))
                restored = t_ is not None and any(s2.path == st.path for b in t_.finalbody
                                                  for s2 in stores(ast.Module(body=[b], type_ignores=[]), into_defs=False))
                ctx.ob("C08.R14", f"{label}.{fi.name}: reader.{attr} changed on the caller's reader is put back in a finally",
                       in_final or restored, ctx.w(fi, st.node), "the caller's reader stays switched when the read in between raises")


# ----------------------------------------------------------------------------- R15 / R16: lossy reads, data as syntax

STRIPS = {"rstrip": ("right",), "lstrip": ("left",), "strip": ("left", "right")}
LOSSY_SAME = {"replace", "lower", "upper", "casefold", "title", "capitalize", "swapcase", "expandtabs", "translate"}


_CONST_RESOLVER = {"fn": None}     # (name node) -> constant node of a module-level NAME = literal, set per run


def _lit(node):
    """The literal a node stands for: a constant, or a module-level name bound to one (`_NUL = b"\\x00"`)."""
    if isinstance(node, ast.Name) and _CONST_RESOLVER["fn"] is not None:
        node = _CONST_RESOLVER["fn"](node) or node
    return node


def _const_of_pad(node):
    """K for  K  /  K * n  /  n * K  (a literal byte/str pad)."""
    node = _lit(node)
    if isinstance(node, ast.Constant) and isinstance(node.value, (bytes, str)):
        return node.value
    if isinstance(node, ast.BinOp) and isinstance(node.op, ast.Mult):
        return _const_of_pad(node.left) if _const_of_pad(node.left) is not None else _const_of_pad(node.right)
    return None


def _pad_is_repeated(node) -> bool:
    return isinstance(node, ast.BinOp) and isinstance(node.op, ast.Mult)


def _writer_pads(repo, fns: List[FuncInfo], ci, repeated: Optional[Set] = None) -> Set[Tuple[str, object]]:
    """(side, constant) for every padding / terminating concatenation on the writing side; `repeated`
    collects those that add the constant an arbitrary number of times (K * n, ljust, struct 's')."""
    out: Set[Tuple[str, object]] = set()
    repeated = repeated if repeated is not None else set()
    for f in fns:
        for n in walk(f.node, into_defs=True):
            if isinstance(n, ast.AugAssign) and isinstance(n.op, ast.Add):
                k = _const_of_pad(n.value)
                if k is not None:
                    out.add(("right", k))
                    if _pad_is_repeated(n.value):
                        repeated.add(("right", k))
            elif isinstance(n, ast.BinOp) and isinstance(n.op, ast.Add):
                kr, kl = _const_of_pad(n.right), _const_of_pad(n.left)
                if kr is not None and kl is None:
                    out.add(("right", kr))
                    if _pad_is_repeated(n.right):
                        repeated.add(("right", kr))
                if kl is not None and kr is None:
                    out.add(("left", kl))
                    if _pad_is_repeated(n.left):
                        repeated.add(("left", kl))
            elif isinstance(n, ast.Call) and isinstance(n.func, ast.Attribute):
                if n.func.attr in ("ljust", "rjust") and len(n.args) >= 2 and _const_of_pad(n.args[1]) is not None:
                    out.add(("right" if n.func.attr == "ljust" else "left", _const_of_pad(n.args[1])))
                    repeated.add(("right" if n.func.attr == "ljust" else "left", _const_of_pad(n.args[1])))
                if n.func.attr == "pack" and (_struct_attr_truncates(repo, ci, "@." + (ap(n.func.value) or "").split(".")[-1])
                                              or (ap(n.func.value) == "struct" and n.args and _fmt_truncates(n.args[0]))):
                    out.add(("right", b"\x00"))
                    repeated.add(("right", b"\x00"))
                if n.func.attr in LOSSY_SAME:
                    out.add(("same", n.func.attr))
    return out


def _writer_scope(repo, s: FuncInfo) -> List[FuncInfo]:
    from .common import class_methods_reachable, module_funcs_reachable
    seen, out = set(), []
    for f in class_methods_reachable(repo, s, depth=3) + module_funcs_reachable(repo, s, depth=2):
        if f.full not in seen:
            seen.add(f.full)
            out.append(f)
    return out


def r15(ctx):
    repo = ctx.repo

    def resolve(name_node):
        for mod in (repo.modules.get(rel) for rel in PAIR_MODULES):
            if mod is None:
                continue
            v = repo.module_assign(mod, name_node.id)
            if isinstance(v, ast.Constant):
                return v
        return None
    _CONST_RESOLVER["fn"] = resolve
    ctx.rule("C08.R15", "no one-sided normalisation on the read side: a strip / replace / case-fold applied to what was "
                        "read from the stream undoes something the write side adds (padding or a terminator of the "
                        "same bytes on the same end, or the same fold) - otherwise values ending in those bytes do not "
                        "survive the round trip")
    n_sites = 0
    for label, ci, s, d, sp, dp in discover_pairs(ctx):
        if dp is None:
            continue
        t = Tracer(repo, ci, "main")
        found: Dict[str, Tuple[str, object, str]] = {}

        def pre(stmt, st, fr, t=t, found=found):
            for n, sc in _scoped_nodes(t, stmt.iter if isinstance(stmt, ast.For) else stmt, st, fr):
                if not (isinstance(n, ast.Call) and isinstance(n.func, ast.Attribute)):
                    continue
                m = n.func.attr
                if m not in STRIPS and m not in LOSSY_SAME and m != "decode":
                    continue
                recv = t.sym(n.func.value, sc, fr)
                if "<stream:" not in recv:
                    continue
                if m in STRIPS:
                    a0 = _lit(n.args[0]) if n.args else None
                    k = a0.value if isinstance(a0, ast.Constant) else None if not n.args else "?"
                    found[f"{m}({k!r})"] = (m, k, f"{fr.mod.rel}:{n.lineno}")
                elif m in LOSSY_SAME:
                    found[f"{m}()"] = (m, None, f"{fr.mod.rel}:{n.lineno}")
                else:
                    e = kw(n, "errors") or (n.args[1] if len(n.args) > 1 else None)
                    if isinstance(e, ast.Constant) and e.value in ("replace", "ignore", "backslashreplace"):
                        found[f"decode(errors={e.value!r})"] = ("decode-lossy", e.value, f"{fr.mod.rel}:{n.lineno}")
        t.pre_stmt_hooks.append(pre)
        t.run(d, dp)
        if not found:
            continue
        repeated: Set = set()
        pads = _writer_pads(repo, _writer_scope(repo, s), ci, repeated)
        for key, (m, k, where) in sorted(found.items()):
            n_sites += 1
            if m in STRIPS and k not in (None, "?"):
                # a strip removes every occurrence: fine against padding, too much against a single terminator
                once = [side for side in STRIPS[m] if (side, k) in pads and (side, k) not in repeated]
                ctx.ob("C08.R15", f"{label}.deserialize: {key} removes no more than the write side adds", not once, where,
                       f"the write side appends {k!r} exactly once (and only under its own condition) but {m}() takes off "
                       f"every trailing occurrence: a value that itself ends in {k!r} reads back shortened")
            if m in STRIPS:
                ok = k not in (None, "?") and all((side, k) in pads or
                                                 any(sd == side and isinstance(pk, type(k)) and pk and set(pk) <= set(k)
                                                     for sd, pk in pads) for side in STRIPS[m])
                why = f"the write side pads/terminates with {sorted(map(str, pads))}"
            elif m in LOSSY_SAME:
                ok = ("same", m) in pads
                why = "the write side does not apply the same fold"
            else:
                ok = False
                why = "undecodable bytes are replaced/dropped"
            ctx.ob("C08.R15", f"{label}.deserialize: {key} on stream data has a write-side counterpart", ok, where,
                   f"{why}: a value whose encoding ends/starts with the stripped bytes reads back shortened")
    ctx.stats["C08.R15.normalising calls on read paths"] = n_sites
    ctx.floor("C08.R15", "normalising calls on read paths", n_sites, 1)


RE_FUNCS = {"compile", "search", "match", "fullmatch", "split", "sub", "subn", "findall", "finditer"}


def _pattern_is_literal_or_escaped(node, fn_node, depth=0) -> bool:
    if depth > 6:
        return False
    if isinstance(node, ast.Constant):
        return True
    if isinstance(node, ast.Call):
        name = ap(node.func) or ""
        if name.endswith("re.escape") or name == "escape":
            return True
        if isinstance(node.func, ast.Attribute) and node.func.attr == "join" and len(node.args) == 1:
            if not _pattern_is_literal_or_escaped(node.func.value, fn_node, depth + 1):
                return False
            a = node.args[0]
            if isinstance(a, (ast.GeneratorExp, ast.ListComp)):
                return _pattern_is_literal_or_escaped(a.elt, fn_node, depth + 1)
            if isinstance(a, ast.Call) and ap(a.func) == "map" and a.args and (ap(a.args[0]) or "").endswith("escape"):
                return True
            if isinstance(a, (ast.Tuple, ast.List)):
                return all(_pattern_is_literal_or_escaped(e, fn_node, depth + 1) for e in a.elts)
            return False
        return False
    if isinstance(node, ast.JoinedStr):
        return all(isinstance(v, ast.Constant) or (isinstance(v, ast.FormattedValue)
                   and _pattern_is_literal_or_escaped(v.value, fn_node, depth + 1)) for v in node.values)
    if isinstance(node, ast.BinOp) and isinstance(node.op, (ast.Add, ast.Mod)):
        return _pattern_is_literal_or_escaped(node.left, fn_node, depth + 1) and \
            _pattern_is_literal_or_escaped(node.right, fn_node, depth + 1)
    if isinstance(node, ast.Tuple):
        return all(_pattern_is_literal_or_escaped(e, fn_node, depth + 1) for e in node.elts)
    if isinstance(node, ast.Name):
        vals = [st.value for st in stores(fn_node, into_defs=False) if st.path == node.id and st.kind == "assign"
                and st.value is not None]
        return bool(vals) and all(_pattern_is_literal_or_escaped(v, fn_node, depth + 1) for v in vals)
    return False


def r16(ctx):
    repo = ctx.repo
    ctx.rule("C08.R16", "framing data is never read as syntax: a regular expression used by a combinator is a literal, "
                        "or every piece of it that comes from the spec's data (terminators, separators) goes through "
                        "re.escape - the write side emits those bytes literally")
    per_mod: Dict[str, List[str]] = {m: [] for m in PAIR_MODULES}
    n = 0
    for ci in _spec_classes(repo):
        for m in ci.methods.values():
            for c in [x for x in walk(m.node, into_defs=True) if isinstance(x, ast.Call)]:
                f_ = c.func
                if isinstance(f_, ast.Attribute) and f_.attr in RE_FUNCS and ap(f_.value) == "re" and c.args:
                    n += 1
                    if not _pattern_is_literal_or_escaped(c.args[0], m.node):
                        per_mod[ci.module.rel].append(f"{m.qual}: {norm(c)}")
    ctx.stats["C08.R16.regex uses in combinator classes"] = n
    for rel, bad in sorted(per_mod.items()):
        ctx.ob("C08.R16", f"{rel.rsplit('/', 1)[-1]}: combinators build regular expressions only from literals / escaped data",
               not bad, rel, "; ".join(bad) + ": a terminator such as b'.' or b'|' would match where the writer wrote "
                                              "something else (or not where it wrote the terminator)")


# ----------------------------------------------------------------------------- R17: presence markers

_READ_OF = re.compile(r"<stream:main>\.read\((.+)\)")


def r17(ctx):
    repo = ctx.repo
    ctx.rule("C08.R17", "a marker says what the writer does: where the reader decides by the truth of a field it just "
                        "read whether the next field follows, the value the writer puts into that marker field is the "
                        "very test under which it writes the next field (not a different question about the same value)")
    n = 0
    for label, ci, s, d, sp, dp in discover_pairs(ctx):
        if sp is None or dp is None or label in R1_EXCEPTIONS:
            continue
        # reader: marker spec -> specs whose read it gates by truthiness
        tr = Tracer(repo, ci, "main")
        gated: Dict[str, Set[str]] = {}

        def rhook(tok, node, st, fr, sid, gated=gated):
            if sid != "main" or tok[0] != "E":
                return
            for v in st.pc.values():
                m = _READ_OF.fullmatch(v[2])
                if m and m.group(1) != tok[1]:
                    gated.setdefault(m.group(1), set()).add(tok[1])
        tr.event_hooks.append(rhook)
        tr.run(d, dp)
        if not gated:
            continue
        vp = (_params(s) or [None])[0]
        tw = Tracer(repo, ci, "main")
        verdicts: Dict[Tuple[str, str], List[Tuple[bool, str]]] = {}
        marks_key = "\x00marks"

        def whook(tok, node, st, fr, sid, tw=tw, gated=gated, verdicts=verdicts):
            if sid != "main" or tok[0] != "E" or not isinstance(node, ast.Call):
                return
            attr = node.func.attr if isinstance(node.func, ast.Attribute) else None
            arg = node.args[1] if attr == "write" and len(node.args) > 1 else node.args[0] if attr == "serialize" and node.args else None
            if tok[1] in gated and arg is not None:
                st.env[marks_key + tok[1]] = "\x00".join(map(str, tw.gate_of(arg, st, fr)))
            for marker, payloads in gated.items():
                wrote = st.env.get(marks_key + marker)
                if tok[1] in payloads and isinstance(wrote, str):
                    base, kind = wrote.split("\x00", 1)
                    if "<value>" not in base:
                        continue
                    tests = set()
                    for g_ in tw.gates_at(st):
                        if g_[0] == base:
                            tests.add(str(g_[1]))
                    if tests:
                        verdicts.setdefault((marker, tok[1]), []).append((kind in tests, f"marker carries {kind} of {base}, "
                                                                      f"payload written under {sorted(tests)}"))
        tw.event_hooks.append(whook)
        tw.run(s, sp, value_param=vp)
        for marker, payloads in sorted(gated.items()):
            for payload in sorted(payloads):
                vs = verdicts.get((marker, payload), [])        # empty: the writer's test is not about the same expression
                n += 1
                ctx.ob("C08.R17", f"{label}: the value written to marker {marker} is the test under which {payload} is written",
                       all(v for v, _ in vs), s.where, "; ".join(sorted({m for v, m in vs if not v})) +
                       ": values on which the two answers differ are framed one way and parsed the other")
    ctx.floor("C08.R17", "marker-gated fields", n, 1)


# ----------------------------------------------------------------------------- R18 / R19 / R20 (audit round)

def r18(ctx):
    repo = ctx.repo
    ctx.rule("C08.R18", "a write path converts only its own level: encode / serialize never deep-converts the value "
                        "(dataclasses.asdict / astuple) - nested values belong to the child specs, and a "
                        "deep conversion rebuilds lazily decoded (proxied) containers into unusable objects")
    n = 0
    for ci in _spec_classes(repo):
        for name in ("encode", "serialize"):
            m = ci.methods.get(name)
            if m is None or is_abstract(m):
                continue
            n += 1
            deep = [c for c in walk(m.node, into_defs=True) if isinstance(c, ast.Call)
                    and (ap(c.func) or "").split(".")[-1] in ("asdict", "astuple")]
            ctx.ob("C08.R18", f"{_label(ci)}.{name}: no deep conversion / copy of the value being written", not deep,
                   ctx.w(m, deep[0]) if deep else m.where,
                   "; ".join(norm(c) for c in deep) + ": list / dict fields that are lazy proxies come out as "
                   "Proxy(<generator>) and the value the reader returned can no longer be written")
    ctx.floor("C08.R18", "encode / serialize methods", n, 45)


def r19(ctx):
    repo = ctx.repo
    ctx.rule("C08.R19", "configuration reaches the codec: every constructor argument of a combinator is used for more "
                        "than a `is None` test (an explicit value that is accepted and then ignored changes what the "
                        "spec's domain is documented to be)")
    n = 0
    for ci in _spec_classes(repo):
        init = ci.methods.get("__init__")
        if init is None:
            continue
        a = init.node.args
        for prm in (list(a.posonlyargs) + list(a.args))[1:] + list(a.kwonlyargs):
            loads = [x for x in walk(init.node, into_defs=True) if isinstance(x, ast.Name) and x.id == prm.arg
                     and isinstance(x.ctx, ast.Load)]
            real = [x for x in loads if not (isinstance(parent(x), ast.Compare) and is_none_test(parent(x)) is not None)]
            n += 1
            ctx.ob("C08.R19", f"{_label(ci)}.__init__: argument {prm.arg} reaches the object", bool(real) or not loads and
                   prm.arg.startswith("_"), ctx.w(init, prm),
                   f"{prm.arg} is only ever compared with None" if loads else f"{prm.arg} is never read")
    ctx.floor("C08.R19", "constructor arguments", n, 45)


def _has_integrality_test(e) -> bool:
    for x in ast.walk(e):
        if isinstance(x, ast.Call) and ((isinstance(x.func, ast.Name) and x.func.id in ("round", "floor", "ceil", "int"))
                                        or (isinstance(x.func, ast.Attribute) and x.func.attr in ("is_integer", "floor", "ceil", "modf"))):
            return True
        if isinstance(x, ast.BinOp) and isinstance(x.op, ast.Mod):
            return True
    return False


def r20(ctx):
    repo = ctx.repo
    ctx.rule("C08.R20", "a half-step nudge in front of round() is conditional on the position not being integral: "
                        "Python rounds ties to even, so 0.0 sitting exactly on a code would be written as a neighbour")
    base = repo.cls("QuantizedFloatBase", SER)
    n = 0
    for ci in [base] + [c for c in repo.subclasses(base, strict=True)]:
        for m in ci.methods.values():
            rounds = [c for c in walk(m.node) if isinstance(c, ast.Call) and isinstance(c.func, ast.Name) and c.func.id == "round"]
            if not rounds:
                continue
            for st in stores(m.node, into_defs=False):
                if st.kind != "assign" or st.value is None:
                    continue
                half = [x for x in ast.walk(st.value) if isinstance(x, ast.Constant) and x.value == 0.5]
                if not half or not any(isinstance(x, ast.BinOp) and isinstance(x.op, ast.Mult) for x in ast.walk(st.value)):
                    continue
                n += 1
                def integral(e, m=m):
                    if _has_integrality_test(e):
                        return True
                    names = {x.id for x in ast.walk(e) if isinstance(x, ast.Name)} - set(_params(m)) - {"self", "cls"}
                    for nm in names:          # a local that is computed once and holds the answer
                        vals = [s2.value for s2 in stores(m.node, into_defs=False) if s2.path == nm]
                        if len(vals) == 1 and vals[0] is not None and _has_integrality_test(vals[0]):
                            return True
                    return False
                ok = any(integral(e) for e, pol in facts(st.node, m.node))
                ctx.ob("C08.R20", f"{ci.name}.{m.name}: half-step nudge {st.path} only when the position is not on a code",
                       ok, ctx.w(m, st.node), "the nudge turns an exact code k into k + 0.5 and round() picks the even "
                                              "neighbour: decode(k) == 0.0 but encode(0.0) == k + 1")
    ctx.floor("C08.R20", "half-step nudges feeding round()", n, 1)


# ----------------------------------------------------------------------------- R21 / R22 / R23 (second audit round)

def _truth_tested(test, path: str) -> bool:
    """`path` is used for its truth value in this test (not inside a comparison / call)."""
    if isinstance(test, ast.BoolOp):
        return any(_truth_tested(v, path) for v in test.values)
    if isinstance(test, ast.UnaryOp) and isinstance(test.op, ast.Not):
        return _truth_tested(test.operand, path)
    return ap(test) == path


def r21(ctx):
    repo = ctx.repo
    ctx.rule("C08.R21", "an optional count is tested with `is None`, not for truth: an attribute that the constructor "
                        "fills from an int argument (and leaves None otherwise) legitimately holds 0, so choosing the "
                        "wire mode by its truth value turns a fixed count of zero into another mode")
    n = 0
    for ci in _spec_classes(repo):
        init = ci.methods.get("__init__")
        if init is None:
            continue
        int_attrs: Set[str] = set()
        for node in walk(init.node):
            if not isinstance(node, ast.If):
                continue
            for e in [x for x in ast.walk(node.test) if isinstance(x, ast.Call)]:
                if isinstance(e.func, ast.Name) and e.func.id == "isinstance" and len(e.args) == 2 and \
                        "int" in {(ap(c) or "") for c in (e.args[1].elts if isinstance(e.args[1], ast.Tuple) else [e.args[1]])} \
                        and isinstance(e.args[0], ast.Name):
                    for st in stores(ast.Module(body=node.body, type_ignores=[]), into_defs=False):
                        if st.kind == "assign" and st.path.startswith("self.") and st.path.count(".") == 1 \
                                and isinstance(st.value, ast.Name) and st.value.id == e.args[0].id:
                            int_attrs.add(st.path)
        # ... and are None otherwise
        int_attrs = {a for a in int_attrs if any(st.path == a and isinstance(st.value, ast.Constant) and st.value.value is None
                                                 for st in stores(init.node, into_defs=False))}
        for attr in sorted(int_attrs):
            for m in ci.methods.values():
                if m.name == "__init__":
                    continue
                tests = [x.test for x in walk(m.node, into_defs=True) if isinstance(x, (ast.If, ast.IfExp, ast.While, ast.Assert))]
                tests += [c for x in walk(m.node, into_defs=True) if isinstance(x, ast.comprehension) for c in x.ifs]
                hits = [t_ for t_ in tests if _truth_tested(t_, attr)]
                if not tests:
                    continue
                n += 1
                ctx.ob("C08.R21", f"{_label(ci)}.{m.name}: {attr} (None or an int count) is never tested for truth", not hits,
                       ctx.w(m, hits[0]) if hits else m.where,
                       "; ".join(sorted({norm(h) for h in hits})) + f": a count of 0 is taken for 'not given' "
                       f"({ci.name}(0, ..) is written and read as another mode)")
    ctx.floor("C08.R21", "methods testing an optional int count", n, 2)


def r22(ctx):
    repo = ctx.repo
    ctx.rule("C08.R22", "the parent link of a parse context is optional and only dereferenced under a None test: the "
                        "outermost context has no parent, and walking up (ctx._root) must work from there too")
    pc = repo.cls("ParseContext", SER)
    init = repo.lookup_method(pc, "__init__")
    ctx.require(init is not None, "C08.R22: ParseContext.__init__ vanished")
    # the link attribute: assigned `<something> if parent is not None else None`
    links = {st.path for st in stores(init.node, into_defs=False) if st.path.startswith("self.") and st.value is not None
             and any(isinstance(x, ast.Constant) and x.value is None for x in ast.walk(st.value))
             and isinstance(st.value, ast.IfExp)}
    # (the normal form turns a statement-level conditional expression into if/else)
    for st in stores(init.node, into_defs=False):
        if st.path.startswith("self.") and isinstance(st.value, ast.Constant) and st.value.value is None:
            links.add(st.path)
    ctx.require(len(links) == 1, f"C08.R22: ParseContext parent link not identified ({sorted(links)})")
    link = next(iter(links)).split(".", 1)[1]
    n = 0
    for m in pc.methods.values():
        if m.name == "__init__":
            continue
        derefs = [x for x in walk(m.node) if isinstance(x, ast.Attribute) and x.attr == link and isinstance(x.ctx, ast.Load)]
        if not derefs:
            continue
        n += 1
        assigns = [st for st in stores(m.node, into_defs=False) if st.kind == "assign" and st.value is not None
                   and "." not in st.path and "[" not in st.path]

        def maybe_none_sources(name, seen=()):
            """assignments through which `name` may receive a (possibly None) link value"""
            out = []
            for st in assigns:
                if st.path != name or st in seen:
                    continue
                if isinstance(st.value, ast.Attribute) and st.value.attr == link:
                    out.append(st)
                elif isinstance(st.value, ast.Name) and st.value.id not in ("self", "cls"):
                    out.extend(st2 for st2 in maybe_none_sources(st.value.id, seen + (st,)) and [st] or [])
            return out
        unguarded = []
        for a in derefs:
            base = a.value
            if not isinstance(base, ast.Name) or base.id in ("self", "cls"):
                continue
            for st in maybe_none_sources(base.id):
                names = {base.id, ap(st.value) or ""}
                ok = any(is_none_test(e) and is_none_test(e)[0] in names and is_none_test(e)[1] != pol
                         for e, pol in facts(st.node, m.node)) or \
                    any(is_none_test(e) and is_none_test(e)[0] in names and is_none_test(e)[1] != pol
                        for e, pol in facts(a, m.node))
                if not ok:
                    unguarded.append(norm(st.node))
        ctx.ob("C08.R22", f"ParseContext.{m.name}: the parent link is dereferenced only through values known not to be None",
               not unguarded, m.where, "; ".join(sorted(set(unguarded))) + ": None for the outermost context, the dereference "
               "raises (and __getattr__ then looks the name up on the wrapped value)")
    ctx.floor("C08.R22", "methods walking the parent link", n, 1)


def r23(ctx):
    repo = ctx.repo
    ctx.rule("C08.R23", "adapters of bitfield members see the same thing in both modes: with shift=False helpers.BitField "
                        "hands out / expects values still in their bit position, so serialization.BitField must normalise "
                        "them around the member adapters (or refuse adapters there) - otherwise decode and encode of an "
                        "adapted member are not inverse")
    bf = repo.cls("BitField", SER)
    enc, dec = repo.lookup_method(bf, "encode"), repo.lookup_method(bf, "decode")
    ctx.require(enc is not None and dec is not None, "C08.R23: serialization.BitField.encode/decode vanished")
    aware = []
    for m in (enc, dec):
        aware.append(any(isinstance(x, ast.Attribute) and x.attr in ("shift", "_shift") for x in walk(m.node, into_defs=True)))
    ctx.ob("C08.R23", "serialization.BitField: member adapters get position-independent values when shift=False",
           all(aware), enc.where,
           "decode hands the adapter the value still shifted (8 for bit 3), encode hands the adapter's result unshifted "
           "(True == 1) to pack, which refuses it: BitField(U8, {'Kind': 3, 'Enabled': BitfieldEntry(1, BoolAdapter()), "
           "'Rest': 4}, shift=False) reads 08 as Enabled=True and cannot write Enabled=True")


# ----------------------------------------------------------------------------- R24 (round 9)

_CONTROL_WRAPPERS = {"int", "bool", "len", "getattr", "str", "repr", "isinstance", "hash"}


def _raw_mentions(expr, names: Set[str]) -> Set[str]:
    """names occurring in expr as data (not only inside int()/bool()/getattr(), a subscript index, a comparison or
    a `.name` / `.value` projection)."""
    out: Set[str] = set()

    def rec(n):
        if isinstance(n, ast.Call) and isinstance(n.func, ast.Name) and n.func.id in _CONTROL_WRAPPERS:
            return
        if isinstance(n, ast.Compare):
            return
        if isinstance(n, ast.Attribute) and n.attr in ("name", "value"):
            return
        if isinstance(n, ast.Subscript):
            rec(n.value)
            return
        if isinstance(n, ast.Name) and n.id in names:
            out.add(n.id)
        for ch in ast.iter_child_nodes(n):
            rec(ch)
    rec(expr)
    return out


def r24(ctx):
    repo = ctx.repo
    ctx.rule("C08.R24", "what is read while the reader's pod mode is forced stays a control value: a payload decoded "
                        "inside `with reader.scoped_pod(K)` is not handed back to the caller as data unless the caller's "
                        "own mode is known to be K (otherwise plain-data readers get rich objects, or the reverse)")
    n = 0
    for label, ci, s, d, sp, dp in discover_pairs(ctx):
        if dp is None:
            continue
        from .common import class_methods_reachable
        for fi in class_methods_reachable(repo, d, depth=2):
            prm = dp if fi is d else None
            for w in [x for x in walk(fi.node) if isinstance(x, ast.With)]:
                forced = None
                rname = None
                for item in w.items:
                    c = item.context_expr
                    if isinstance(c, ast.Call) and isinstance(c.func, ast.Attribute) and c.func.attr == "scoped_pod" \
                            and isinstance(c.func.value, ast.Name):
                        k = c.args[0] if c.args else kw(c, "pod")
                        if isinstance(k, ast.Constant) and isinstance(k.value, bool):
                            forced, rname = k.value, c.func.value.id
                if forced is None or (prm is not None and rname != prm):
                    continue
                n += 1
                # names bound inside the block to something read from that reader, not wrapped into a control value
                data: Set[str] = set()
                for st in stores(ast.Module(body=w.body, type_ignores=[]), into_defs=False):
                    if st.kind != "assign" or st.value is None or "." in st.path or "[" in st.path:
                        continue
                    reads = [c for c in ast.walk(st.value) if isinstance(c, ast.Call) and isinstance(c.func, ast.Attribute)
                             and ((c.func.attr in ("read", "read_bytes") and ap(c.func.value) == rname) or
                                  (c.func.attr == "deserialize" and any(ap(a) == rname for a in c.args)))]
                    if reads:
                        v = st.value
                        if not (isinstance(v, ast.Call) and isinstance(v.func, ast.Name) and v.func.id in _CONTROL_WRAPPERS):
                            data.add(st.path)
                # ... and whatever is built from those afterwards (a tuple, a dict) without turning them into control values
                changed = True
                while changed:
                    changed = False
                    for st in stores(fi.node, into_defs=False):
                        if st.kind == "assign" and st.value is not None and "." not in st.path and "[" not in st.path \
                                and st.path not in data and _raw_mentions(st.value, data):
                            if any(ap(e) == f"{rname}.pod" and pol == forced for e, pol in facts(st.node, fi.node)):
                                continue        # copied where the caller's mode is the forced one: already right
                            data.add(st.path)
                            changed = True
                bad = []
                for r in [x for x in walk(fi.node) if isinstance(x, ast.Return) and x.value is not None]:
                    inside = any(r is y for b in w.body for y in ast.walk(b))
                    direct = inside and any(isinstance(c, ast.Call) and isinstance(c.func, ast.Attribute) and
                                            c.func.attr in ("read", "deserialize") for c in ast.walk(r.value))
                    leaked = _raw_mentions(r.value, data)
                    if not leaked and not direct:
                        continue
                    same_mode = any(ap(e) == f"{rname}.pod" and pol == forced for e, pol in facts(r, fi.node))
                    if not same_mode:
                        bad.append(f"{norm(r)} hands back {sorted(leaked) or 'the read'} decoded with pod={forced}")
                ctx.ob("C08.R24", f"{label}.{fi.name}: nothing decoded under the forced pod={forced} block is returned as data "
                                  f"to a caller in the other mode", not bad, ctx.w(fi, w), "; ".join(bad))
    # (no floor: a tree that switches the mode by hand - try/finally instead of scoped_pod - has no such block; R14 covers it)
    ctx.stats["C08.R24.forced-mode blocks on read paths"] = n


def run(ctx):
    r1(ctx)
    r2(ctx)
    r2_truncation(ctx)
    r2_casts(ctx)
    r3(ctx)
    r4(ctx)
    r5(ctx)
    r6(ctx)
    r7(ctx)
    r8(ctx)
    r9(ctx)
    r10(ctx)
    r11(ctx)
    r12(ctx)
    r13(ctx)
    r14(ctx)
    r15(ctx)
    r16(ctx)
    r17(ctx)
    r18(ctx)
    r19(ctx)
    r20(ctx)
    r21(ctx)
    r22(ctx)
    r23(ctx)
    r24(ctx)
    ctx.assume("read(write(v)) == v over generated spec trees and values is not decided statically; branch "
               "conditions of the two directions are not compared (a flipped test is a value-level fault)")
    ctx.assume("comprehension / generator events are placed where the comprehension is written; closures returned "
               "or handed to another callable are assumed to run")
