"""C09 - registered subfield serializers are lossless (DESIGN.md section 4, C09).

R1 registry <-> message template agreement (decorator registrations modelled explicitly)
R2 sign safety of the flag/enum adapters (object path, encode path, plain-data path)
R3 time-zone independent date codecs (shared lint hipposa.tzlint)
R4 switch fields exist / precede; switch-table keys are enum members
R5 Block-level cache coherence (Block.__setitem__ / serialize_var)
R6 pod flag forwarded to delegated decoders / readers
R7 str()-built plain-data forms agree with the field table (order, separators, no trimming)
R8 guarded memo slots (size memo behind template guessing) are published once, complete
R9 template dataclasses do not normalise their serialized fields on construction
R10 array-valued object forms are never truth-tested by encode()
"""
from __future__ import annotations

import ast
from dataclasses import dataclass
from typing import Dict, List, Optional, Set, Tuple

from ..cfg import CFG
from ..consteval import ConstEval, EnumVal, Sym, CallVal, is_enum_class
from ..core import (AnalysisError, ClassInfo, FUNC_TYPES, FuncInfo, Module, Repo, ancestors, ap, atoms, calls,
                    enclosing_stmt, facts, find_calls, kw, norm, parent, src, stores, walk)
from ..tmplmodel import BYTES_TYPES, INT_TYPES, SIGNED_TYPES, parse_template
from .. import tzlint
from .common import class_methods_reachable

SERMOD = "hippolyzer/lib/base/serialization.py"
TEMPLATES = "hippolyzer/lib/base/templates.py"
DTYPES = "hippolyzer/lib/base/datatypes.py"
MSGMOD = "hippolyzer/lib/base/message/message.py"
SER_DOTTED = "hippolyzer.lib.base.serialization"

REG_FUNCS = {"subfield_serializer": "subfield", "enum_field_serializer": "enum", "flag_field_serializer": "flag"}
NUMERIC_TYPES = set(INT_TYPES) | {"F32", "F64"}

# modules whose date handling belongs to this property (llsd / inventory / legacy schema are linted by C12 / C20)
TZ_MODULES = (TEMPLATES, SERMOD, "hippolyzer/lib/base/namevalue.py", DTYPES, MSGMOD)


# ------------------------------------------------------------------------------------------ registry

@dataclass
class Reg:
    msg: str
    block: str
    var: str
    kind: str             # subfield | enum | flag
    cls: ClassInfo
    mod: Module
    node: ast.AST         # decorator call
    via: str              # decorator / helper name

    @property
    def key(self):
        return f"{self.msg}.{self.block}.{self.var}"


def _reg_kind(mod: Module, func) -> Optional[str]:
    """Kind when `func` (callee expression) is one of serialization.py's registration decorators."""
    p = ap(func)
    if not p:
        return None
    parts = p.split(".")
    if parts[-1] not in REG_FUNCS:
        return None
    if mod.rel == SERMOD and len(parts) == 1:
        return REG_FUNCS[parts[-1]]
    tgt = mod.imports.get(parts[0], "")
    if len(parts) == 1:
        return REG_FUNCS[parts[-1]] if tgt == f"{SER_DOTTED}.{parts[-1]}" else None
    if tgt == SER_DOTTED or tgt.endswith(".serialization"):
        return REG_FUNCS[parts[-1]]
    return None


def _class_of(repo: Repo, node: ast.ClassDef, mod: Module) -> ClassInfo:
    for ci in repo.classes.get(node.name, []):
        if ci.node is node:
            return ci
    raise AnalysisError(f"class {node.name} in {mod.rel} not indexed")


def _str_args(ev: ConstEval, call: ast.Call, env, what: str) -> Tuple[str, str, str]:
    if len(call.args) != 3 or call.keywords:
        raise AnalysisError(f"{what}: registration call does not have three positional arguments: {norm(call)}")
    vals = tuple(ev.ev(a, env) for a in call.args)
    if not all(isinstance(v, str) for v in vals):
        raise AnalysisError(f"{what}: registration with non-literal key {norm(call)} (cannot be modelled)")
    return vals  # type: ignore[return-value]


def _helper_registrations(repo: Repo, mod: Module, helper: FuncInfo, deco: ast.Call):
    """Inline a module-level decorator factory whose (nested) body registers the decorated class:
    yields (kind, (msg, block, var), inner_call).  Empty when the helper registers nothing."""
    inner = []
    for c in calls(helper.node, into_defs=True):
        if isinstance(c.func, ast.Call) and _reg_kind(mod, c.func.func):
            inner.append(c)
    if not inner:
        return []
    ev = ConstEval(repo, mod)
    params = [a.arg for a in helper.node.args.args]
    if len(deco.args) != len(params) or deco.keywords:
        raise AnalysisError(f"{helper.qual}: decorator call {norm(deco)} does not bind all parameters positionally")
    env0 = {}
    for p, a in zip(params, deco.args):
        v = ev.ev(a)
        if isinstance(v, (list, frozenset)):
            v = tuple(sorted(v)) if isinstance(v, frozenset) else tuple(v)
        if not (isinstance(v, str) or (isinstance(v, tuple) and all(isinstance(x, str) for x in v))):
            raise AnalysisError(f"{helper.qual}: non-literal argument in {norm(deco)}")
        env0[p] = v       # a name, or a constant table of names the helper loops over
    out = []
    for c in inner:
        envs = [dict(env0)]
        for a in ancestors(c):
            if a is helper.node:
                break
            if isinstance(a, (ast.For, ast.AsyncFor)):
                if not isinstance(a.target, ast.Name):
                    raise AnalysisError(f"{helper.qual}: unsupported loop target in registration helper")
                it = ev.ev(a.iter, env0)
                if not isinstance(it, (tuple, list, frozenset)) or not all(isinstance(x, str) for x in it):
                    raise AnalysisError(f"{helper.qual}: registration loop over a non-literal collection {norm(a.iter)}")
                envs = [dict(e, **{a.target.id: x}) for e in envs for x in (sorted(it) if isinstance(it, frozenset) else it)]
            elif isinstance(a, (ast.While, ast.If, ast.Try)):
                raise AnalysisError(f"{helper.qual}: conditional registration cannot be modelled")
        for e in envs:
            out.append((_reg_kind(mod, c.func.func), _str_args(ev, c.func, e, helper.qual), c))
    return out


def registrations(ctx) -> List[Reg]:
    repo = ctx.repo
    regs: List[Reg] = []
    handled: Set[int] = set()
    for mod in repo.modules.values():
        ev = ConstEval(repo, mod)
        for node in walk(mod.tree, into_defs=True):
            if not isinstance(node, ast.ClassDef):
                continue
            ci = None
            for d in node.decorator_list:
                if not isinstance(d, ast.Call):
                    continue
                kind = _reg_kind(mod, d.func)
                if kind:
                    ci = ci or _class_of(repo, node, mod)
                    m, b, v = _str_args(ev, d, {}, f"{mod.rel}:{d.lineno}")
                    regs.append(Reg(m, b, v, kind, ci, mod, d, ap(d.func).split(".")[-1]))
                    handled.add(id(d))
                    continue
                if isinstance(d.func, ast.Name):
                    helpers = [f for f in repo.funcs.get(d.func.id, []) if f.module is mod and f.cls is None
                               and f.parent_fn is None]
                    for h in helpers:
                        for kind2, (m, b, v), inner in _helper_registrations(repo, mod, h, d):
                            ci = ci or _class_of(repo, node, mod)
                            regs.append(Reg(m, b, v, kind2, ci, mod, d, h.name))
                            handled.add(id(inner.func))
    # every other call of a registration decorator must be one we modelled (or serialization.py's own wrappers)
    for mod in repo.modules.values():
        if mod.rel == SERMOD:
            continue
        for c in calls(mod.tree, into_defs=True):
            if _reg_kind(mod, c.func) and id(c) not in handled:
                raise AnalysisError(f"{mod.rel}:{c.lineno}: registration {norm(c)} is not a class decorator with literal "
                                    f"arguments nor inside an inlined helper (cannot be modelled)")
    return regs


# ------------------------------------------------------------------------------------------ class helpers

def _mro_names(repo: Repo, ci: ClassInfo) -> List[str]:
    return [c.name for c in repo.mro(ci)]


def _resolve_cls(repo: Repo, mod: Module, func) -> Optional[ClassInfo]:
    """Class named by a constructor callee expression (`se.X`, `X`)."""
    p = ap(func)
    if not p:
        return None
    parts = p.split(".")
    if len(parts) == 1:
        for ci in repo.classes.get(parts[0], []):
            if ci.module is mod:
                return ci
        return repo.resolve_class(parts[0], mod) if parts[0] in mod.imports or mod.star_imports else None
    if len(parts) == 2:
        tgt = mod.imports.get(parts[0])
        m2 = repo.by_modname.get(tgt) if tgt else None
        if m2 is not None:
            for ci in repo.classes.get(parts[1], []):
                if ci.module is m2:
                    return ci
    return None


def _is_subclass(repo: Repo, ci: Optional[ClassInfo], base_name: str, base_mod: str = SERMOD) -> bool:
    if ci is None:
        return False
    return any(c.name == base_name and c.module.rel == base_mod for c in repo.mro(ci))


def _class_env(repo: Repo, ci: ClassInfo) -> Dict[str, object]:
    """Constant values of class-level names, evaluated in body order (later rows may use earlier ones)."""
    ev = ConstEval(repo, ci.module)
    env: Dict[str, object] = {}
    for st in ci.node.body:
        if isinstance(st, ast.Assign) and len(st.targets) == 1 and isinstance(st.targets[0], ast.Name):
            env[st.targets[0].id] = ev.ev(st.value, env)
        elif isinstance(st, ast.AnnAssign) and isinstance(st.target, ast.Name) and st.value is not None:
            env[st.target.id] = ev.ev(st.value, env)
    return env


def _class_attr_node(repo: Repo, ci: ClassInfo, name: str) -> Tuple[Optional[ast.AST], Optional[ClassInfo]]:
    for c in repo.mro(ci):
        for st in c.node.body:
            if isinstance(st, ast.Assign):
                for t in st.targets:
                    if isinstance(t, ast.Name) and t.id == name:
                        return st.value, c
            elif isinstance(st, ast.AnnAssign) and isinstance(st.target, ast.Name) and st.target.id == name \
                    and st.value is not None:
                return st.value, c
    return None, None


def _deref(repo: Repo, mod: Module, ci: Optional[ClassInfo], node: ast.AST, depth=0) -> Tuple[ast.AST, Module]:
    """Follow a bare name to the class-level / module-level expression it is bound to."""
    while isinstance(node, ast.Name) and depth < 6:
        depth += 1
        nxt = None
        if ci is not None:
            nxt, owner = _class_attr_node(repo, ci, node.id)
            if nxt is not None:
                mod = owner.module
        if nxt is None:
            nxt = repo.module_assign(mod, node.id)
        if nxt is None:
            tgt = mod.imports.get(node.id)
            if tgt:
                mn, _, attr = tgt.rpartition(".")
                m2 = repo.by_modname.get(mn)
                if m2 is not None:
                    nxt = repo.module_assign(m2, attr)
                    if nxt is not None:
                        mod = m2
        if nxt is None:
            break
        node = nxt
    return node, mod


# ------------------------------------------------------------------------------------------ R1

_ARITH = (ast.Div, ast.Mult, ast.Add, ast.Sub, ast.FloorDiv, ast.Mod, ast.LShift, ast.RShift, ast.BitAnd, ast.BitOr,
          ast.BitXor, ast.Pow)


def _value_evidence(repo: Repo, fi: FuncInfo, pname: str, depth=0) -> Set[str]:
    """How a method body uses parameter `pname`: {'int'} arithmetic, {'bytes'} buffer operations."""
    out: Set[str] = set()
    for n in walk(fi.node):
        if isinstance(n, ast.BinOp) and isinstance(n.op, _ARITH):
            if any(isinstance(x, ast.Name) and x.id == pname for x in (n.left, n.right)):
                out.add("int")
        elif isinstance(n, ast.Subscript) and isinstance(n.value, ast.Name) and n.value.id == pname \
                and isinstance(n.slice, ast.Slice):
            out.add("bytes")
        elif isinstance(n, ast.Call):
            name = ap(n.func) or ""
            last = name.split(".")[-1]
            arg_is = [isinstance(a, ast.Name) and a.id == pname for a in n.args]
            if any(arg_is):
                if name in ("int", "float", "divmod", "round", "abs") or name.endswith("_bitfield.unpack"):
                    out.add("int")
                elif last in ("len", "frombuffer", "bytes", "bytearray", "BufferReader", "memoryview"):
                    out.add("bytes")
                elif isinstance(n.func, ast.Attribute) and isinstance(n.func.value, ast.Name) \
                        and n.func.value.id in ("self", "cls") and fi.cls is not None and depth < 2:
                    m = repo.lookup_method(fi.cls, n.func.attr)
                    if m is not None:
                        off = 1 if m.node.args.args and m.node.args.args[0].arg in ("self", "cls") else 0
                        idx = arg_is.index(True) + off
                        if idx < len(m.node.args.args):
                            out |= _value_evidence(repo, m, m.node.args.args[idx].arg, depth + 1)
            if isinstance(n.func, ast.Attribute) and isinstance(n.func.value, ast.Name) and n.func.value.id == pname \
                    and n.func.attr in ("decode", "hex", "startswith", "split"):
                out.add("bytes")
    return out


INT_ADAPTER_BASES = ("QuantizedFloatBase", "IntEnum", "IntFlag", "BitField", "BitfieldDataclass", "BoolAdapter")


def adapter_domain(repo: Repo, mod: Module, ci_ctx: Optional[ClassInfo], expr: ast.AST, depth=0) -> Set[str]:
    """Raw domain(s) an adapter construction expression decodes from: subset of {'int','bytes','any'};
    empty = unknown."""
    expr, mod = _deref(repo, mod, ci_ctx, expr)
    if not isinstance(expr, ast.Call) or depth > 4:
        return set()
    ci = _resolve_cls(repo, mod, expr.func)
    if ci is None:
        return set()
    names = _mro_names(repo, ci)
    if "IdentityAdapter" in names:
        return {"any"}
    if any(b in names for b in INT_ADAPTER_BASES):
        return {"int"}
    if "ContextAdapter" in names:
        # options dict: third argument of ContextAdapter.__init__, possibly supplied by the subclass' __init__
        call, cmod = expr, mod
        init = ci.methods.get("__init__")
        if ci.name != "ContextAdapter" and init is not None:
            sup = [c for c in calls(init.node) if ap(c.func) == "super().__init__"]
            if len(sup) != 1:
                return set()
            call, cmod = sup[0], ci.module
        opts = call.args[2] if len(call.args) > 2 else kw(call, "options")
        if not isinstance(opts, ast.Dict):
            return set()
        out: Set[str] = set()
        for v in opts.values:
            d = adapter_domain(repo, cmod, None, v, depth + 1)
            if not d:
                return set()
            out |= d
        return out - {"any"} or {"any"}
    dec = repo.lookup_method(ci, "decode")
    if dec is None or len(dec.node.args.args) < 2:
        return set()
    return _value_evidence(repo, dec, dec.node.args.args[1].arg)


def r1(ctx, regs: List[Reg], tmpl):
    repo = ctx.repo
    ctx.rule("C09.R1", "registry <-> message template: every decorator key resolves; enum/flag serializers sit on "
                       "integer variables, byte-template serializers on Fixed/Variable, adapter raw domain matches")
    ctx.floor("C09.R1", "subfield registrations", len(regs), 150)
    seen: Dict[str, Reg] = {}
    unresolved = 0
    for r in regs:
        where = ctx.w(r.mod, r.node)
        if r.key in seen and seen[r.key].cls != r.cls:
            ctx.note(f"C09.R1: {r.key} registered twice ({seen[r.key].cls.name}, {r.cls.name}); the class defined "
                     f"later wins")
        seen.setdefault(r.key, r)
        m = tmpl.get(r.msg)
        b = m.block(r.block) if m else None
        v = b.var(r.var) if b else None
        inst = f"{r.key} <- {r.cls.name} [{r.kind}]"
        if v is None:
            unresolved += 1
            ctx.note(f"C09.R1: {where} registration {inst} names no template variable (registers nothing for a "
                     f"message variable)")
            continue
        if r.kind in ("enum", "flag"):
            ok = v.type in INT_TYPES
            ctx.ob("C09.R1", inst, ok, where, f"{r.kind} serializer on a {v.type} variable: the adapter decodes "
                                              f"integers, the wire value is {v.type}")
            if not is_enum_class(repo, r.cls):
                ctx.ob("C09.R1", f"{inst} decorated class is an enum", False, where,
                       f"{r.cls.name} is not an enum class: the decorator raises at import")
            continue
        names = _mro_names(repo, r.cls)
        if "AdapterSubfieldSerializer" in names:
            node, owner = _class_attr_node(repo, r.cls, "ADAPTER")
            if node is None:
                ctx.ob("C09.R1", f"{inst} has ADAPTER", False, where, "AdapterSubfieldSerializer without ADAPTER")
                continue
            dom = adapter_domain(repo, owner.module, owner, node)
            if not dom or dom == {"any"}:
                ctx.note(f"C09.R1: raw domain of {r.cls.name}.ADAPTER not inferable ({norm(node)}); kind not checked")
                ctx.ob("C09.R1", inst, True, where, "adapter domain unknown")
                continue
            want = set()
            if "int" in dom:
                want |= NUMERIC_TYPES
            if "bytes" in dom:
                want |= set(BYTES_TYPES)
            ctx.ob("C09.R1", inst, v.type in want, where,
                   f"adapter decodes {sorted(dom)} raw values, template variable is {v.type}")
        elif "BaseSubfieldSerializer" in names:
            # byte-template serializers: raw value goes through BufferReader/BufferWriter
            uses_buf = any(n in names for n in ("SimpleSubfieldSerializer", "EnumSwitchedSubfieldSerializer",
                                                "FlagSwitchedSubfieldSerializer"))
            if not uses_buf:
                for meth in ("serialize", "deserialize"):
                    f = repo.lookup_method(r.cls, meth)
                    if f is not None and f.cls is not None and f.cls.name != "BaseSubfieldSerializer":
                        for g in class_methods_reachable(repo, f, depth=2):
                            if find_calls(g.node, "_deserialize_template") or find_calls(g.node, "_serialize_template"):
                                uses_buf = True
            if not uses_buf:
                ctx.note(f"C09.R1: {r.cls.name} is a custom serializer without a byte template; kind not checked")
                ctx.ob("C09.R1", inst, True, where, "custom serializer")
                continue
            ctx.ob("C09.R1", inst, v.type in BYTES_TYPES, where,
                   f"byte-template serializer on a {v.type} variable: BufferReader needs a bytes payload")
        else:
            ctx.ob("C09.R1", f"{inst} is a subfield serializer class", False, where,
                   f"{r.cls.name} does not derive from BaseSubfieldSerializer")
    ctx.stats["C09.R1.unresolved"] = unresolved
    return seen


# ------------------------------------------------------------------------------------------ R2

def _nonneg_fact(node: ast.AST, path: str, stop) -> bool:
    """A dominating condition proves `path >= 0` at node."""
    def const(n):
        if isinstance(n, ast.Constant) and isinstance(n.value, (int, float)) and not isinstance(n.value, bool):
            return n.value
        if isinstance(n, ast.UnaryOp) and isinstance(n.op, ast.USub) and isinstance(n.operand, ast.Constant) \
                and isinstance(n.operand.value, (int, float)):
            return -n.operand.value
        return None
    for e, pol in facts(node, stop):
        if not (isinstance(e, ast.Compare) and len(e.ops) == 1):
            continue
        l, r, op = e.left, e.comparators[0], e.ops[0]
        if ap(l) == path and const(r) is not None:
            c = const(r)
        elif ap(r) == path and const(l) is not None:
            c = const(l)
            op = {ast.Lt: ast.Gt, ast.Gt: ast.Lt, ast.LtE: ast.GtE, ast.GtE: ast.LtE}.get(type(op), type(op))()
        else:
            continue
        # normalised: path <op> c  with truth `pol`
        if isinstance(op, ast.Lt) and not pol and c >= 0:        # not (x < c)  => x >= c
            return True
        if isinstance(op, ast.LtE) and not pol and c >= -1:      # not (x <= c) => x > c
            return True
        if isinstance(op, ast.GtE) and pol and c >= 0:
            return True
        if isinstance(op, ast.Gt) and pol and c >= -1:
            return True
        if isinstance(op, ast.Eq) and pol and c >= 0:
            return True
    return False


class SignEval:
    """Which expressions are provably non-negative when the named parameters may be negative
    (anything not provably non-negative counts as possibly negative)."""

    def __init__(self, fn_node, neg_params: Set[str]):
        self.fn = fn_node
        self.neg = set(neg_params)
        self._busy: Set[str] = set()
        self._stores = stores(fn_node, into_defs=False)
        self._comp_iters: Dict[str, List[ast.AST]] = {}
        for n in walk(fn_node):
            if isinstance(n, ast.comprehension) and isinstance(n.target, ast.Name):
                self._comp_iters.setdefault(n.target.id, []).append(n.iter)
            elif isinstance(n, (ast.For, ast.AsyncFor)) and isinstance(n.target, ast.Name):
                self._comp_iters.setdefault(n.target.id, []).append(n.iter)

    def nonneg(self, e: ast.AST) -> bool:
        if isinstance(e, ast.Constant):
            return isinstance(e.value, (int, float)) and not isinstance(e.value, bool) and e.value >= 0 \
                or isinstance(e.value, bool)
        if isinstance(e, ast.IfExp):
            return self.nonneg(e.body) and self.nonneg(e.orelse)
        if isinstance(e, ast.BinOp):
            l, r = self.nonneg(e.left), self.nonneg(e.right)
            if isinstance(e.op, (ast.LShift, ast.RShift, ast.Pow)):
                return l
            if isinstance(e.op, ast.BitAnd):
                return l or r
            if isinstance(e.op, (ast.BitOr, ast.BitXor, ast.Add, ast.Mult)):
                return l and r
            if isinstance(e.op, (ast.FloorDiv, ast.Div)):
                return l and r
            if isinstance(e.op, ast.Mod):
                return r
            return False
        if isinstance(e, ast.Call):
            name = ap(e.func) or ""
            last = name.split(".")[-1]
            if last in ("len", "abs", "bit_length", "bit_count", "ord", "fabs"):
                return True
            if name in ("int", "float", "round") and e.args:
                return self.nonneg(e.args[0])
            if name == "max" and e.args:
                return any(self.nonneg(a) for a in e.args)
            if name == "min" and e.args:
                return all(self.nonneg(a) for a in e.args)
            return False
        if isinstance(e, ast.Name):
            # a dominating test of the same name (`x if x > 0 else ..`, `if x >= 0:`, comprehension filter)
            if parent(e) is not None and _nonneg_fact(e, e.id, self.fn):
                return True
            return self._name(e.id)
        return False

    def _range_like(self, it: ast.AST) -> bool:
        if isinstance(it, ast.Call) and ap(it.func) == "range":
            if len(it.args) == 1:
                return True
            return self.nonneg(it.args[0]) and (len(it.args) < 3 or self.nonneg(it.args[2]))
        if isinstance(it, ast.Call) and ap(it.func) == "enumerate":
            return False
        if isinstance(it, (ast.Tuple, ast.List, ast.Set)):
            return all(self.nonneg(x) for x in it.elts)
        return False

    def _name(self, name: str) -> bool:
        if name in self.neg or name in self._busy:
            return False
        self._busy.add(name)
        try:
            plain = [s for s in self._stores if s.path == name and s.kind == "assign"]
            aug = [s for s in self._stores if s.path == name and s.kind == "augassign"]
            iters = self._comp_iters.get(name, [])
            if not plain and not iters:
                return False
            for s in plain:
                if s.value is None:
                    continue  # loop target, covered by iters
                if isinstance(s.node, ast.Assign) and any(isinstance(t, (ast.Tuple, ast.List)) for t in s.node.targets):
                    return False
                if not self.nonneg(s.value):
                    return False
            for it in iters:
                if not self._range_like(it):
                    return False
            for s in aug:
                op = s.node.op
                if isinstance(op, (ast.BitAnd, ast.LShift, ast.RShift, ast.Pow)):
                    continue           # non-negative stays non-negative
                if isinstance(op, (ast.BitOr, ast.BitXor, ast.Add, ast.Mult, ast.FloorDiv, ast.Div)):
                    if not self.nonneg(s.value):
                        return False
                    continue
                return False
            return True
        finally:
            self._busy.discard(name)


def _int_elements(fn_node, expr: ast.AST, depth=0) -> Tuple[List[ast.AST], bool]:
    """Element expressions of the sequence value `expr` that can be integers (string-valued elements such
    as `.name` are dropped).  Second result False when the shape is not analysable."""
    if depth > 8:
        return [], False
    if isinstance(expr, (ast.Tuple, ast.List)):
        out, ok = [], True
        for e in expr.elts:
            if isinstance(e, ast.Starred):
                sub, k = _int_elements(fn_node, e.value, depth + 1)
                out += sub
                ok = ok and k
            elif not _stringy(e):
                out.append(e)
        return out, ok
    if isinstance(expr, ast.BinOp) and isinstance(expr.op, ast.Add):
        a, ka = _int_elements(fn_node, expr.left, depth + 1)
        b, kb = _int_elements(fn_node, expr.right, depth + 1)
        return a + b, ka and kb
    if isinstance(expr, ast.IfExp):
        a, ka = _int_elements(fn_node, expr.body, depth + 1)
        b, kb = _int_elements(fn_node, expr.orelse, depth + 1)
        return a + b, ka and kb
    if isinstance(expr, ast.Call) and ap(expr.func) in ("tuple", "list", "sorted") and len(expr.args) <= 1:
        if not expr.args:
            return [], True
        return _int_elements(fn_node, expr.args[0], depth + 1)
    if isinstance(expr, (ast.GeneratorExp, ast.ListComp)):
        return ([] if _stringy(expr.elt) else [expr.elt]), True
    if isinstance(expr, ast.Name):
        vals = [s for s in stores(fn_node, into_defs=False) if s.path == expr.id]
        out, ok = [], bool(vals)
        for s in vals:
            if s.kind == "assign" and s.value is not None:
                sub, k = _int_elements(fn_node, s.value, depth + 1)
                out += sub
                ok = ok and k
            elif s.kind == "augassign" and isinstance(s.node.op, ast.Add):
                sub, k = _int_elements(fn_node, s.value, depth + 1)
                out += sub
                ok = ok and k
            elif s.kind == "mutcall" and s.method == "append" and s.node.args:
                if not _stringy(s.node.args[0]):
                    out.append(s.node.args[0])
            elif s.kind == "mutcall" and s.method == "extend" and s.node.args:
                sub, k = _int_elements(fn_node, s.node.args[0], depth + 1)
                out += sub
                ok = ok and k
            else:
                ok = False
        return out, ok
    return [], False


def _stringy(e: ast.AST) -> bool:
    if isinstance(e, ast.Constant):
        return isinstance(e.value, (str, bytes))
    if isinstance(e, ast.JoinedStr):
        return True
    if isinstance(e, ast.Attribute) and e.attr == "name":
        return True
    if isinstance(e, ast.Call) and ap(e.func) in ("str", "repr"):
        return True
    return False



def _module_callees(repo: Repo, f: FuncInfo) -> List[FuncInfo]:
    """Module-level repo functions called from f: `name(..)` of the same module / imported by name, or
    `alias.name(..)` where alias is an imported repo module."""
    out: List[FuncInfo] = []
    for c in calls(f.node, into_defs=True):
        fn = c.func
        target_mod, name = None, None
        if isinstance(fn, ast.Name):
            name = fn.id
            tgt = f.module.imports.get(name)
            if tgt:
                mn, _, attr = tgt.rpartition(".")
                target_mod, name = repo.by_modname.get(mn), attr
            else:
                target_mod = f.module
        elif isinstance(fn, ast.Attribute) and isinstance(fn.value, ast.Name):
            tgt = f.module.imports.get(fn.value.id)
            target_mod, name = (repo.by_modname.get(tgt) if tgt else None), fn.attr
        if target_mod is None or name is None:
            continue
        for g in repo.funcs.get(name, []):
            if g.module is target_mod and g.cls is None and g.parent_fn is None and g not in out:
                out.append(g)
    return out


def r2(ctx, regs: List[Reg], tmpl):
    repo = ctx.repo
    ctx.rule("C09.R2", "sign safety: flag/enum adapters never build or OR an enum.IntFlag from a possibly negative "
                       "integer, unknown enum values stay ints, and the plain-data form of a negative value keeps "
                       "a negative element")
    signed = []
    for r in regs:
        if r.kind != "flag":
            continue
        m = tmpl.get(r.msg)
        b = m.block(r.block) if m else None
        v = b.var(r.var) if b else None
        if v is not None and v.type in SIGNED_TYPES:
            signed.append(f"{r.key}:{v.type}")
    ctx.stats["C09.R2.flag serializers on signed variables"] = len(signed)
    if not signed:
        ctx.note("C09.R2: no flag serializer is registered on a signed variable today; adapter paths checked anyway "
                 "(signed flag specs also occur inside byte templates)")
    why = f"signed flag variables: {', '.join(sorted(signed)[:6])}"

    flag_cls = repo.cls("IntFlag", SERMOD)
    init = flag_cls.methods.get("__init__")
    dec = flag_cls.methods.get("decode")
    enc = flag_cls.methods.get("encode")
    ctx.require(init is not None and dec is not None and enc is not None, "serialization.IntFlag lost __init__/decode/encode")
    p_enum = init.node.args.args[1].arg if len(init.node.args.args) > 1 else None
    attr = None
    for st in stores(init.node):
        if st.kind == "assign" and st.path.startswith("self.") and isinstance(st.value, ast.Name) and st.value.id == p_enum:
            attr = st.path
    ctx.require(attr is not None, "serialization.IntFlag.__init__ no longer stores the flag class on self")

    # (a) object path: flag_cls(<raw>) only under a non-negativity fact
    nctor = 0
    raw = dec.node.args.args[1].arg
    for f in class_methods_reachable(repo, dec, depth=2):
        for c in calls(f.node, into_defs=True):
            if ap(c.func) == attr and c.args:
                nctor += 1
                a = c.args[0]
                p = ap(a)
                ok = False
                if p is not None:
                    ok = _nonneg_fact(c, p, f.node)
                if not ok:
                    ok = SignEval(f.node, {x.arg for x in f.node.args.args}).nonneg(a)
                ctx.ob("C09.R2", f"{f.qual}: {norm(c)} built only from a non-negative value", ok, ctx.w(f, c),
                       f"enum.IntFlag(negative) is not value preserving on Python >= 3.11 ({why})")
    ctx.floor("C09.R2", "IntFlag constructions in IntFlag.decode", nctor, 1)

    # (b) encode path: OR accumulates plain ints (helpers in other repo modules that the encoder hands the value
    # to are part of the path)
    nor = 0
    enc_fns = list(class_methods_reachable(repo, enc, depth=2))
    for g in list(enc_fns):
        for h in _module_callees(repo, g):
            if h not in enc_fns:
                enc_fns.append(h)
    for f in enc_fns:
        plain_cache: Dict[str, bool] = {}

        def plain(e, f=f, busy=()):
            if isinstance(e, ast.Constant):
                return isinstance(e.value, int)
            if isinstance(e, ast.Call) and ap(e.func) == "int":
                return True
            if isinstance(e, ast.BinOp):
                return plain(e.left, f, busy) and plain(e.right, f, busy)
            if isinstance(e, ast.Name):
                if e.id in busy:
                    return True
                if e.id in plain_cache:
                    return plain_cache[e.id]
                sts = [s for s in stores(f.node, into_defs=False) if s.path == e.id]
                ok = bool(sts) and all(s.kind in ("assign", "augassign") and s.value is not None
                                       and plain(s.value, f, busy + (e.id,)) for s in sts)
                plain_cache[e.id] = ok
                return ok
            return False
        for n in walk(f.node):
            ops = None
            if isinstance(n, ast.AugAssign) and isinstance(n.op, ast.BitOr):
                ops = [n.value]
                key = f"{ap(n.target)} |= ..."
            elif isinstance(n, ast.BinOp) and isinstance(n.op, ast.BitOr):
                ops = [n.left, n.right]
                key = "... | ..."
            if ops is None:
                continue
            nor += 1
            bad = [o for o in ops if not plain(o)]
            ctx.ob("C09.R2", f"{f.qual}: {key} operands are plain ints", not bad, ctx.w(f, n),
                   f"operand {norm(bad[0]) if bad else ''} may be an enum.IntFlag member: OR-ing it with negative "
                   f"leftover bits goes through IntFlag.__or__ and mangles the value ({why})")
    ctx.floor("C09.R2", "OR sites in IntFlag.encode", nor, 1)

    # (c) plain-data path: flags_to_pod(flag_cls, raw)
    npod = 0
    for f in class_methods_reachable(repo, dec, depth=2):
        for c in find_calls(f.node, "flags_to_pod"):
            npod += 1
            a = c.args[1] if len(c.args) > 1 else kw(c, "val")
            ok = a is not None and not SignEval(f.node, {x.arg for x in f.node.args.args}).nonneg(a)
            ctx.ob("C09.R2", f"{f.qual}: flags_to_pod receives the raw signed value", ok, ctx.w(f, c),
                   f"argument {norm(a) if a is not None else '?'} is provably non-negative: sign dropped before the "
                   f"plain-data form is built")
    ctx.floor("C09.R2", "flags_to_pod calls in IntFlag.decode", npod, 1)
    pod = repo.fn("flags_to_pod", DTYPES)
    pnames = [x.arg for x in pod.node.args.args]
    ctx.require(len(pnames) >= 2, "flags_to_pod signature changed")
    rets = [n for n in walk(pod.node) if isinstance(n, ast.Return) and n.value is not None]
    ctx.require(bool(rets), "flags_to_pod returns nothing")
    se_ = SignEval(pod.node, {pnames[1]})
    for rt in rets:
        elems, ok_shape = _int_elements(pod.node, rt.value)
        if not ok_shape:
            raise AnalysisError(f"C09.R2: shape of flags_to_pod's result `{norm(rt.value)}` not analysable")
        may_neg = [e for e in elems if not se_.nonneg(e)]
        ctx.ob("C09.R2", "flags_to_pod: a negative value keeps a possibly-negative integer element", bool(may_neg),
               ctx.w(pod, rt),
               f"every integer element of the result ({', '.join(norm(e) for e in elems) or 'none'}) is provably "
               f"non-negative; member names map to non-negative bits, so OR-ing the plain-data form back can never "
               f"give the negative wire value ({why})")

    # (d) IntEnum.decode: enum construction only under a membership test (unknown values stay ints)
    enum_cls = repo.cls("IntEnum", SERMOD)
    einit, edec = enum_cls.methods.get("__init__"), enum_cls.methods.get("decode")
    ctx.require(einit is not None and edec is not None, "serialization.IntEnum lost __init__/decode")
    p_e = einit.node.args.args[1].arg
    eattr = None
    for st in stores(einit.node):
        if st.kind == "assign" and st.path.startswith("self.") and isinstance(st.value, ast.Name) and st.value.id == p_e:
            eattr = st.path
    ctx.require(eattr is not None, "serialization.IntEnum.__init__ no longer stores the enum class on self")
    nen = 0
    for f in class_methods_reachable(repo, edec, depth=2):
        for c in calls(f.node, into_defs=True):
            if ap(c.func) == eattr and c.args and ap(c.args[0]):
                nen += 1
                p = ap(c.args[0])
                ok = False
                for e, pol in facts(c, f.node):
                    if isinstance(e, ast.Compare) and len(e.ops) == 1 and \
                            (isinstance(e.ops[0], ast.In) and pol or isinstance(e.ops[0], ast.NotIn) and not pol) \
                            and ap(e.left) == p and eattr in {ap(x) for x in ast.walk(e.comparators[0])
                                                              if isinstance(x, ast.Attribute)}:
                        ok = True
                eafp = False
                if not ok:
                    # try/except ValueError fallback is an equivalent guard
                    from ..core import try_contexts, handler_names
                    for tc in try_contexts(c, f.node):
                        if tc.section == "body" and any(set(handler_names(h)) & {"ValueError", "Exception", "*"}
                                                        for h in tc.node.handlers):
                            ok = True
                            eafp = True
                ctx.ob("C09.R2", f"{f.qual}: {norm(c)} only for member values", ok, ctx.w(f, c),
                       "enum construction from a non-member raises ValueError: unknown wire values must stay ints")
                if eafp:
                    # ... equivalent only while construction from a non-member really raises: an enum class with a
                    # `_missing_` hook maps unknown values onto some member instead (and the raw value is gone)
                    enum_classes: Dict[str, Tuple[ClassInfo, str]] = {}
                    for r in regs:
                        if r.kind == "enum":
                            enum_classes.setdefault(r.cls.qual, (r.cls, r.key))
                    for mod in repo.modules.values():
                        for c2 in calls(mod.tree, into_defs=True):
                            k2 = _resolve_cls(repo, mod, c2.func)
                            if k2 is not None and k2.name == "IntEnum" and k2.module.rel == SERMOD and c2.args:
                                ec = _resolve_cls(repo, mod, c2.args[0])
                                if ec is not None:
                                    enum_classes.setdefault(ec.qual, (ec, f"{mod.rel}:{c2.lineno}"))
                    for ec, used in sorted(enum_classes.values(), key=lambda t: t[0].qual):
                        hook = repo.lookup_method(ec, "_missing_")
                        ctx.ob("C09.R2", f"{f.qual}: construction of {ec.name} from a non-member raises (no _missing_ hook)",
                               hook is None, hook.where if hook is not None else ctx.w(ec.module, ec.node),
                               f"{f.qual} relies on ValueError to keep unknown values as ints, but "
                               f"{hook.qual if hook is not None else ''} lets {ec.name}(<unknown>) succeed with a stand-in "
                               f"member: an unknown wire value of {used} decodes to that member and re-encodes as its value")
    ctx.floor("C09.R2", "enum constructions in IntEnum.decode", nen, 1)


# ------------------------------------------------------------------------------------------ R3

_TZ_PROBE = '''
import datetime, time
def bad_dec(x):
    return datetime.datetime.fromtimestamp(x)
def bad_enc(s):
    return datetime.datetime.fromisoformat(s).timestamp()
def bad_mk(t):
    return time.mktime(t)
def bad_offset(t):
    return t + time.timezone
def good(x, d):
    a = datetime.datetime.fromtimestamp(x, tz=datetime.timezone.utc)
    if d.tzinfo is None:
        d = d.replace(tzinfo=datetime.timezone.utc)
    return a.timestamp() + d.timestamp()
'''


class _ProbeRepo:
    def __init__(self):
        from ..core import set_parents
        tree = ast.parse(_TZ_PROBE)
        set_parents(tree)
        self.m = Module(rel="<probe>", name="probe", src=_TZ_PROBE, tree=tree, imports={"datetime": "datetime", "time": "time"})
        self.funcs: Dict[str, list] = {}

    def module(self, rel):
        return self.m



def _self_checking_decode(repo: Repo, k: ClassInfo) -> bool:
    """decode(raw, ..) contains `if self.encode(<text>, ..) != raw: return raw` (or the == form with the text
    returned inside), and every value it returns is that checked text or the raw parameter."""
    dec = repo.lookup_method(k, "decode")
    if dec is None or len(dec.node.args.args) < 2:
        return False
    raw = dec.node.args.args[1].arg
    checked: Set[str] = set()
    for n in walk(dec.node):
        if not (isinstance(n, ast.Compare) and len(n.ops) == 1 and isinstance(n.ops[0], (ast.NotEq, ast.Eq))):
            continue
        sides = [n.left, n.comparators[0]]
        call = next((x for x in sides if isinstance(x, ast.Call) and ap(x.func) == "self.encode" and x.args
                     and isinstance(x.args[0], ast.Name)), None)
        other = next((x for x in sides if x is not call), None)
        if call is None or not (isinstance(other, ast.Name) and other.id == raw):
            continue
        checked.add(call.args[0].id)
    if not checked:
        return False
    # the guarding ifs: `if self.encode(text, ..) != raw: return raw` (mismatch leaves with the raw value)
    guards = []
    for n in walk(dec.node):
        if isinstance(n, ast.If) and isinstance(n.test, ast.Compare) and len(n.test.ops) == 1 \
                and isinstance(n.test.ops[0], ast.NotEq) \
                and any(isinstance(x, ast.Call) and ap(x.func) == "self.encode" for x in [n.test.left, n.test.comparators[0]]) \
                and len(n.body) >= 1 and isinstance(n.body[-1], ast.Return) and isinstance(n.body[-1].value, ast.Name) \
                and n.body[-1].value.id == raw and not n.orelse:
            guards.append(n)
    cfg = CFG(dec.node)
    guard_nodes = {x for x in cfg.nodes if any(x.ast is g for g in guards)}
    for r in [x for x in walk(dec.node) if isinstance(x, ast.Return)]:
        v = r.value
        if isinstance(v, ast.Name) and v.id == raw:
            continue
        if isinstance(v, ast.Name) and v.id in checked:
            good = False
            # syntactic dominance by the == / != fact ...
            for e, pol in facts(r, dec.node):
                if isinstance(e, ast.Compare) and len(e.ops) == 1 and any(
                        isinstance(x, ast.Call) and ap(x.func) == "self.encode" for x in [e.left, e.comparators[0]]):
                    if isinstance(e.ops[0], ast.NotEq) and not pol or isinstance(e.ops[0], ast.Eq) and pol:
                        good = True
            # ... or every path to this return runs through a guard whose mismatch branch has left the function
            if not good and guard_nodes:
                rn = [x for x in cfg.nodes if x.ast is r]
                reach = cfg.reachable([cfg.entry], avoid=lambda x: x in guard_nodes, exc=True)
                good = bool(rn) and not any(x in reach for x in rn)
            if good:
                continue
        return False
    return True


def r3(ctx):
    repo = ctx.repo
    ctx.rule("C09.R3", "date codecs never consult the process time zone (tzlint: naive fromtimestamp / .timestamp() "
                       "/ astimezone on possibly naive values, time.mktime/localtime)")
    probe = tzlint.tz_sites(_ProbeRepo(), ["<probe>"])
    bad = sorted(k for _, _, k, ok, _ in probe if not ok)
    good = [k for _, _, k, ok, _ in probe if ok]
    ctx.require(bad == ["local-time-api", "local-time-api", "naive-fromtimestamp", "naive-timestamp"] and len(good) == 3,
                f"tzlint probe mismatch: flagged {bad}, accepted {good}")
    rels = [r for r in TZ_MODULES if r in repo.modules]
    ctx.require(TEMPLATES in rels and SERMOD in rels, "codec modules vanished")
    n = 0
    checked_cls: Dict[str, bool] = {}
    zone_dep: Dict[str, Tuple[ClassInfo, FuncInfo, ast.AST]] = {}
    for fi, node, kind, ok, msg in tzlint.tz_sites(repo, rels):
        n += 1
        mod = fi.module if fi is not None else None
        where = f"{mod.rel}:{node.lineno}" if mod is not None else f"?:{node.lineno}"
        if not ok and fi is not None and fi.cls is not None and fi.name in ("decode", "encode") \
                and _is_subclass(repo, fi.cls, "Adapter"):
            # a codec pair whose decode() verifies its own text with encode() is zone-proof by construction:
            # whatever the local zone does to the text, only a text that means the stamp is handed out
            zone_dep.setdefault(fi.cls.qual, (fi.cls, fi, node))
            if fi.cls.qual not in checked_cls:
                checked_cls[fi.cls.qual] = _self_checking_decode(repo, fi.cls)
            if checked_cls[fi.cls.qual]:
                ok = True
                msg = ("zone-dependent text, but decode() only hands it out after encode() mapped it back to the "
                       "stamp (anything else stays a plain number)")
        ctx.ob("C09.R3", tzlint.site_key(fi, node, kind), ok, where, msg)
    ctx.rule("C09.R14", "an adapter whose text form depends on the process time zone hands the text out only after "
                        "checking that encode() maps it back to the wire value (else the plain number)")
    for q, (k, fi, node) in sorted(zone_dep.items()):
        dec = repo.lookup_method(k, "decode")
        ctx.ob("C09.R14", f"{k.name}.decode: zone-dependent text is verified against encode() before it is handed out",
               checked_cls.get(q, False), dec.where if dec is not None else ctx.w(k.module, k.node),
               f"{fi.qual} goes through local time ({norm(node)[:60]}): two stamps of a repeated DST hour print the same "
               f"text and the second re-encodes an hour early; the last local hours of year 9999 print a text encode() "
               f"cannot take - without the check the decoded value does not encode back to the wire value")
    if not zone_dep:
        ctx.ob("C09.R14", "no adapter with a zone-dependent text form", True, TEMPLATES)
    ctx.ob("C09.R3", "tzlint probe (4 flagged idioms, 3 accepted idioms) recognised", True, "hipposa/rules/c09.py")
    ctx.stats["C09.R3.date api sites"] = n


# ------------------------------------------------------------------------------------------ R4

def _dict_keys_before(repo: Repo, mod: Module, ci: Optional[ClassInfo], d: ast.Dict, value_node: ast.AST
                      ) -> Tuple[Optional[str], Optional[List[str]]]:
    """(key of the entry holding value_node, keys that precede it) for a dict literal; spreads (**X) are
    expanded through class-/module-level dict literals.  (None, None) when not analysable."""
    before: List[str] = []
    for k, v in zip(d.keys, d.values):
        if k is None:
            tgt, _ = _deref(repo, mod, ci, v)
            if not isinstance(tgt, ast.Dict):
                return None, None
            for kk in tgt.keys:
                if not (isinstance(kk, ast.Constant) and isinstance(kk.value, str)):
                    return None, None
                before.append(kk.value)
            continue
        if any(n is value_node for n in ast.walk(v)):
            if isinstance(k, ast.Constant) and isinstance(k.value, str):
                return k.value, before
            return None, None
        if isinstance(k, ast.Constant) and isinstance(k.value, str):
            before.append(k.value)
        else:
            return None, None
    return None, None


def _flat_keys(repo: Repo, mod: Module, d: ast.Dict, depth=0) -> Optional[List[str]]:
    """Keys of a dict display in insertion order with `**NAME` spreads of named dict literals expanded."""
    if depth > 6:
        return None
    out: List[str] = []
    for k, v in zip(d.keys, d.values):
        if k is None:
            tgt, tmod = _deref(repo, mod, None, v)
            if not isinstance(tgt, ast.Dict):
                return None
            sub = _flat_keys(repo, tmod, tgt, depth + 1)
            if sub is None:
                return None
            out += [x for x in sub if x not in out]
        elif isinstance(k, ast.Constant) and isinstance(k.value, str):
            if k.value not in out:
                out.append(k.value)
        else:
            return None
    return out


def _merged_befores(repo: Repo, mod: Module, container: ast.Dict, key: str, depth=0) -> Optional[List[List[str]]]:
    """When `container` is a module-level named dict literal that is spread (`**NAME`) into other dict displays of
    the module: for every outermost merged dict, the keys that precede `key` there.  None when the container is
    not spread anywhere (it is a template of its own)."""
    p = parent(container)
    if not (isinstance(p, (ast.Assign, ast.AnnAssign)) and isinstance(parent(p), ast.Module)):
        return None
    targets = p.targets if isinstance(p, ast.Assign) else [p.target]
    names = [t.id for t in targets if isinstance(t, ast.Name)]
    if len(names) != 1 or depth > 4:
        return None
    name = names[0]
    users = [d for d in walk(mod.tree, into_defs=True) if isinstance(d, ast.Dict) and
             any(k is None and isinstance(v, ast.Name) and v.id == name for k, v in zip(d.keys, d.values))]
    if not users:
        return None
    out: List[List[str]] = []
    for u in users:
        outer = _merged_befores(repo, mod, u, key, depth + 1)
        if outer is not None:
            out += outer
            continue
        keys = _flat_keys(repo, mod, u)
        if keys is None or key not in keys:
            raise AnalysisError(f"C09.R4: {mod.rel}:{u.lineno} merged template dict not analysable")
        out.append(keys[:keys.index(key)])
    return out


def _enclosing_class(node) -> Optional[ast.ClassDef]:
    for a in ancestors(node):
        if isinstance(a, ast.ClassDef):
            return a
        if isinstance(a, FUNC_TYPES):
            return None
    return None


def _dataclass_fields_before(repo: Repo, ci: ClassInfo, stmt: ast.stmt) -> List[str]:
    out: List[str] = []
    for c in reversed(repo.mro(ci)[1:]):
        for st in c.node.body:
            if isinstance(st, ast.AnnAssign) and isinstance(st.target, ast.Name):
                out.append(st.target.id)
    for st in ci.node.body:
        if st is stmt:
            break
        if isinstance(st, ast.AnnAssign) and isinstance(st.target, ast.Name):
            out.append(st.target.id)
    return out


def _ctx_field_of_class(repo: Repo, ci: ClassInfo) -> Tuple[Optional[str], str]:
    """For an OptionalFlagged / ContextAdapter / ContextSwitch subclass whose __init__ fixes the context
    field: (field name, 'flag'|'ctx'); (None, reason) otherwise."""
    names = _mro_names(repo, ci)
    init = ci.methods.get("__init__")
    if init is None:
        return None, "no own __init__"
    sup = [c for c in calls(init.node) if ap(c.func) == "super().__init__"]
    if len(sup) != 1:
        return None, "no single super().__init__ call"
    c = sup[0]
    if "OptionalFlagged" in names:
        a = c.args[0] if c.args else kw(c, "flag_field")
        if isinstance(a, ast.Constant) and isinstance(a.value, str):
            return a.value, "flag"
        return None, "flag field not literal"
    a = c.args[0] if c.args else kw(c, "fun")
    return _field_of_fun(repo, ci.module, a), "ctx"


def _field_of_fun(repo: Repo, mod: Module, fun: Optional[ast.AST]) -> Optional[str]:
    """The one sibling field a selector lambda reads: `lambda ctx: ctx.X`, `lambda ctx: ctx["X"]`, or any expression
    over exactly one such field (`E[ctx.X] if isinstance(ctx.X, str) else ctx.X`).  None for anything else (several
    fields, ctx._root..., the bare ctx passed on)."""
    if not (isinstance(fun, ast.Lambda) and len(fun.args.args) == 1):
        return None
    p = fun.args.args[0].arg
    fields = set()
    other = False
    for n in ast.walk(fun.body):
        if isinstance(n, ast.Attribute) and isinstance(n.value, ast.Name) and n.value.id == p:
            if n.attr.startswith("_"):
                other = True
            else:
                fields.add(n.attr)
        elif isinstance(n, ast.Subscript) and isinstance(n.value, ast.Name) and n.value.id == p:
            if isinstance(n.slice, ast.Constant) and isinstance(n.slice.value, str):
                fields.add(n.slice.value)
            else:
                other = True
        elif isinstance(n, ast.Name) and n.id == p and not isinstance(parent_of(n, fun.body), (ast.Attribute, ast.Subscript)):
            other = True
    if other or len(fields) != 1:
        return None
    return next(iter(fields))


def parent_of(node: ast.AST, root: ast.AST) -> Optional[ast.AST]:
    pr = parent(node)
    if pr is not None:
        return pr
    for n in ast.walk(root):
        for ch in ast.iter_child_nodes(n):
            if ch is node:
                return n
    return None


_VARIABLE_SPECS = ("CStr", "Str", "ByteArray", "BytesGreedy", "BytesTerminated", "Collection", "TypedByteArray",
                   "TypedBytesGreedy", "TypedBytesTerminated", "BinaryLLSD", "OptionalPrefixed", "OptionalFlagged",
                   "IfPresent", "LengthSwitch", "NumPyArray")


def _template_shape(repo: Repo, mod: Module, owner: Optional[ClassInfo], node: ast.AST):
    """(keys in order, may-be-fixed-size) of a TEMPLATES row: se.Template({...}) / se.Dataclass(X); None for
    UNSERIALIZABLE rows; raises when the row cannot be read."""
    node, m2 = _deref(repo, mod, owner, node)
    if isinstance(node, ast.Attribute) and node.attr == "UNSERIALIZABLE" or isinstance(node, ast.Name) and node.id == "UNSERIALIZABLE":
        return None
    if isinstance(node, ast.Call):
        k = _resolve_cls(repo, m2, node.func)
        if k is not None and k.name == "Template" and node.args:
            d, m3 = _deref(repo, m2, owner, node.args[0])
            if isinstance(d, ast.Dict):
                keys = _flat_keys(repo, m3, d)
                if keys is not None:
                    variable = any(isinstance(x, (ast.Name, ast.Attribute)) and (ap(x) or "").split(".")[-1] in _VARIABLE_SPECS
                                   for v in d.values for x in ast.walk(v))
                    return keys, not variable
        if k is not None and k.name == "Dataclass" and node.args:
            dc = _resolve_cls(repo, m2, node.args[0])
            if dc is not None:
                keys = [st.target.id for c in reversed(repo.mro(dc)) for st in c.node.body
                        if isinstance(st, ast.AnnAssign) and isinstance(st.target, ast.Name)]
                variable = any(isinstance(x, (ast.Name, ast.Attribute)) and (ap(x) or "").split(".")[-1] in _VARIABLE_SPECS
                               for c in repo.mro(dc) for x in ast.walk(c.node))
                return keys, not variable
    if isinstance(node, ast.Call):
        return None        # a non-mapping spec (Collection, adapter, ...): its value has no keys that could nest
    raise AnalysisError(f"C09.R4: TEMPLATES row {norm(node)} of a non-strict switched serializer is not analysable")


def _strict_mode_check(ctx, ci: ClassInfo, towner: ClassInfo, tdict: ast.Dict, tmod: Module):
    """Non-strict mode: a payload the flagged template rejects is decoded with the template guessed from its
    SIZE, while encoding keeps the flagged template as long as it does not raise - and Template.serialize ignores
    surplus keys.  So if the flagged template A's keys are contained in those of another, size-guessable template
    B, a B-sized payload decodes as B and re-encodes (truncated) as A.  Strict serializers reject such payloads."""
    repo = ctx.repo
    snode, sowner = _class_attr_node(repo, ci, "STRICT")
    strict = ConstEval(repo, sowner.module).ev(snode) if snode is not None else True
    where = ctx.w(sowner.module if sowner else ci.module, snode if snode is not None else ci.node)
    if strict is True:
        ctx.ob("C09.R4", f"{ci.name}: template choice agrees between decode and encode", True, where, "strict mode")
        return
    if strict is not False:
        raise AnalysisError(f"C09.R4: {ci.name}.STRICT is not a boolean constant")
    shapes = []
    seen_nodes = set()
    for v in tdict.values:
        tgt, _ = _deref(repo, tmod, towner, v)
        if id(tgt) in seen_nodes:
            continue
        seen_nodes.add(id(tgt))
        sh = _template_shape(repo, tmod, towner, v)
        if sh is not None:
            shapes.append((norm(v)[:60], sh[0], sh[1]))
    clash = [(a, b) for a, ka, _ in shapes for b, kb, fixed_b in shapes
             if a != b and fixed_b and set(ka) <= set(kb) and ka != kb]
    ctx.ob("C09.R4", f"{ci.name}: template choice agrees between decode and encode", not clash, where,
           f"STRICT = False: decode guesses the template from the payload size but encode keeps the flagged one; the "
           f"keys of {clash[0][0] if clash else ''} are contained in those of the size-guessable "
           f"{clash[0][1] if clash else ''}, so such a payload decodes with the larger template and re-encodes "
           f"truncated with the flagged one")


def r4(ctx, regs: List[Reg], tmpl):
    repo = ctx.repo
    ctx.rule("C09.R4", "switch fields exist and precede: ENUM_FIELD/FLAG_FIELD name a sibling template variable; "
                       "flag/context fields of OptionalFlagged/ContextAdapter specs occur earlier in the enclosing "
                       "Template dict / dataclass; switch-table keys are enum members")
    by_cls: Dict[ClassInfo, List[Reg]] = {}
    for r in regs:
        if r.kind == "subfield":
            by_cls.setdefault(r.cls, []).append(r)

    # (a) switched subfield serializers
    nsw = 0
    for ci, rs in by_cls.items():
        names = _mro_names(repo, ci)
        for base, attr in (("EnumSwitchedSubfieldSerializer", "ENUM_FIELD"), ("FlagSwitchedSubfieldSerializer", "FLAG_FIELD")):
            if base not in names:
                continue
            node, owner = _class_attr_node(repo, ci, attr)
            val = ConstEval(repo, owner.module).ev(node) if node is not None else None
            where = ctx.w(ci.module, node if node is not None else ci.node)
            if not isinstance(val, str):
                ctx.ob("C09.R4", f"{ci.name}.{attr} is a field name", False, where,
                       f"{attr} = {norm(node) if node is not None else 'missing'}: the switch has no field to read")
                continue
            for r in rs:
                m = tmpl.get(r.msg)
                b = m.block(r.block) if m else None
                if b is None or b.var(r.var) is None:
                    continue
                nsw += 1
                sib = b.var(val)
                ctx.ob("C09.R4", f"{ci.name} on {r.msg}.{r.block}: switch field {attr}", sib is not None and val != r.var
                       and sib.type in INT_TYPES, where,
                       f"{attr}={val!r}: " + ("no such variable in the block" if sib is None else
                                              f"variable type {sib.type} / same variable") +
                       f" (block has {[v.name for v in b.vars][:12]})")
            # TEMPLATES keys are enum members
            tnode, towner = _class_attr_node(repo, ci, "TEMPLATES")
            if tnode is None:
                ctx.ob("C09.R4", f"{ci.name}.TEMPLATES present", False, ctx.w(ci.module, ci.node), "no TEMPLATES table")
                continue
            tnode2, tmod = _deref(repo, towner.module, towner, tnode)
            if not isinstance(tnode2, ast.Dict):
                raise AnalysisError(f"C09.R4: {ci.name}.TEMPLATES is not a dict literal ({norm(tnode)})")
            env = _class_env(repo, towner) if tmod is towner.module else {}
            ev = ConstEval(repo, tmod)
            badk = []
            for k in tnode2.keys:
                kv = ev.ev(k, env) if k is not None else None
                if not isinstance(kv, EnumVal):
                    badk.append(norm(k) if k is not None else "**spread")
            ctx.ob("C09.R4", f"{ci.name}.TEMPLATES keys are enum members", not badk, ctx.w(tmod, tnode2),
                   f"keys {badk[:5]} do not resolve to members of an enum class")
            if base == "EnumSwitchedSubfieldSerializer":
                _strict_mode_check(ctx, ci, towner, tnode2, tmod)
    ctx.floor("C09.R4", "switched serializer registrations", nsw, 3)

    # (b) context-dependent specs inside templates / dataclasses / registered adapters
    ctxcls: Dict[ClassInfo, Tuple[Optional[str], str]] = {}
    for lst in repo.classes.values():
        for ci in lst:
            names = _mro_names(repo, ci)
            if ci.module.rel == SERMOD and ci.name in ("OptionalFlagged", "ContextAdapter", "ContextSwitch"):
                continue
            if any(_is_subclass(repo, ci, b) for b in ("OptionalFlagged", "ContextAdapter", "ContextSwitch")):
                ctxcls[ci] = _ctx_field_of_class(repo, ci)
    nctx = 0
    for mod in repo.modules.values():
        for c in calls(mod.tree, into_defs=True):
            ci = _resolve_cls(repo, mod, c.func)
            if ci is None:
                continue
            field, kind = None, None
            if ci in ctxcls:
                field, kind = ctxcls[ci]
                if field is None:
                    if kind not in ("flag", "ctx"):
                        ctx.note(f"C09.R4: context field of {ci.name} not literal ({kind}); instances not checked")
                    else:
                        ctx.note(f"C09.R4: {ci.name} selects on a non-sibling context expression; not checked")
                    continue
            elif ci.module.rel == SERMOD and ci.name == "OptionalFlagged":
                a = c.args[0] if c.args else kw(c, "flag_field")
                if not (isinstance(a, ast.Constant) and isinstance(a.value, str)):
                    if _enclosing_class(c) is not None and _enclosing_class(c).name == "OptionalFlagged":
                        continue
                    raise AnalysisError(f"C09.R4: {mod.rel}:{c.lineno} OptionalFlagged with a non-literal flag field")
                field, kind = a.value, "flag"
            elif ci.module.rel == SERMOD and ci.name in ("ContextAdapter", "ContextSwitch"):
                a = c.args[0] if c.args else kw(c, "fun")
                field, kind = _field_of_fun(repo, mod, a), "ctx"
                if field is None:
                    ctx.note(f"C09.R4: {mod.rel}:{c.lineno} {ci.name} selects through {norm(a) if a is not None else '?'} "
                             f"(not a sibling-field lambda); not checked")
                    continue
            else:
                continue
            # calls inside the defining class hierarchy's own methods (super().__init__ plumbing) are not instances
            if any(isinstance(a, FUNC_TYPES) for a in ancestors(c)):
                continue
            nctx += 1
            where = ctx.w(mod, c)
            encl_cls_node = _enclosing_class(c)
            encl_ci = _class_of(repo, encl_cls_node, mod) if encl_cls_node is not None else None
            # nearest dict literal in which the call is (part of) a value
            container = None
            for a in ancestors(c):
                if isinstance(a, ast.Dict):
                    container = a
                    break
                if isinstance(a, (ast.stmt,)):
                    container = a
                    break
            if isinstance(container, ast.Dict):
                key, before = _dict_keys_before(repo, mod, encl_ci, container, c)
                if key is None:
                    raise AnalysisError(f"C09.R4: {where} enclosing template dict of {norm(c)} not analysable")
                # a section table that is merged into larger template dicts (`{**HEADER, **SECTION, ...}`): the
                # keys parsed before `key` are those of the merged dict, in merge order
                merged = _merged_befores(repo, mod, container, key)
                if merged is not None:
                    ok_all = all(field in lst for lst in merged)
                    shown = merged[0] if merged else []
                    ctx.ob("C09.R4", f"{mod.name.split('.')[-1]}: {key!r}: {ci.name} field {field!r} precedes it in its "
                                     f"template", ok_all, where,
                           f"{kind} field {field!r} is read from the values parsed so far; keys before {key!r} in the "
                           f"merged template: {shown[-8:]}")
                    continue
                ctx.ob("C09.R4", f"{mod.name.split('.')[-1]}: {key!r}: {ci.name} field {field!r} precedes it in its "
                                 f"template", field in before, where,
                       f"{kind} field {field!r} is read from the values parsed so far; keys before {key!r}: {before[-8:]}")
            elif isinstance(container, ast.AnnAssign) and encl_ci is not None and isinstance(container.target, ast.Name):
                before = _dataclass_fields_before(repo, encl_ci, container)
                ctx.ob("C09.R4", f"{encl_ci.name}.{container.target.id}: {ci.name} field {field!r} precedes it in the "
                                 f"dataclass", field in before, where,
                       f"{kind} field {field!r} must be an earlier dataclass field; earlier fields: {before[-8:]}")
            elif isinstance(container, ast.Assign) and encl_ci is not None and \
                    any(isinstance(t, ast.Name) and t.id == "ADAPTER" for t in container.targets):
                # adapter of a registered AdapterSubfieldSerializer: context is the message block
                rs = by_cls.get(encl_ci, [])
                for r in rs:
                    m = tmpl.get(r.msg)
                    b = m.block(r.block) if m else None
                    if b is None or b.var(r.var) is None:
                        continue
                    ctx.ob("C09.R4", f"{encl_ci.name} on {r.msg}.{r.block}: {ci.name} field {field!r} is a sibling "
                                     f"variable", b.var(field) is not None and field != r.var, where,
                           f"context field {field!r} is looked up in the message block; block has "
                           f"{[v.name for v in b.vars][:12]}")
                if not rs:
                    ctx.note(f"C09.R4: {where} {ci.name} bound to an unregistered ADAPTER; not checked")
            else:
                ctx.note(f"C09.R4: {where} {norm(c)} is not directly inside a template dict / dataclass field; "
                         f"field order not checked")
    ctx.floor("C09.R4", "context-dependent spec instances", nctx, 10)

    # (c) EnumSwitch(IntEnum(E, ..), {keys}) keys are members
    nes = 0
    for mod in repo.modules.values():
        if mod.rel == SERMOD:
            continue
        for c in calls(mod.tree, into_defs=True):
            ci = _resolve_cls(repo, mod, c.func)
            if ci is None or ci.module.rel != SERMOD or ci.name not in ("EnumSwitch", "FlagSwitch"):
                continue
            nes += 1
            d = c.args[1] if len(c.args) > 1 else kw(c, "choice_specs")
            keys: Optional[List[ast.AST]] = None
            kmod = mod
            if isinstance(d, ast.Dict):
                keys = list(d.keys)
            elif isinstance(d, ast.DictComp) and len(d.generators) == 1:
                it = d.generators[0].iter
                if isinstance(it, ast.Call) and isinstance(it.func, ast.Attribute) and it.func.attr in ("items", "keys") \
                        and isinstance(d.key, ast.Name):
                    tgt = d.generators[0].target
                    first = tgt.elts[0] if isinstance(tgt, ast.Tuple) else tgt
                    if isinstance(first, ast.Name) and first.id == d.key.id:
                        src_d, kmod = _deref(repo, mod, None, it.func.value)
                        if isinstance(src_d, ast.Dict):
                            keys = list(src_d.keys)
            if keys is None:
                raise AnalysisError(f"C09.R4: {mod.rel}:{c.lineno} switch table of {norm(c.func)} not analysable")
            ev = ConstEval(repo, kmod)
            badk = [norm(k) if k is not None else "**" for k in keys if k is None or not isinstance(ev.ev(k), EnumVal)]
            ctx.ob("C09.R4", f"{mod.name.split('.')[-1]}: {ci.name}({norm(c.args[0]) if c.args else ''}) keys are enum "
                             f"members", not badk, ctx.w(mod, c), f"keys {badk[:5]} are not members of an enum class")
    ctx.stats["C09.R4.EnumSwitch tables"] = nes


# ------------------------------------------------------------------------------------------ R5

class _CacheModel:
    """Where Block keeps decoded values: the attribute(s) deserialize_var tests for a hit, seen through forwarding
    properties (`return self._x.y`) and through a collaborator object the constructor stores in the attribute
    (its methods are classified by what they do to their own containers)."""

    _INVAL = ("pop", "clear", "popitem")
    _FILL = ("setdefault", "update")

    def __init__(self, repo: Repo, blk: ClassInfo):
        self.repo, self.blk = repo, blk
        self.alias: Dict[str, str] = {}
        for k in repo.mro(blk):
            for f in k.methods.values():
                if any((ap(d) or "").split(".")[-1] in ("property", "cached_property") for d in f.node.decorator_list):
                    rets = [n for n in walk(f.node) if isinstance(n, ast.Return) and n.value is not None]
                    if len(rets) == 1:
                        p = ap(rets[0].value) or ""
                        if p.startswith("self.") and "(" not in p:
                            self.alias.setdefault(f.name, p.split(".")[1].replace("[]", ""))
        dv = repo.lookup_method(blk, "deserialize_var")
        if dv is None:
            raise AnalysisError("Block.deserialize_var vanished")
        self.roots: Set[str] = set()
        for g in class_methods_reachable(repo, dv, depth=2):
            for n in walk(g.node, into_defs=True):
                if isinstance(n, ast.Compare) and len(n.ops) == 1 and isinstance(n.ops[0], (ast.In, ast.NotIn)):
                    p = ap(n.comparators[0]) or ""
                    if p.startswith("self.") and p.count(".") >= 1:
                        attr = p.split(".")[1].replace("[]", "").replace("()", "")
                        if attr != "vars":
                            self.roots.add(self.alias.get(attr, attr))
        # ... or fills / reads by subscript (try: cache[k] except KeyError), or asks a collaborator object that
        # the constructor stored on self
        init0 = repo.lookup_method(blk, "__init__")
        constructed = set()
        if init0 is not None:
            for st in stores(init0.node):
                if st.kind == "assign" and st.path.startswith("self.") and st.path.count(".") == 1 \
                        and isinstance(st.value, ast.Call) and _resolve_cls(repo, init0.module, st.value.func) is not None:
                    constructed.add(st.path.split(".")[1])
        for g in class_methods_reachable(repo, dv, depth=2):
            for st in stores(g.node, into_defs=True):
                if st.path.startswith("self.") and st.path.count(".") == 1 and \
                        (st.kind in ("setitem", "augsetitem") or (st.kind == "mutcall" and st.method in self._FILL)):
                    attr = st.path.split(".")[1]
                    if attr != "vars":
                        self.roots.add(self.alias.get(attr, attr))
            for c in calls(g.node, into_defs=True):
                if isinstance(c.func, ast.Attribute):
                    p = ap(c.func.value) or ""
                    if p.startswith("self.") and p.count(".") == 1:
                        attr = self.alias.get(p.split(".")[1], p.split(".")[1])
                        if attr in constructed:
                            self.roots.add(attr)
        if not self.roots:
            raise AnalysisError("C09.R5: Block.deserialize_var neither tests nor fills a cache any more (cache not found)")
        self.collab: Dict[str, ClassInfo] = {}
        init = repo.lookup_method(blk, "__init__")
        if init is not None:
            for st in stores(init.node):
                if st.kind == "assign" and st.path.startswith("self.") and isinstance(st.value, ast.Call):
                    attr = st.path.split(".")[1]
                    k = _resolve_cls(repo, init.module, st.value.func)
                    if attr in self.roots and k is not None:
                        self.collab[attr] = k
        self._mcache: Dict[str, Optional[str]] = {}

    def root_of(self, path: Optional[str]) -> Optional[str]:
        if not path or not path.startswith("self."):
            return None
        attr = path.split(".")[1].replace("[]", "").replace("()", "")
        attr = self.alias.get(attr, attr)
        return attr if attr in self.roots else None

    def _method_kind(self, root: str, name: str) -> Optional[str]:
        key = f"{root}.{name}"
        if key in self._mcache:
            return self._mcache[key]
        kind = None
        k = self.collab.get(root)
        m = self.repo.lookup_method(k, name) if k is not None else None
        if m is not None:
            kinds = set()
            for g in class_methods_reachable(self.repo, m, depth=2):
                for st in stores(g.node, into_defs=True):
                    if not st.path.startswith("self."):
                        continue
                    if st.kind in ("setitem", "augsetitem") or (st.kind == "mutcall" and st.method in self._FILL):
                        kinds.add("store")
                    elif (st.kind == "mutcall" and st.method == "clear") or st.kind == "assign":
                        kinds.add("inval-all")
                    elif st.kind == "delitem" or (st.kind == "mutcall" and st.method in self._INVAL):
                        kinds.add("inval")
            kind = "store" if "store" in kinds else "inval-all" if "inval-all" in kinds else "inval" if "inval" in kinds else None
        self._mcache[key] = kind
        return kind

    def ops(self, f: FuncInfo, _depth: int = 0) -> List[Tuple[ast.AST, str, ast.AST]]:
        """(statement, 'inval'|'store', node) for every cache operation in f."""
        out = []
        seen = set()
        for st in stores(f.node, into_defs=True):
            root = self.root_of(st.path)
            if root is None:
                continue
            kind = None
            if st.kind in ("setitem", "augsetitem") or (st.kind == "mutcall" and st.method in self._FILL):
                kind = "store"
            elif (st.kind == "mutcall" and st.method == "clear") or (st.kind == "assign" and st.path.count(".") == 1):
                kind = "inval-all"
            elif st.kind == "delitem" or (st.kind == "mutcall" and st.method in self._INVAL) or st.kind == "assign":
                kind = "inval"
            if kind:
                out.append((enclosing_stmt(st.node), kind, st.target if st.kind != "mutcall" else st.node.func))
                seen.add(id(st.node))
        for c in calls(f.node, into_defs=True):
            if id(c) in seen or not isinstance(c.func, ast.Attribute):
                continue
            if isinstance(c.func.value, ast.Name) and c.func.value.id == "self" and _depth < 2:
                m = self.repo.lookup_method(self.blk, c.func.attr)
                if m is not None and m is not f and m.name not in ("__setitem__", "serialize_var", "deserialize_var"):
                    for _stmt, kind, _node in self.ops(m, _depth + 1):
                        out.append((enclosing_stmt(c), kind, c.func))
                continue
            root = self.root_of(ap(c.func.value))
            if root is None or (ap(c.func.value) or "").count(".") != 1:
                continue
            kind = self._method_kind(root, c.func.attr)
            if kind:
                out.append((enclosing_stmt(c), kind, c.func))
        return out

    def membership_test(self, t: ast.AST) -> bool:
        return isinstance(t, ast.Compare) and len(t.ops) == 1 and isinstance(t.ops[0], (ast.In, ast.NotIn)) \
            and self.root_of(ap(t.comparators[0])) is not None

    def emptiness_test(self, t: ast.AST) -> bool:
        """truth value of the cache itself (`if self._ser_cache:` / `if not self._ser_cache: return`)"""
        p = ap(t)
        return p is not None and p.count(".") == 1 and "(" not in p and self.root_of(p) is not None


def r5(ctx):
    repo = ctx.repo
    ctx.rule("C09.R5", "Block cache coherence: every raw store into Block.vars is accompanied by dropping the "
                       "_ser_cache entry; serialize_var never leaves a cache entry without the matching raw store")
    blk = repo.cls("Block", MSGMOD)
    cm = _CacheModel(repo, blk)
    ctx.stats["C09.R5.cache roots"] = sorted(cm.roots)
    # (a) raw stores
    nraw = 0
    for name, f in blk.methods.items():
        if name == "__init__":
            continue
        sts = stores(f.node, into_defs=True)
        raw = [s for s in sts if s.path == "self.vars" and s.kind in ("setitem", "augsetitem")]
        if not raw:
            continue
        cfg = CFG(f.node)
        inval_stmts = {id(stmt) for stmt, kind, _ in cm.ops(f) if kind in ("inval", "inval-all")}
        all_nodes_ids = {id(stmt) for stmt, kind, _ in cm.ops(f) if kind == "inval-all"}
        inval_nodes = {n for n in cfg.nodes if n.ast is not None and id(n.ast) in inval_stmts}
        # a membership test of the cache discharges as well when its "present" side leads to the drop
        # (`if key in cache: pop` / `if key not in cache: return` ... pop): an absent entry needs no drop
        for a in walk(f.node, into_defs=True):
            if not isinstance(a, ast.If):
                continue
            t, neg = a.test, False
            if isinstance(t, ast.UnaryOp) and isinstance(t.op, ast.Not):
                t, neg = t.operand, True
            if cm.membership_test(t):
                present_in_body = isinstance(t.ops[0], ast.In) != neg
            elif cm.emptiness_test(t):
                present_in_body = not neg
            else:
                continue
            from ..core import always_exits, _block_of
            if present_in_body:
                side = a.body
            elif a.orelse:
                side = a.orelse
            elif always_exits(a.body):
                block, _ = _block_of(a)
                side = block[[i for i, x in enumerate(block) if x is a][0] + 1:] if block else []
            else:
                side = []
            if any(id(y) in inval_stmts for x in side for y in ast.walk(x)):
                for n in cfg.nodes_for(a):
                    inval_nodes.add(n)
            if cm.emptiness_test(t) and any(id(y) in all_nodes_ids for x in side for y in ast.walk(x)):
                all_nodes_ids.add(id(a))         # an empty cache needs no clearing
        for s in raw:
            nraw += 1
            stmt = enclosing_stmt(s.node)
            ok = True
            wit = None
            for n in [x for x in cfg.nodes if x.ast is stmt]:
                after = cfg.path_exists([n], lambda x: x is cfg.exit, avoid=lambda x: x in inval_nodes, exc=False)
                if after is None:
                    continue
                # a path to the exit without invalidation after the store: accept only if invalidation dominates it
                reach = cfg.reachable([cfg.entry], avoid=lambda x: x in inval_nodes, exc=False)
                if n in reach:
                    ok = False
                    wit = cfg.witness_path(n, lambda x: x is cfg.exit, avoid=lambda x: x in inval_nodes, exc=False)
            ctx.ob("C09.R5", f"{f.qual}: raw store {norm(s.target)} drops the cached decoded value", ok, ctx.w(f, s.node),
                   "a path stores a new raw value and returns with the old decoded value still cached: "
                   "deserialize_var would keep answering with the stale object",
                   path=cfg.describe_path(wit) if wit else None)
            # ... and of every other variable: a decoded form may have been selected by this one (ENUM_FIELD /
            # FLAG_FIELD / ctx.<sibling>), so only a whole-cache invalidation keeps deserialize_var truthful
            whole_nodes = {n for n in cfg.nodes if n.ast is not None and id(n.ast) in all_nodes_ids}
            ok2 = True
            for n in [x for x in cfg.nodes if x.ast is stmt]:
                after = cfg.path_exists([n], lambda x: x is cfg.exit, avoid=lambda x: x in whole_nodes, exc=False)
                if after is not None and n in cfg.reachable([cfg.entry], avoid=lambda x: x in whole_nodes, exc=False):
                    ok2 = False
            ctx.ob("C09.R5", f"{f.qual}: raw store {norm(s.target)} drops the decoded values of the whole block", ok2,
                   ctx.w(f, s.node),
                   "only the assigned variable's cache entry is dropped, but the decoded form of other variables can have "
                   "been selected by it (PCode -> State, Type -> TypeData, ParamType -> ParamData): deserialize_var keeps "
                   "answering with a value decoded under the old selector, and serialize_var(deserialize_var()) rewrites "
                   "the untouched wire value")
    ctx.floor("C09.R5", "raw stores into Block.vars", nraw, 1)
    # raw stores from outside the class bypass the cache
    for f in repo.all_funcs:
        if f.parent_fn is not None or f.cls == blk:
            continue
        for s in stores(f.node, into_defs=True):
            if s.path.endswith(".vars") and s.path != "self.vars" and s.kind in ("setitem", "augsetitem", "delitem") \
                    and f.module.rel.startswith("hippolyzer/lib/base/message/"):
                ctx.ob("C09.R5", f"{f.qual}: store {norm(s.target)} bypasses Block.__setitem__", False, ctx.w(f, s.node),
                       "raw value changed without invalidating the block's decoded-value cache")

    # (b) serialize_var
    sv = repo.lookup_method(blk, "serialize_var")
    ctx.require(sv is not None, "Block.serialize_var vanished")
    cfg = CFG(sv.node)
    sts = stores(sv.node, into_defs=True)
    ops = cm.ops(sv)
    cache_st = [(stmt, node) for stmt, kind, node in ops if kind == "store"]
    raw_st = [s for s in sts if (s.path == "self" and s.kind == "setitem") or (s.path == "self.vars" and s.kind == "setitem")]
    ctx.ob("C09.R5", "Block.serialize_var stores the raw serialized value", bool(raw_st), sv.where,
           "no store of the serialized value into the block")
    raw_nodes = {n for n in cfg.nodes for s in raw_st if n.ast is enclosing_stmt(s.node)}
    inval = {n for n in cfg.nodes for stmt, kind, _ in ops if kind in ("inval", "inval-all") and n.ast is stmt}
    for stmt, node in cache_st:
        cnodes = [n for n in cfg.nodes if n.ast is stmt]
        ok = True
        wit = None
        reach = cfg.reachable([cfg.entry], avoid=lambda x: x in raw_nodes, exc=False)
        for n in cnodes:
            if n not in reach:
                continue   # raw store dominates the cache store
            w = cfg.witness_path(n, lambda x: x is cfg.exit or x is cfg.raise_exit,
                                 avoid=lambda x: x in raw_nodes or x in inval, exc=True)
            if w is not None:
                ok, wit = False, w
        ctx.ob("C09.R5", f"Block.serialize_var: cache store {norm(node)} always paired with the raw store", ok,
               ctx.w(sv, stmt),
               "a path (possibly exceptional) leaves the decoded value cached although the matching raw value was "
               "never stored", path=cfg.describe_path(wit) if wit else None)
    if not cache_st:
        ctx.note("C09.R5: Block.serialize_var does not fill the cache (only a performance loss)")


# ------------------------------------------------------------------------------------------ R6

_POD_DELEGATES = ("decode", "deserialize", "_deserialize_template", "_try_all_templates")
_POD_READERS = ("BufferReader", "FHReader")


def r6(ctx):
    """Plain-data form: a decoder that is asked for the pod form and delegates to another decoder (wrapped
    adapter, chosen option, template reader) must hand the pod flag on, otherwise the inner value comes back
    in object form inside a plain-data result."""
    repo = ctx.repo
    ctx.rule("C09.R6", "pod flag forwarded: every decode/deserialize with a `pod` parameter passes it to the "
                       "decoder / reader it delegates to")
    n = 0
    for f in repo.all_funcs:
        if f.parent_fn is not None or not f.module.rel.startswith("hippolyzer/lib/base/"):
            continue
        a = f.node.args
        params = [x.arg for x in a.args + a.kwonlyargs + a.posonlyargs]
        if "pod" not in params:
            continue
        ctx_params = {p for p in params if p in ("ctx", "ctx_obj")}
        for c in calls(f.node, into_defs=True):
            last = c.func.attr if isinstance(c.func, ast.Attribute) else (c.func.id if isinstance(c.func, ast.Name) else None)
            if last in _POD_DELEGATES:
                if last == "decode":
                    passes_ctx = kw(c, "ctx") is not None or any(
                        isinstance(x, ast.Name) and x.id in ctx_params for arg in c.args for x in ast.walk(arg))
                    if not passes_ctx:
                        continue        # bytes.decode(...) and the like
            elif last not in _POD_READERS:
                continue
            if any(k.arg is None for k in c.keywords):
                continue                # **kwargs pass-through: not decidable here
            n += 1
            vals = list(c.args) + [k.value for k in c.keywords]
            podnames = {"pod"} | {s_.path for s_ in stores(f.node, into_defs=True)
                                  if s_.kind == "assign" and s_.value is not None and "." not in s_.path
                                  and any(isinstance(x, ast.Name) and x.id == "pod" for x in ast.walk(s_.value))}
            ok = any(isinstance(x, ast.Name) and x.id in podnames for v in vals for x in ast.walk(v))
            pk = kw(c, "pod")
            if not ok and isinstance(pk, ast.Constant) and isinstance(pk.value, bool):
                # `if pod: ... decode(..., pod=True)`: the constant agrees with a dominating test of pod
                ok = any(ap(e) == "pod" and pol == pk.value for e, pol in facts(c, f.node))
            ctx.ob("C09.R6", f"{f.qual}: {ap(c.func) or last}(...) receives pod", ok, ctx.w(f, c),
                   f"`{norm(c)}` drops the pod flag: the delegated decoder answers in object form (enum members, "
                   f"dataclasses) although plain data was asked for, so the printed form no longer evaluates back")
    ctx.floor("C09.R6", "pod delegation sites", n, 8)


# ------------------------------------------------------------------------------------------ R7

_STR_TRANSFORMS = ("strip", "rstrip", "lstrip", "lower", "upper", "title", "capitalize", "casefold", "replace", "expandtabs",
                   "removeprefix", "removesuffix", "ljust", "rjust", "center", "zfill", "swapcase", "translate")


def _spec_terminators(repo: Repo, mod: Module, node: ast.AST) -> Optional[Set[str]]:
    """Terminator characters of a CStr(terminators=(b" ", ...)) spec expression (through names / small field
    helpers); None when not resolvable."""
    node, m2 = _deref(repo, mod, None, node)
    if not isinstance(node, ast.Call):
        return None
    t = kw(node, "terminators")
    if t is not None:
        v = ConstEval(repo, m2).ev(t)
        if isinstance(v, (tuple, list)) and all(isinstance(x, bytes) for x in v):
            return {x.decode("latin1") for x in v}
        return None
    for a in list(node.args) + [k.value for k in node.keywords]:
        r = _spec_terminators(repo, m2, a)
        if r is not None:
            return r
    # field helper defined in the module: follow its return expression
    if isinstance(node.func, ast.Name):
        for f in repo.funcs.get(node.func.id, []):
            if f.module is m2 and f.cls is None:
                for rt in [n for n in walk(f.node) if isinstance(n, ast.Return) and n.value is not None]:
                    r = _spec_terminators(repo, m2, rt.value)
                    if r is not None:
                        return r
    return None


def r7(ctx):
    """Plain-data form built by str(<dataclass>) and written back verbatim: __str__ is the second implementation
    of the wire grammar and has to agree with the field table."""
    repo = ctx.repo
    ctx.rule("C09.R7", "a dataclass whose str() is handed out as the plain-data form (and written back verbatim) "
                       "renders exactly its serialized fields, in template order, joined by one terminator "
                       "character, with no trimming or case folding of the result")
    builders = []
    for f in repo.all_funcs:
        if f.parent_fn is not None or not f.module.rel.startswith("hippolyzer/lib/base/") or f.name != "deserialize":
            continue
        for c in calls(f.node, into_defs=True):
            if ap(c.func) == "str" and len(c.args) == 1 and isinstance(c.args[0], ast.Call):
                k = _resolve_cls(repo, f.module, c.args[0].func)
                if k is not None and "__str__" in k.methods and any(
                        isinstance(st, ast.AnnAssign) and isinstance(st.value, ast.Call) for st in k.node.body):
                    if any(ap(e) is not None and ap(e).endswith("pod") for e, pol in facts(c, f.node) if pol):
                        builders.append((f, c, k))
    ctx.stats["C09.R7.pod-string builders"] = len(builders)
    if not builders:
        ctx.note("C09.R7: no deserialize hands out str(<dataclass>) as its plain-data form any more; nothing to check")
        ctx.ob("C09.R7", "no str()-built plain-data form in the codec modules", True, "hippolyzer/lib/base")
        return
    for f, c, k in builders:
        sf = k.methods["__str__"]
        where = sf.where
        fields = []
        for st in k.node.body:
            if isinstance(st, ast.AnnAssign) and isinstance(st.target, ast.Name) and isinstance(st.value, ast.Call):
                fields.append((st.target.id, st.value))
        rets = [n for n in walk(sf.node) if isinstance(n, ast.Return) and n.value is not None]
        tag = f"{k.name}.__str__ (plain-data form of {f.qual})"
        if len(rets) != 1:
            ctx.note(f"C09.R7: {where} {k.name}.__str__ has {len(rets)} return statements; shape not checked")
            ctx.ob("C09.R7", f"{tag}: shape recognised", True, where, "not a single-expression __str__")
            continue
        e = rets[0].value
        transforms = []
        while isinstance(e, ast.Call) and isinstance(e.func, ast.Attribute) and e.func.attr in _STR_TRANSFORMS:
            transforms.append(e.func.attr)
            e = e.func.value
        parts: Optional[List[Tuple[str, object]]] = None      # ('field', name) / ('text', str)
        if isinstance(e, ast.JoinedStr):
            parts = []
            for v in e.values:
                if isinstance(v, ast.Constant) and isinstance(v.value, str):
                    parts.append(("text", v.value))
                elif isinstance(v, ast.FormattedValue) and v.conversion == -1 and v.format_spec is None \
                        and isinstance(v.value, ast.Attribute) and isinstance(v.value.value, ast.Name) \
                        and v.value.value.id == "self":
                    parts.append(("field", v.value.attr))
                else:
                    parts.append(("other", norm(v)))
        elif isinstance(e, ast.Call) and isinstance(e.func, ast.Attribute) and e.func.attr == "join" \
                and isinstance(e.func.value, ast.Constant) and isinstance(e.func.value.value, str) and len(e.args) == 1 \
                and isinstance(e.args[0], (ast.Tuple, ast.List)):
            parts = []
            for i, el in enumerate(e.args[0].elts):
                if i:
                    parts.append(("text", e.func.value.value))
                inner = el.args[0] if isinstance(el, ast.Call) and ap(el.func) == "str" and len(el.args) == 1 else el
                if isinstance(inner, ast.Attribute) and isinstance(inner.value, ast.Name) and inner.value.id == "self":
                    parts.append(("field", inner.attr))
                else:
                    parts.append(("other", norm(el)))
        if parts is None:
            ctx.note(f"C09.R7: {where} shape of {k.name}.__str__ ({norm(e)}) not recognised; agreement not checked")
            ctx.ob("C09.R7", f"{tag}: shape recognised", True, where, "unrecognised shape")
            continue
        ctx.ob("C09.R7", f"{tag}: result is not trimmed or case-folded", not transforms, where,
               f".{'/.'.join(transforms)}() is applied to the rendered text, but the plain-data encoder writes the "
               f"string back verbatim: characters of a field value that the wire grammar keeps are lost")
        got = [n for kind, n in parts if kind == "field"]
        want = [n for n, _ in fields]
        ctx.ob("C09.R7", f"{tag}: renders the serialized fields in template order", got == want and
               not any(kind == "other" for kind, _ in parts), where,
               f"__str__ renders {got}{' + ' + str([n for kd, n in parts if kd == 'other']) if any(kd == 'other' for kd, _ in parts) else ''}, "
               f"the field table is {want}")
        # separators: exactly one character, a terminator of the preceding field's spec; nothing before / after
        bad = []
        if parts and parts[0][0] == "text":
            bad.append(f"leading text {parts[0][1]!r}")
        if parts and parts[-1][0] == "text":
            bad.append(f"trailing text {parts[-1][1]!r}")
        for i, (kind, txt) in enumerate(parts):
            if kind != "text" or i == 0 or i == len(parts) - 1:
                continue
            prev = parts[i - 1]
            terms = None
            if prev[0] == "field":
                spec = next((v for n, v in fields if n == prev[1]), None)
                terms = _spec_terminators(repo, k.module, spec) if spec is not None else None
            if len(txt) != 1 or (terms is not None and txt not in terms):
                bad.append(f"separator {txt!r} after {prev[1]}" + (f" (terminators {sorted(terms)})" if terms else ""))
        for i in range(1, len(parts)):
            if parts[i][0] == "field" and parts[i - 1][0] == "field":
                bad.append(f"no separator between {parts[i - 1][1]} and {parts[i][1]}")
        ctx.ob("C09.R7", f"{tag}: fields are joined by exactly one terminator character", not bad, where,
               f"{bad[:3]}: the wire reader splits fields at the first terminator, so the string written back would "
               f"parse into different fields")


# ------------------------------------------------------------------------------------------ R8

def r8(ctx):
    """Guarded memo slots (`if self.X is not MISSING: return self.X`) feed template guessing by size: the slot is the
    'done' marker, so it may only ever hold the finished value."""
    repo = ctx.repo
    ctx.rule("C09.R8", "a memo slot tested by its own method as the 'already computed' marker is published once, "
                       "complete: no accumulation in the slot, no second store to it later on the same path")
    n = 0
    for f in repo.all_funcs:
        if f.parent_fn is not None or f.cls is None or f.module.rel not in TZ_MODULES:
            continue
        tested: Set[str] = set()
        for node in walk(f.node, into_defs=False):
            if isinstance(node, ast.Compare) and len(node.ops) == 1 and isinstance(node.ops[0], (ast.Is, ast.IsNot)):
                p = ap(node.left)
                if p and p.startswith("self.") and p.count(".") == 1 and isinstance(parent(node), (ast.If, ast.UnaryOp, ast.BoolOp)):
                    tested.add(p)
        if not tested:
            continue
        sts = [s_ for s_ in stores(f.node, into_defs=False) if s_.path in tested and s_.kind in ("assign", "augassign")]
        returned = {ap(r.value) for r in walk(f.node) if isinstance(r, ast.Return) and r.value is not None}
        for slot in sorted(tested):
            mine = [s_ for s_ in sts if s_.path == slot]
            if not mine or slot not in returned:
                continue
            n += 1
            cfg = CFG(f.node)
            nodes = {id(enclosing_stmt(s_.node)): s_ for s_ in mine}
            store_nodes = [x for x in cfg.nodes if x.ast is not None and id(x.ast) in nodes]
            problem = None
            for s_ in mine:
                if s_.kind == "augassign":
                    problem = (s_.node, f"`{norm(s_.node)}` accumulates in the published slot")
            if problem is None:
                for x in store_nodes:
                    hit = cfg.path_exists([x], lambda y: y in store_nodes, exc=False)
                    if hit is not None:
                        problem = (x.ast, f"`{norm(x.ast)}` is followed by another store to {slot} "
                                          f"(line {getattr(hit.ast, 'lineno', '?')}) on the same path")
                        break
            ctx.ob("C09.R8", f"{f.qual}: memo {slot} is published once, complete", problem is None,
                   ctx.w(f, problem[0]) if problem else f.where,
                   (problem[1] if problem else "") + f": the guard `{slot} is not <unset>` already passes while the value "
                   f"is still being built, so a re-entrant or concurrent caller gets a partial result (template guessing "
                   f"by size then picks no / the wrong template)")
    ctx.stats["C09.R8.guarded memo slots"] = n
    if n == 0:
        ctx.note("C09.R8: no guarded memo slot left in the codec modules; nothing to check")
        ctx.ob("C09.R8", "no guarded memo slot in the codec modules", True, SERMOD)


# ------------------------------------------------------------------------------------------ R9

def r9(ctx):
    """A dataclass that serves as a template (se.Dataclass(X) -> DataclassAdapter.decode builds X(**fields)) is the
    decoded value itself: rewriting a serialized field while it is constructed normalises what came off the wire
    (None -> default, trimmed text, sorted lists), and the encoder then writes the normalised form."""
    repo = ctx.repo
    ctx.rule("C09.R9", "template dataclasses do not rewrite their serialized fields on construction "
                       "(__post_init__ / __init__ / __setattr__ leave spec'd fields as decoded)")
    n = 0
    for lst in repo.classes.values():
        for ci in lst:
            if not ci.module.rel.startswith("hippolyzer/lib/base/"):
                continue
            if not any((ap(d.func) if isinstance(d, ast.Call) else ap(d) or "").split(".")[-1] == "dataclass"
                       for d in ci.node.decorator_list if (ap(d.func) if isinstance(d, ast.Call) else ap(d))):
                continue
            fields = set()
            for k in repo.mro(ci):
                for st in k.node.body:
                    if isinstance(st, ast.AnnAssign) and isinstance(st.target, ast.Name) and isinstance(st.value, ast.Call):
                        callee = (ap(st.value.func) or "").split(".")[-1]
                        if callee in ("dataclass_field", "bitfield_field") or callee.startswith("_") and callee.endswith("field"):
                            fields.add(st.target.id)
            if not fields:
                continue
            for meth in ("__post_init__", "__init__", "__setattr__"):
                f = ci.methods.get(meth)
                if f is None:
                    continue
                n += 1
                bad = [st for g in class_methods_reachable(repo, f, depth=2) for st in stores(g.node, into_defs=True)
                       if st.path.startswith("self.") and st.path.split(".")[1].replace("[]", "") in fields]
                ctx.ob("C09.R9", f"{ci.name}.{meth}: serialized fields are left as decoded", not bad,
                       ctx.w(f, bad[0].node) if bad else f.where,
                       (f"`{norm(bad[0].node)}` rewrites field {bad[0].path.split('.')[1]} while the decoded value is being "
                        f"built" if bad else "") + ": the object form no longer says what was on the wire (an absent optional "
                       "section becomes a present default), so re-encoding produces different bytes")
    ctx.stats["C09.R9.constructor hooks on template dataclasses"] = n
    if n == 0:
        ctx.ob("C09.R9", "no template dataclass customises its construction", True, "hippolyzer/lib/base")


# ------------------------------------------------------------------------------------------ R10

_NDARRAY_METHODS = ("reshape", "astype", "flatten", "ravel", "view", "transpose", "squeeze", "copy", "swapaxes",
                    "newbyteorder", "byteswap", "clip")


def _numpy_built(f: FuncInfo, e: ast.AST, depth=0) -> bool:
    """The expression certainly yields a numpy array: an `np.<fn>(...)` result, an ndarray-method chain on one,
    or a local bound only to such expressions."""
    if depth > 6:
        return False
    if isinstance(e, ast.Call):
        fn = e.func
        if isinstance(fn, ast.Attribute) and isinstance(fn.value, ast.Name) and f.module.imports.get(fn.value.id) == "numpy":
            return fn.attr not in ("isscalar", "ndim", "shape", "size", "array_equal", "allclose", "any", "all")
        if isinstance(fn, ast.Attribute) and fn.attr in _NDARRAY_METHODS:
            return _numpy_built(f, fn.value, depth + 1) or fn.attr in ("astype", "reshape", "newbyteorder")
        return False
    if isinstance(e, ast.Name):
        vals = [s_ for s_ in stores(f.node, into_defs=False) if s_.path == e.id]
        params = {a.arg for a in f.node.args.args}
        if not vals or e.id in params and not all(s_.kind == "assign" for s_ in vals):
            return False
        plain = [s_ for s_ in vals if s_.kind == "assign" and s_.value is not None]
        return bool(plain) and all(_numpy_built(f, s_.value, depth + 1) for s_ in plain) and \
            (e.id not in params or len(plain) == len(vals))
    return False


def _truth_tested(node: ast.AST) -> bool:
    """The expression's own truth value is taken (if/while/assert/ternary test, `not x`, bool(x), a non-final
    and/or operand, a comprehension filter) - as opposed to being compared, measured or passed on."""
    p = parent(node)
    if isinstance(p, (ast.If, ast.While, ast.IfExp, ast.Assert)) and p.test is node:
        return True
    if isinstance(p, ast.UnaryOp) and isinstance(p.op, ast.Not):
        return True
    if isinstance(p, ast.comprehension) and any(x is node for x in p.ifs):
        return True
    if isinstance(p, ast.Call) and ap(p.func) == "bool" and len(p.args) == 1 and p.args[0] is node:
        return True
    if isinstance(p, ast.BoolOp):
        if p.values[-1] is not node:
            return True
        return _truth_tested(p)
    return False


def r10(ctx):
    """Object form of array-valued adapters: decode() hands out a numpy array, so encode() receives one back; taking
    the truth value of an array with more than one element raises ValueError, i.e. the object form cannot be
    re-encoded at all."""
    repo = ctx.repo
    ctx.rule("C09.R10", "an adapter whose object-form decode() result is a numpy array never takes the truth value of "
                        "the value in encode() (len() / is None / .size / .any() are the array-safe tests)")
    adapter = repo.cls("Adapter", SERMOD)
    n = 0
    for k in sorted(repo.subclasses(adapter, strict=True), key=lambda c: c.qual):
        if not k.module.rel.startswith("hippolyzer/lib/base/"):
            continue
        dec, enc = repo.lookup_method(k, "decode"), repo.lookup_method(k, "encode")
        if dec is None or enc is None or dec.cls == adapter or enc.cls == adapter:
            continue
        rets = [r for r in walk(dec.node) if isinstance(r, ast.Return) and r.value is not None]
        obj_rets = [r for r in rets if not any((ap(e) or "").split(".")[-1] == "pod" and pol for e, pol in facts(r, dec.node))]
        if not any(_numpy_built(dec, r.value) for r in obj_rets):
            continue
        n += 1
        params = [a.arg for a in enc.node.args.args]
        if len(params) < 2:
            continue
        names = {params[1]}
        for s_ in stores(enc.node, into_defs=True):
            if s_.kind == "assign" and isinstance(s_.value, ast.Name) and s_.value.id in names and "." not in s_.path:
                names.add(s_.path)
        bad = []
        for g in class_methods_reachable(repo, enc, depth=1)[:1]:
            for x in walk(g.node, into_defs=True):
                if isinstance(x, ast.Name) and x.id in names and isinstance(x.ctx, ast.Load) and _truth_tested(x):
                    # a re-binding to a non-array (e.g. `val = list(val)`) before the test would make it safe;
                    # only the untouched parameter (and plain aliases) are considered
                    if not any(s_.path == x.id and s_.kind == "assign" and not isinstance(s_.value, ast.Name)
                               for s_ in stores(g.node, into_defs=True)):
                        bad.append(x)
        ctx.ob("C09.R10", f"{k.name}.encode: the array-valued object form is never truth-tested", not bad,
               ctx.w(enc, bad[0]) if bad else enc.where,
               (f"`{norm(enclosing_stmt(bad[0]))[:80]}` takes the truth value of `{bad[0].id}`" if bad else "") +
               f": {k.name}.decode returns a numpy array in object form, and bool(ndarray) raises ValueError for more "
               f"than one element - the decoded value cannot be encoded again")
    ctx.floor("C09.R10", "adapters with an array-valued object form", n, 1)


# ------------------------------------------------------------------------------------------ R11 / R12 / R13 (audit round)

def _date_adapter_methods(repo: Repo):
    """(class, decode fn, encode fn) of Adapter subclasses in the codec modules that use the datetime API."""
    adapter = repo.cls("Adapter", SERMOD)
    out = []
    for k in sorted(repo.subclasses(adapter, strict=True), key=lambda c: c.qual):
        if k.module.rel not in TZ_MODULES:
            continue
        dec, enc = repo.lookup_method(k, "decode"), repo.lookup_method(k, "encode")
        if dec is None or enc is None or dec.cls == adapter or enc.cls == adapter:
            continue
        uses = False
        for f in (dec, enc):
            for c in calls(f.node, into_defs=True):
                if isinstance(c.func, ast.Attribute) and c.func.attr in ("fromtimestamp", "utcfromtimestamp", "timestamp",
                                                                         "fromisoformat", "timegm"):
                    uses = True
        if uses:
            out.append((k, dec, enc))
    return out


def r11(ctx):
    """Time stamps with a sub-second part (microsecond CreationDate): a double of seconds has ~0.1 us of slack at
    today's dates and none beyond 2**53 us, so a codec that multiplies/divides through float seconds and truncates
    loses a tick."""
    repo = ctx.repo
    ctx.rule("C09.R11", "date adapters convert the sub-second part with integer arithmetic: no int()/floor of a "
                        "float product of timestamp(), no true division of the raw stamp before fromtimestamp()")
    n = 0
    for k, dec, enc in _date_adapter_methods(repo):
        n += 1
        bad = []
        for c in calls(enc.node, into_defs=True):
            if (ap(c.func) or "") in ("int", "math.floor", "math.trunc") and c.args:
                for x in ast.walk(c.args[0]):
                    if isinstance(x, ast.BinOp) and isinstance(x.op, (ast.Mult, ast.Div)) and any(
                            isinstance(y, ast.Call) and isinstance(y.func, ast.Attribute) and y.func.attr == "timestamp"
                            for side in (x.left, x.right) for y in ast.walk(side)):
                        bad.append(c)
                        break
        ctx.ob("C09.R11", f"{enc.qual}: stamp rebuilt with integer arithmetic", not bad, ctx.w(enc, bad[0]) if bad else enc.where,
               (f"`{norm(bad[0])[:90]}` truncates a float product: timestamp() * multiplier lands up to 0.125 below the "
                f"integer for microsecond stamps, so e.g. CreationDate 1099801168165552 re-encodes as ...551" if bad else ""))
        raw = dec.node.args.args[1].arg if len(dec.node.args.args) > 1 else None
        badd = []
        for c in calls(dec.node, into_defs=True):
            if isinstance(c.func, ast.Attribute) and c.func.attr in ("fromtimestamp", "utcfromtimestamp") and c.args:
                a0 = c.args[0]
                if isinstance(a0, ast.Name):
                    vals = [s_.value for s_ in stores(dec.node, into_defs=False) if s_.path == a0.id and s_.value is not None
                            and not isinstance(s_.node, ast.Assign) or (s_.path == a0.id and isinstance(s_.node, ast.Assign)
                                                                        and not isinstance(s_.node.targets[0], (ast.Tuple, ast.List))
                                                                        and s_.value is not None)]
                    a0 = vals[0] if len(vals) == 1 else a0
                if any(isinstance(x, ast.BinOp) and isinstance(x.op, ast.Div) and any(
                        isinstance(y, ast.Name) and y.id == raw for y in ast.walk(x)) for x in ast.walk(a0)):
                    badd.append(c)
        ctx.ob("C09.R11", f"{dec.qual}: raw stamp split with integer arithmetic", not badd,
               ctx.w(dec, badd[0]) if badd else dec.where,
               (f"`{norm(badd[0])[:90]}` turns the integer stamp into float seconds: beyond 2**53 ticks (and within rounding "
                f"slack before) the sub-second part is not the one on the wire" if badd else ""))
    ctx.floor("C09.R11", "date adapters", n, 1)


def r12(ctx):
    """An integer adapter has to take every integer of the wire type: datetime only spans years 1..9999, which is 1.4 %
    of a U64 microsecond stamp.  Like the enum adapters, what cannot be prettified stays a number (and encode takes
    the number back)."""
    repo = ctx.repo
    ctx.rule("C09.R12", "date adapters are total over the wire type: datetime construction from the raw value falls "
                        "back to the bare number when out of range, and encode passes plain integers through")
    from ..core import try_contexts, handler_names
    for k, dec, enc in _date_adapter_methods(repo):
        sites = [c for c in calls(dec.node, into_defs=True)
                 if isinstance(c.func, ast.Attribute) and c.func.attr in ("fromtimestamp", "utcfromtimestamp")]
        bad = []
        for c in sites:
            ok = False
            for tc in try_contexts(c, dec.node):
                if tc.section == "body":
                    caught = set()
                    for h in tc.node.handlers:
                        caught |= set(handler_names(h))
                    if caught & {"Exception", "BaseException", "*"} or {"ValueError", "OverflowError"} <= caught:
                        ok = True
            if not ok:
                bad.append(c)
        ctx.ob("C09.R12", f"{dec.qual}: a stamp outside datetime's range stays a number", bool(sites) and not bad,
               ctx.w(dec, bad[0]) if bad else dec.where,
               (f"`{norm(bad[0])[:80]}` raises ValueError / OverflowError for stamps past year 9999 (98.6 % of a U64 "
                f"microsecond field): the variable cannot be deserialized at all" if bad else "no datetime construction found"))
        raw = enc.node.args.args[1].arg if len(enc.node.args.args) > 1 else None
        passes = False
        for r in [n_ for n_ in walk(enc.node) if isinstance(n_, ast.Return) and isinstance(n_.value, ast.Name) and n_.value.id == raw]:
            for e, pol in facts(r, enc.node):
                if pol and isinstance(e, ast.Call) and ap(e.func) == "isinstance" and len(e.args) == 2 \
                        and isinstance(e.args[0], ast.Name) and e.args[0].id == raw \
                        and "int" in {ap(x) for x in ast.walk(e.args[1])}:
                    passes = True
        ctx.ob("C09.R12", f"{enc.qual}: a plain integer is encoded as itself", passes, enc.where,
               "the decoder's fall-back for unrepresentable stamps is the bare number; encode must take it back "
               "(isinstance(val, int) -> return val)")


def r13(ctx):
    """empty_is_none: the reader maps an empty body to None.  A writer that gives None its own byte form (nothing at
    all, not even the terminator) has to give that same form to every value whose body is empty, or the payload it
    produces for an empty value (a lone terminator) decodes to None and re-encodes differently."""
    repo = ctx.repo
    ctx.rule("C09.R13", "a typed-bytes writer that special-cases None under empty_is_none treats a value with an empty "
                        "body the same way (the reader's notion of empty)")
    base = repo.cls("TypedBytesBase", SERMOD)
    n = 0
    for k in sorted(repo.subclasses(base), key=lambda c: c.qual):
        f = k.methods.get("serialize")
        if f is None or len(f.node.args.args) < 2:
            continue
        val = f.node.args.args[1].arg
        rets = [r for r in walk(f.node) if isinstance(r, ast.Return) and r.value is None]
        none_rets = [r for r in rets if any(is_none_test_of(e, val) and pol for e, pol in facts(r, f.node))]
        if not none_rets:
            continue
        n += 1
        # a bare return under an emptiness test of something that is not the value itself (the encoded body)
        body_rets = []
        for r in rets:
            for e, pol in facts(r, f.node):
                tgt = None
                if not pol and ap(e) is not None:
                    tgt = ap(e)                                   # `if not buf`
                elif isinstance(e, ast.Compare) and len(e.ops) == 1 and isinstance(e.left, ast.Call) \
                        and ap(e.left.func) == "len" and e.left.args:
                    tgt = ap(e.left.args[0])                      # `len(buf) == 0`
                if tgt and tgt.split(".")[0] != val and not tgt.startswith("self."):
                    body_rets.append(r)
        ctx.ob("C09.R13", f"{f.qual}: a value with an empty body is written like None", bool(body_rets), f.where,
               "serialize returns without writing only for `None`; a value whose encoded body is empty still gets a "
               "terminator, which the reader turns into None and the writer then re-encodes as nothing: the payload "
               "produced for an empty collection does not survive")
    ctx.stats["C09.R13.writers special-casing None"] = n
    if n == 0:
        ctx.ob("C09.R13", "no typed-bytes writer gives None a byte form of its own", True, SERMOD)


def is_none_test_of(e: ast.AST, name: str) -> bool:
    return isinstance(e, ast.Compare) and len(e.ops) == 1 and isinstance(e.ops[0], ast.Is) \
        and isinstance(e.left, ast.Name) and e.left.id == name and isinstance(e.comparators[0], ast.Constant) \
        and e.comparators[0].value is None


# ------------------------------------------------------------------------------------------ driver

def run(ctx):
    repo = ctx.repo
    tmpl = parse_template(repo.root, repo.overlay)
    ctx.floor("C09", "template messages", len(tmpl), 400)
    regs = registrations(ctx)
    r1(ctx, regs, tmpl)
    r2(ctx, regs, tmpl)
    r3(ctx)
    r4(ctx, regs, tmpl)
    r5(ctx)
    r6(ctx)
    r7(ctx)
    r8(ctx)
    r9(ctx)
    r10(ctx)
    r11(ctx)
    r12(ctx)
    r13(ctx)
    ctx.assume("byte-for-byte fixed points of the ~200 serializers on generated payloads and the 'printed form "
               "evaluates back' clause are not decided statically")
    ctx.assume("Python semantics encoded: enum.IntFlag(negative) / IntFlag.__or__ are not value preserving on "
               "3.11+; naive datetime.timestamp()/fromtimestamp() use the process time zone")
