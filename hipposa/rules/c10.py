"""C10 - quantised floats / fixed point (DESIGN.md section 4, C10).

R1 affine inverse (invertible-op-sequence domain): the encoder's affine part is the reversed inverse of the
   decoder's, the encoder rounds to nearest, the only other non-affine ops are the range clamp and the
   zero-median nudge; encode/decode use the same range arguments.  Overrides are analysed with the override
   substituted (super() calls inlined).
R2 endpoint exactness precondition: step_mag == 1 / (raw_max - raw_min) wherever it is defined.
R4 codec purity: no in-place modification of the caller's array, no memo on self keyed without all inputs.
R3 instance table (constant evaluation of every constructed instance in the tree): lower < upper, constructor
   assertions hold (unsigned primitive, bit budget), the clamp does not cut into the decoded wire range,
   zero_median is on exactly when zero falls half-way between the two central codes and off when zero is a code.
"""
from __future__ import annotations

import ast
import copy
import math
from dataclasses import dataclass, field
from typing import Any, Dict, List, Optional, Sequence, Set, Tuple

from ..consteval import CallVal, ConstEval, EnumVal, Sym
from ..core import (AnalysisError, ClassInfo, FUNC_TYPES, FuncInfo, Module, Repo, ancestors, ap, calls, kw, norm, parent,
                    src, stores, walk)

SERMOD = "hippolyzer/lib/base/serialization.py"
SER_DOTTED = "hippolyzer.lib.base.serialization"


# ------------------------------------------------------------------------------------------ values

class Unknown(Exception):
    pass


@dataclass(frozen=True)
class PrimVal:
    name: str
    fmt: str
    size: int
    is_signed: bool
    min_val: int
    max_val: int

    def __repr__(self):
        return self.name


class Obj:
    """Opaque constructed value with a few known attributes."""
    def __init__(self, kind, **attrs):
        self.kind = kind
        self.attrs = attrs

    def __repr__(self):
        return f"{self.kind}({self.attrs})"


_PRIM_SIZES = {"b": 1, "B": 1, "h": 2, "H": 2, "i": 4, "I": 4, "q": 8, "Q": 8}


def prim_table(repo: Repo) -> Dict[str, PrimVal]:
    """serialization.py's `X = SerializablePrimitive("fmt", default)` rows (integer formats only).
    Mirrors SerializablePrimitive.__init__: signed iff the format letter is lower case."""
    mod = repo.module(SERMOD)
    out: Dict[str, PrimVal] = {}
    alias = []
    for st in mod.tree.body:
        if isinstance(st, ast.Assign) and len(st.targets) == 1 and isinstance(st.targets[0], ast.Name):
            v = st.value
            name = st.targets[0].id
            if isinstance(v, ast.Call) and ap(v.func) == "SerializablePrimitive" and v.args \
                    and isinstance(v.args[0], ast.Constant) and isinstance(v.args[0].value, str):
                fmt = v.args[0].value
                if fmt in _PRIM_SIZES:
                    size = _PRIM_SIZES[fmt]
                    signed = fmt.islower()
                    mx = (2 ** (8 * size)) - 1
                    mn = 0
                    if signed:
                        mx = mx // 2
                        mn = -1 - mx
                    out[name] = PrimVal(name, fmt, size, signed, mn, mx)
            elif isinstance(v, ast.Name):
                alias.append((name, v.id))
    for a, b in alias:
        if b in out:
            out[a] = out[b]
    if len(out) < 8:
        raise AnalysisError(f"C10: only {len(out)} integer primitives found in serialization.py")
    return out


class Num:
    """Numeric evaluation of expressions over an environment of access paths."""

    def __init__(self, repo: Repo, mod: Module, prims: Dict[str, PrimVal], inst: Optional[ClassInfo] = None):
        self.repo, self.mod, self.prims = repo, mod, prims
        self.cev = ConstEval(repo, mod)
        self.inst = inst          # class whose `self.` / `cls.` members may be looked up
        self._depth = 0

    def _member(self, n: ast.Attribute, env):
        """self.X / cls.X that is not in the environment: a class-level constant of the instance's class."""
        if self.inst is None or not (isinstance(n.value, ast.Name) and n.value.id in ("self", "cls")):
            raise Unknown(src(n))
        for k in self.repo.mro(self.inst):
            for st in k.node.body:
                tgt = st.targets[0] if isinstance(st, ast.Assign) and len(st.targets) == 1 else \
                    st.target if isinstance(st, ast.AnnAssign) else None
                if isinstance(tgt, ast.Name) and tgt.id == n.attr and getattr(st, "value", None) is not None:
                    sub = Num(self.repo, k.module, self.prims, self.inst)
                    cenv = {}
                    for st2 in k.node.body:          # earlier class-level constants
                        if st2 is st:
                            break
                        if isinstance(st2, ast.Assign) and len(st2.targets) == 1 and isinstance(st2.targets[0], ast.Name):
                            try:
                                cenv[st2.targets[0].id] = sub.ev(st2.value, dict(cenv))
                            except Unknown:
                                pass
                    return sub.ev(st.value, cenv)
        raise Unknown(src(n))

    def _method_call(self, n: ast.Call, env):
        """self.m(...) / cls.m(...) where m is a single-expression method (property-like helper)."""
        f = n.func
        if self.inst is None or self._depth > 5 or not (isinstance(f, ast.Attribute) and isinstance(f.value, ast.Name)
                                                          and f.value.id in ("self", "cls")):
            raise Unknown(src(n))
        m = self.repo.lookup_method(self.inst, f.attr)
        if m is None or n.keywords or any(isinstance(a, ast.Starred) for a in n.args):
            raise Unknown(src(n))
        body = [b for b in m.node.body if not (isinstance(b, ast.Expr) and isinstance(b.value, ast.Constant))]
        if len(body) != 1 or not isinstance(body[0], ast.Return) or body[0].value is None:
            raise Unknown(src(n))
        static = any((ap(d) or "").split(".")[-1] == "staticmethod" for d in m.node.decorator_list)
        params = [a.arg for a in m.node.args.args][0 if static else 1:]
        if len(n.args) > len(params):
            raise Unknown(src(n))
        sub = Num(self.repo, m.module, self.prims, self.inst)
        sub._depth = self._depth + 1
        env2 = {k: v for k, v in env.items() if "." in k}
        for p_, a in zip(params, n.args):
            env2[p_] = self.ev(a, env)
        return sub.ev(body[0].value, env2)

    def _ser_alias(self, name: str) -> bool:
        tgt = self.mod.imports.get(name, "")
        return tgt == SER_DOTTED or tgt.endswith(".serialization")

    def ev(self, n: ast.AST, env: Dict[str, Any]):
        if isinstance(n, ast.Constant):
            return n.value
        if isinstance(n, ast.Name):
            if n.id in env:
                return env[n.id]
            if self.mod.rel == SERMOD and n.id in self.prims:
                return self.prims[n.id]
            tgt = self.mod.imports.get(n.id, "")
            if tgt.startswith(SER_DOTTED + ".") and tgt.split(".")[-1] in self.prims:
                return self.prims[tgt.split(".")[-1]]
            v = self.cev.ev(n)
            return self._from_const(v, n)
        if isinstance(n, ast.Attribute):
            p = ap(n)
            if p is not None and p in env:
                return env[p]
            if p == "math.pi":
                return math.pi
            if isinstance(n.value, ast.Name) and self._ser_alias(n.value.id) and n.attr in self.prims:
                return self.prims[n.attr]
            if isinstance(n.value, ast.Name) and n.value.id in ("self", "cls") and n.value.id not in env \
                    and self.inst is not None:
                return self._member(n, env)
            try:
                base = self.ev(n.value, env)
            except Unknown:
                v = self.cev.ev(n)
                return self._from_const(v, n)
            if isinstance(base, PrimVal) and n.attr in ("min_val", "max_val", "is_signed"):
                return getattr(base, n.attr)
            if isinstance(base, Obj) and n.attr in base.attrs:
                return base.attrs[n.attr]
            raise Unknown(src(n))
        if isinstance(n, ast.UnaryOp):
            v = self.ev(n.operand, env)
            if isinstance(n.op, ast.USub):
                return -v
            if isinstance(n.op, ast.UAdd):
                return +v
            if isinstance(n.op, ast.Not):
                return not v
            if isinstance(n.op, ast.Invert):
                return ~v
        if isinstance(n, ast.BinOp):
            a, b = self.ev(n.left, env), self.ev(n.right, env)
            try:
                return _BIN[type(n.op)](a, b)
            except (KeyError, TypeError, ZeroDivisionError, ValueError):
                raise Unknown(src(n))
        if isinstance(n, ast.BoolOp):
            last = None
            for v in n.values:
                last = self.ev(v, env)
                if isinstance(n.op, ast.And) and not last:
                    return last
                if isinstance(n.op, ast.Or) and last:
                    return last
            return last
        if isinstance(n, ast.IfExp):
            return self.ev(n.body if self.ev(n.test, env) else n.orelse, env)
        if isinstance(n, ast.Compare):
            left = self.ev(n.left, env)
            for op, c in zip(n.ops, n.comparators):
                right = self.ev(c, env)
                try:
                    r = _CMP[type(op)](left, right)
                except (KeyError, TypeError):
                    raise Unknown(src(n))
                if not r:
                    return False
                left = right
            return True
        if isinstance(n, ast.Tuple):
            return tuple(self.ev(e, env) for e in n.elts)
        if isinstance(n, ast.Call):
            name = ap(n.func) or ""
            if isinstance(n.func, ast.Attribute) and n.func.attr == "calc_size" and not n.args:
                base = self.ev(n.func.value, env)
                if isinstance(base, PrimVal):
                    return base.size
                raise Unknown(src(n))
            if n.keywords:
                raise Unknown(src(n))
            fn = _CALLS.get(name)
            if fn is None:
                return self._method_call(n, env)
            args = [self.ev(a, env) for a in n.args]
            try:
                return fn(*args)
            except (TypeError, ValueError):
                raise Unknown(src(n))
        raise Unknown(src(n))

    def _from_const(self, v, n):
        if isinstance(v, EnumVal):
            return v.value
        if isinstance(v, CallVal) and v.func.split(".")[-1] == "SerializablePrimitive" and v.args \
                and isinstance(v.args[0], str):
            for p in self.prims.values():
                if p.fmt == v.args[0]:
                    return p
        if isinstance(v, (Sym, CallVal)):
            raise Unknown(src(n))
        if isinstance(v, (int, float, bool, tuple)) or v is None:
            return v
        raise Unknown(src(n))


_BIN = {ast.Add: lambda a, b: a + b, ast.Sub: lambda a, b: a - b, ast.Mult: lambda a, b: a * b,
        ast.Div: lambda a, b: a / b, ast.FloorDiv: lambda a, b: a // b, ast.Mod: lambda a, b: a % b,
        ast.Pow: lambda a, b: a ** b, ast.LShift: lambda a, b: a << b, ast.RShift: lambda a, b: a >> b,
        ast.BitOr: lambda a, b: a | b, ast.BitAnd: lambda a, b: a & b, ast.BitXor: lambda a, b: a ^ b}
_CMP = {ast.Eq: lambda a, b: a == b, ast.NotEq: lambda a, b: a != b, ast.Lt: lambda a, b: a < b,
        ast.LtE: lambda a, b: a <= b, ast.Gt: lambda a, b: a > b, ast.GtE: lambda a, b: a >= b,
        ast.Is: lambda a, b: a is b, ast.IsNot: lambda a, b: a is not b}
_CALLS = {"int": int, "float": float, "bool": bool, "round": round, "abs": abs, "min": min, "max": max,
          "math.fabs": math.fabs, "math.copysign": math.copysign, "math.fmod": math.fmod, "math.floor": math.floor}


# ------------------------------------------------------------------------------------------ class lookup

def _resolve_cls(repo: Repo, mod: Module, func) -> Optional[ClassInfo]:
    p = ap(func)
    if not p:
        return None
    parts = p.split(".")
    if len(parts) == 1:
        for ci in repo.classes.get(parts[0], []):
            if ci.module is mod:
                return ci
        tgt = mod.imports.get(parts[0])
        if tgt:
            mn, _, attr = tgt.rpartition(".")
            m2 = repo.by_modname.get(mn)
            if m2 is not None:
                for ci in repo.classes.get(attr, []):
                    if ci.module is m2:
                        return ci
        return None
    if len(parts) == 2:
        tgt = mod.imports.get(parts[0])
        m2 = repo.by_modname.get(tgt) if tgt else None
        if m2 is not None:
            for ci in repo.classes.get(parts[1], []):
                if ci.module is m2:
                    return ci
    return None


def _is_sub(repo: Repo, ci: Optional[ClassInfo], base: str) -> bool:
    return ci is not None and any(c.name == base and c.module.rel == SERMOD for c in repo.mro(ci))


ROOTS = ("QuantizedFloatBase", "FixedPoint", "QuantizedNumPyArray")


def _in_family(repo: Repo, ci: ClassInfo) -> bool:
    return any(_is_sub(repo, ci, r) for r in ROOTS)


# ------------------------------------------------------------------------------------------ constructor interpreter

UNK = object()


class Construct:
    """Evaluates __init__ chains of the quantiser classes on constant arguments (finite, loop free)."""

    def __init__(self, repo: Repo, prims, family=None):
        self.repo, self.prims = repo, prims
        self.family = family or (lambda c: _in_family(repo, c))

    def run(self, ci: ClassInfo, args: Sequence[Any], kwargs: Dict[str, Any]):
        attrs: Dict[str, Any] = {}
        asserts: List[Tuple[str, Optional[bool], FuncInfo, ast.AST]] = []
        self._init(ci, ci, list(args), dict(kwargs), attrs, asserts, 0)
        return attrs, asserts

    def _next_init(self, inst: ClassInfo, after: Optional[ClassInfo]) -> Optional[FuncInfo]:
        mro = self.repo.mro(inst)
        start = 0
        if after is not None:
            for i, c in enumerate(mro):
                if c == after:
                    start = i + 1
        for c in mro[start:]:
            if "__init__" in c.methods:
                return c.methods["__init__"] if self.family(c) else None
        return None

    def _init(self, inst, after, args, kwargs, attrs, asserts, depth, first=True):
        if depth > 6:
            raise AnalysisError("C10: constructor chain too deep")
        f = self._next_init(inst, None if first else after)
        if f is None:
            return
        num = Num(self.repo, f.module, self.prims, inst)
        a = f.node.args
        params = [x.arg for x in a.args][1:]
        defaults = [None] * (len(params) - len(a.defaults)) + list(a.defaults)
        env: Dict[str, Any] = {}
        if len(args) > len(params):
            raise AnalysisError(f"C10: too many positional arguments for {f.qual}")
        for p, v in zip(params, args):
            env[p] = v
        for k, v in kwargs.items():
            if k not in params and k not in [x.arg for x in a.kwonlyargs]:
                raise AnalysisError(f"C10: unexpected keyword {k} for {f.qual}")
            env[k] = v
        for p, d in zip(params, defaults):
            if p not in env:
                if d is None:
                    raise AnalysisError(f"C10: missing argument {p} for {f.qual}")
                env[p] = self._ev(num, d, {}, attrs)
        for x, d in zip(a.kwonlyargs, a.kw_defaults):
            if x.arg not in env and d is not None:
                env[x.arg] = self._ev(num, d, {}, attrs)
        for v in env.values():
            if isinstance(v, PrimVal):
                attrs["__prim__"] = v
        self._body(f.node.body, f, inst, num, env, attrs, asserts, depth)

    @staticmethod
    def _ev(num, node, env, attrs):
        try:
            return num.ev(node, {**attrs, **env})
        except Unknown:
            return UNK

    def _body(self, stmts, f, inst, num, env, attrs, asserts, depth):
        for st in stmts:
            if isinstance(st, ast.Expr) and isinstance(st.value, ast.Constant):
                continue
            if isinstance(st, ast.Expr) and isinstance(st.value, ast.Call):
                c = st.value
                fn = c.func
                if isinstance(fn, ast.Attribute) and fn.attr == "__init__" and isinstance(fn.value, ast.Call) \
                        and ap(fn.value.func) == "super":
                    args = [self._ev(num, x, env, attrs) for x in c.args]
                    kwargs = {k.arg: self._ev(num, k.value, env, attrs) for k in c.keywords if k.arg}
                    self._init(inst, f.cls, args, kwargs, attrs, asserts, depth + 1, first=False)
                    continue
                raise AnalysisError(f"C10: unsupported call statement in {f.qual}: {norm(st)}")
            if isinstance(st, (ast.Assign, ast.AnnAssign)):
                targets = st.targets if isinstance(st, ast.Assign) else [st.target]
                if st.value is None:
                    continue
                val = self._ev(num, st.value, env, attrs)
                for t in targets:
                    p = ap(t)
                    if isinstance(t, ast.Name):
                        env[t.id] = val
                    elif p and p.startswith("self.") and p.count(".") == 1:
                        attrs[p] = val
                    else:
                        raise AnalysisError(f"C10: unsupported assignment target in {f.qual}: {norm(t)}")
                continue
            if isinstance(st, ast.If):
                t = self._ev(num, st.test, env, attrs)
                if t is UNK:
                    raise AnalysisError(f"C10: undecidable test in {f.qual}: {norm(st.test)}")
                self._body(st.body if t else st.orelse, f, inst, num, env, attrs, asserts, depth)
                continue
            if isinstance(st, ast.Assert):
                t = self._ev(num, st.test, env, attrs)
                asserts.append((norm(st.test), None if t is UNK else bool(t), f, st))
                continue
            if isinstance(st, ast.Pass):
                continue
            raise AnalysisError(f"C10: unsupported statement {type(st).__name__} in {f.qual} (line {st.lineno})")


# ------------------------------------------------------------------------------------------ op sequences

AFFINE = ("add", "sub", "mul", "div", "rsub", "rdiv", "neg")


@dataclass
class Op:
    kind: str                       # add sub mul div rsub rdiv neg | clamp round trunc nudge cond condassign condreturn call
    a: Optional[ast.AST] = None     # operand (locals expanded)
    b: Optional[ast.AST] = None     # second operand (clamp hi)
    inner: Optional[List["Op"]] = None
    node: Optional[ast.AST] = None
    name: str = ""

    def text(self) -> str:
        if self.kind == "cond":
            return f"cond[{_t(self.a)}]({' '.join(o.text() for o in self.inner or [])})"
        if self.kind in ("clamp", "saturate"):
            return f"{self.kind}({_t(self.a)}, {_t(self.b)})"
        if self.kind in ("call", "trunc"):
            return f"{self.kind}:{self.name}"
        if self.kind in ("condassign", "condreturn"):
            return f"{self.kind}[{_t(self.a)}]"
        if self.a is not None:
            return f"{self.kind}({_t(self.a)})"
        return self.kind


def _t(n) -> str:
    return "" if n is None else " ".join(src(n).split())


def _clone(e: ast.AST) -> ast.AST:
    """Fresh copy of an expression (repo ASTs carry parent links, so deepcopy would drag the module along)."""
    if isinstance(e, ast.Starred):
        return ast.Starred(value=_clone(e.value), ctx=ast.Load())
    return ast.parse(ast.unparse(e), mode="eval").body


class _Subst(ast.NodeTransformer):
    def __init__(self, mapping: Dict[str, ast.AST]):
        self.mapping = mapping

    def visit_Name(self, node):
        if node.id in self.mapping:
            return _clone(self.mapping[node.id])
        return node


def _mentions(node, name) -> bool:
    return any(isinstance(n, ast.Name) and n.id == name for n in ast.walk(node))


class OpSeq:
    """Abstracts a numeric method body to the sequence of operations applied to one tracked value."""

    def __init__(self, repo: Repo, inst_cls: ClassInfo):
        self.repo = repo
        self.inst = inst_cls

    # -- public
    def of_method(self, f: FuncInfo, tracked: Optional[str] = None, subst=None, depth=0) -> List[Op]:
        if depth > 4:
            raise AnalysisError(f"C10: inlining too deep at {f.qual}")
        node = f.node
        params = [a.arg for a in node.args.args]
        if tracked is None:
            tracked = self._pick_tracked(f)
        self.f = f
        # single-assigned locals (never the tracked variable) are expanded in operands
        sts = stores(node, into_defs=False)
        counts: Dict[str, int] = {}
        for s in sts:
            counts[s.path] = counts.get(s.path, 0) + 1
        defs: Dict[str, ast.AST] = {}
        cond_locals: Dict[str, List[ast.AST]] = {}
        # value bound to each plain-name target (tuple unpacking of a tuple display is paired element-wise)
        bound: Dict[int, Optional[ast.AST]] = {}
        for n in walk(node):
            if isinstance(n, ast.Assign):
                for t in n.targets:
                    if isinstance(t, ast.Name):
                        bound[id(t)] = n.value
                    elif isinstance(t, (ast.Tuple, ast.List)):
                        if isinstance(n.value, (ast.Tuple, ast.List)) and len(n.value.elts) == len(t.elts) \
                                and not any(isinstance(x, ast.Starred) for x in list(t.elts) + list(n.value.elts)):
                            for tt, vv in zip(t.elts, n.value.elts):
                                bound[id(tt)] = vv
                        else:
                            for tt in ast.walk(t):
                                bound[id(tt)] = None
            elif isinstance(n, ast.AnnAssign) and isinstance(n.target, ast.Name):
                bound[id(n.target)] = n.value
        for s in sts:
            if s.path == tracked or "." in s.path or "[" in s.path:
                continue
            val = bound.get(id(s.target)) if s.kind == "assign" else None
            if s.kind == "assign" and val is not None and counts[s.path] == 1 and s.path not in params \
                    and not _mentions(val, tracked):
                defs[s.path] = val
            elif counts[s.path] > 1:
                cond_locals.setdefault(s.path, []).append(s.node)
        st = _State(self, f, tracked, defs, cond_locals, subst or {}, depth)
        ops = st.block(node.body)
        return ops

    def _pick_tracked(self, f: FuncInfo) -> str:
        """The value parameter: first parameter after self that is not reader/writer/ctx."""
        names = [a.arg for a in f.node.args.args]
        rets = [n for n in walk(f.node) if isinstance(n, ast.Return) and isinstance(n.value, ast.Name)]
        for p in names[1:]:
            if p in ("reader", "writer", "ctx", "pod"):
                continue
            return p
        if rets:
            return rets[-1].value.id
        raise AnalysisError(f"C10: cannot find the tracked value of {f.qual}")


class _State:
    def __init__(self, seq: OpSeq, f: FuncInfo, tracked: str, defs, cond_locals, subst, depth):
        self.seq, self.f, self.v = seq, f, tracked
        self.defs, self.cond_locals, self.subst, self.depth = defs, cond_locals, subst, depth
        self.done = False

    # operand normalisation: expand single-assigned locals, substitute inlined parameters
    def opnd(self, e: ast.AST) -> ast.AST:
        e = _clone(e)
        for _ in range(6):
            names = {n.id for n in ast.walk(e) if isinstance(n, ast.Name)}
            todo = {k: v for k, v in self.defs.items() if k in names}
            if not todo:
                break
            e = _Subst(todo).visit(ast.Expression(body=e)).body
        if self.subst:
            e = _Subst(self.subst).visit(ast.Expression(body=e)).body
        e = self._expand_properties(e)
        return ast.fix_missing_locations(e)

    def _expand_properties(self, e: ast.AST, depth=0) -> ast.AST:
        """`self.X` where X is a @property of the analysed class with a single-expression body is replaced by
        that expression (a derived constant hoisted into a property must not blind the comparison)."""
        repo, inst = self.seq.repo, self.seq.inst
        changed = False

        class T(ast.NodeTransformer):
            def visit_Attribute(tself, n):
                nonlocal changed
                tself.generic_visit(n)
                if isinstance(n.value, ast.Name) and n.value.id == "self" and isinstance(n.ctx, ast.Load):
                    m = repo.lookup_method(inst, n.attr)
                    if m is not None and any((ap(d) or "").split(".")[-1] in ("property", "cached_property")
                                             for d in m.node.decorator_list):
                        body = [b for b in m.node.body
                                if not (isinstance(b, ast.Expr) and isinstance(b.value, ast.Constant))]
                        if len(body) == 1 and isinstance(body[0], ast.Return) and body[0].value is not None:
                            changed = True
                            return _clone(body[0].value)
                return n
        out = T().visit(ast.Expression(body=e)).body
        if changed and depth < 4:
            return self._expand_properties(out, depth + 1)
        return out

    def block(self, stmts) -> List[Op]:
        ops: List[Op] = []
        for i, st in enumerate(stmts):
            if self.done:
                break
            if isinstance(st, ast.If) and not st.orelse and len(st.body) == 1 and isinstance(st.body[0], ast.Return) \
                    and isinstance(st.body[0].value, ast.Name) and st.body[0].value.id == self.v \
                    and not _mentions(st.test, self.v):
                # `if T: return v` followed by the rest  ==  `if not T: <rest>`
                sub = _State(self.seq, self.f, self.v, self.defs, self.cond_locals, self.subst, self.depth)
                rest = sub.block(stmts[i + 1:])
                self.done = True
                if rest:
                    neg = st.test.operand if isinstance(st.test, ast.UnaryOp) and isinstance(st.test.op, ast.Not) \
                        else ast.UnaryOp(op=ast.Not(), operand=st.test)
                    if all(o.kind in AFFINE for o in rest):
                        ops.append(Op("cond", self.opnd(neg), inner=rest, node=st))
                    else:
                        ops.append(Op("condassign", self.opnd(st.test), node=st))
                return ops
            if isinstance(st, ast.If) and not st.orelse and len(st.body) == 1 and isinstance(st.body[0], ast.Return) \
                    and isinstance(st.body[0].value, ast.Name) and st.body[0].value.id == self.v \
                    and self._is_zero_median_test(st.test) and not self._arith_on_v(stmts[i + 1:]):
                # `if not zero_median or not close_to_zero: return v` - what follows only substitutes the signed
                # zeros: the zero-median snap, written with a guard clause
                ops.append(Op("nudge", node=st))
                self.done = True
                return ops
            ops += self.stmt(st)
        return ops

    def _arith_on_v(self, stmts) -> bool:
        for st in stmts:
            for n in ast.walk(st):
                if isinstance(n, ast.BinOp) and isinstance(n.op, (ast.Add, ast.Sub, ast.Mult, ast.Div, ast.FloorDiv, ast.Mod, ast.Pow)) \
                        and (_mentions(n.left, self.v) or _mentions(n.right, self.v)):
                    return True
                if isinstance(n, ast.AugAssign) and (_mentions(n.target, self.v) or _mentions(n.value, self.v)):
                    return True
                if isinstance(n, ast.Call) and any(_mentions(a, self.v) for a in n.args) and \
                        (ap(n.func) or "") not in ("math.fabs", "abs", "math.copysign"):
                    return True
        return False

    def _is_nudge_helper_call(self, e: ast.AST) -> bool:
        """`self._helper(v, ..)` whose result is the zero-median nudge: zero unless zero_median applies."""
        if not isinstance(e, ast.Call):
            return False
        callee = self._resolve_method(e)
        if callee is None:
            return False
        rets = [r for r in walk(callee.node) if isinstance(r, ast.Return) and r.value is not None]
        if not rets:
            return False
        from ..core import facts as _facts
        zero_under_switch = False
        for r in rets:
            is_zero = isinstance(r.value, ast.Constant) and r.value.value == 0 and not isinstance(r.value.value, bool)
            if is_zero and any(any(isinstance(x, ast.Attribute) and x.attr == "zero_median" or
                                   isinstance(x, ast.Name) and x.id == "zero_median" for x in ast.walk(e_))
                               for e_, _pol in _facts(r, callee.node)):
                zero_under_switch = True
        return zero_under_switch

    def _stores_v(self, node) -> bool:
        return any(s.path == self.v for s in stores(node, into_defs=False))

    def stmt(self, st) -> List[Op]:
        v = self.v
        if isinstance(st, ast.Expr) and isinstance(st.value, ast.Constant):
            return []
        if isinstance(st, ast.AugAssign) and isinstance(st.target, ast.Name) and st.target.id == v:
            if isinstance(st.op, ast.Add) and self._is_nudge_helper_call(st.value):
                return [Op("nudge", node=st)]
            if _mentions(st.value, v):
                return [Op("call", node=st, name="nonlinear-update")]
            kind = {ast.Add: "add", ast.Sub: "sub", ast.Mult: "mul", ast.Div: "div"}.get(type(st.op))
            if kind is None:
                return [Op("call", node=st, name=f"aug-{type(st.op).__name__}")]
            if kind == "add" and isinstance(st.value, ast.Name) and self._is_nudge_local(st.value.id):
                return [Op("nudge", node=st)]
            return [Op(kind, self.opnd(st.value), node=st)]
        if isinstance(st, (ast.Assign, ast.AnnAssign)):
            targets = st.targets if isinstance(st, ast.Assign) else [st.target]
            if any(isinstance(t, ast.Name) and t.id == v for t in targets):
                if st.value is None:
                    return []
                if _mentions(st.value, v):
                    return self.expr(st.value)
                # source / constant re-assignment
                inner = self._source(st.value)
                if inner is not None:
                    return inner
                return [Op("call", node=st, name="reassign")]
            if any(_mentions(t, v) for t in targets):
                raise AnalysisError(f"C10: {self.f.qual}: store into a component of the tracked value: {norm(st)}")
            # `new = f(value)` after which the old name is never used again: the value lives on under the new name
            if st.value is not None and len(targets) == 1 and isinstance(targets[0], ast.Name) \
                    and _mentions(st.value, v) and not self._used_after(st, v):
                ops = self.expr(st.value)
                self.v = targets[0].id
                self.defs = {k: d for k, d in self.defs.items() if k != self.v}
                return ops
            return []
        if isinstance(st, ast.AugAssign):
            if _mentions(st.target, v):
                raise AnalysisError(f"C10: {self.f.qual}: update of a component of the tracked value: {norm(st)}")
            return []
        if isinstance(st, ast.If):
            if not self._stores_v(st) and not any(isinstance(n, ast.Return) and n.value is not None and
                                                    _mentions(n.value, v) for n in walk(st)):
                rets = [n for n in walk(st) if isinstance(n, (ast.Return, ast.Raise))]
                if rets and not self._degenerate_guard(st.test):
                    return [Op("condreturn", self.opnd(st.test), node=st)]
                return []      # degenerate-range guard or computation of locals
            if not self._stores_v(st) and self._degenerate_guard(st.test) and not st.orelse:
                return []      # `if delta == 0: return <constant of the right shape>`
            if st.orelse or any(isinstance(n, (ast.Return,)) for n in walk(st)):
                if self._is_zero_median_test(st.test):
                    return [Op("nudge", node=st)]
                return [Op("condassign", self.opnd(st.test), node=st)]
            sub = _State(self.seq, self.f, v, self.defs, self.cond_locals, self.subst, self.depth)
            inner = sub.block(st.body)
            if inner and all(o.kind in AFFINE for o in inner):
                return [Op("cond", self.opnd(st.test), inner=inner, node=st)]
            if self._is_zero_median_test(st.test):
                return [Op("nudge", node=st)]
            return [Op("condassign", self.opnd(st.test), node=st)]
        if isinstance(st, ast.Return):
            self.done = True
            if st.value is None or not _mentions(st.value, v):
                return []
            return self.expr(st.value)
        if isinstance(st, ast.Expr) and isinstance(st.value, ast.Call) and _mentions(st.value, v):
            self.done = self._is_sink(st.value)
            return self.expr(st.value)
        if isinstance(st, (ast.For, ast.While, ast.Try, ast.With)) and (self._stores_v(st) or _mentions(st, v)):
            raise AnalysisError(f"C10: {self.f.qual}: tracked value used inside {type(st).__name__} (unsupported)")
        if isinstance(st, (ast.Assert, ast.Pass, ast.Expr, ast.For, ast.While, ast.Try, ast.With)):
            return []
        raise AnalysisError(f"C10: {self.f.qual}: unsupported statement {type(st).__name__}")

    def _degenerate_guard(self, t: ast.AST) -> bool:
        """`<range expression> == 0`: the empty-range special case, independent of the value."""
        if _mentions(t, self.v):
            return False
        if isinstance(t, ast.Compare) and len(t.ops) == 1 and isinstance(t.ops[0], ast.Eq):
            sides = [t.left, t.comparators[0]]
            return any(isinstance(x, ast.Constant) and x.value == 0 and not isinstance(x.value, bool) for x in sides)
        return False

    def _is_sink(self, c: ast.Call) -> bool:
        return isinstance(c.func, ast.Attribute) and c.func.attr in ("serialize", "write", "write_bytes")

    def _source(self, e: ast.AST) -> Optional[List[Op]]:
        """Initial value read from the wire: `float(spec.deserialize(reader, ctx))` / `reader.read(spec)`."""
        inner = e
        while isinstance(inner, ast.Call) and ap(inner.func) in ("float", "int") and inner.args:
            inner = inner.args[0]
        if isinstance(inner, ast.Call) and isinstance(inner.func, ast.Attribute) \
                and inner.func.attr in ("deserialize", "read", "read_bytes"):
            return []
        return None

    def _is_zero_median_test(self, t: ast.AST) -> bool:
        """The test reads the zero_median switch: the attribute, or a parameter that an inlining call site bound
        to it / that carries its name in a stateless helper."""
        for n in ast.walk(t):
            if isinstance(n, ast.Attribute) and n.attr == "zero_median":
                return True
            if isinstance(n, ast.Name):
                bound = self.subst.get(n.id)
                if bound is not None and any(isinstance(x, ast.Attribute) and x.attr == "zero_median"
                                             for x in ast.walk(bound)):
                    return True
                if n.id == "zero_median":
                    return True
        return False

    def _used_after(self, st: ast.stmt, name: str) -> bool:
        end = (getattr(st, "end_lineno", st.lineno), getattr(st, "end_col_offset", 0))
        for n in ast.walk(self.f.node):
            if isinstance(n, ast.Name) and n.id == name and (n.lineno, n.col_offset) >= end:
                return True
        return False

    def _is_nudge_local(self, name: str) -> bool:
        """A multiply-assigned local with an assignment under a zero_median test."""
        for node in self.cond_locals.get(name, []):
            for a in ancestors(node):
                if a is self.f.node:
                    break
                if isinstance(a, ast.If) and self._is_zero_median_test(a.test):
                    return True
        return False

    # expression decomposition
    def expr(self, e: ast.AST) -> List[Op]:
        v = self.v
        if isinstance(e, ast.Name) and e.id == v:
            return []
        if isinstance(e, ast.BinOp):
            lm, rm = _mentions(e.left, v), _mentions(e.right, v)
            if lm and isinstance(e.op, ast.Add) and self._is_nudge_helper_call(e.right):
                return self.expr(e.left) + [Op("nudge", node=e)]
            if lm and rm:
                return [Op("call", node=e, name="nonlinear")]
            if lm:
                kind = {ast.Add: "add", ast.Sub: "sub", ast.Mult: "mul", ast.Div: "div"}.get(type(e.op))
                if kind is None:
                    return self.expr(e.left) + [Op("call", node=e, name=f"op-{type(e.op).__name__}")]
                if kind == "add" and isinstance(e.right, ast.Name) and self._is_nudge_local(e.right.id):
                    return self.expr(e.left) + [Op("nudge", node=e)]
                return self.expr(e.left) + [Op(kind, self.opnd(e.right), node=e)]
            kind = {ast.Add: "add", ast.Sub: "rsub", ast.Mult: "mul", ast.Div: "rdiv"}.get(type(e.op))
            if kind is None:
                return self.expr(e.right) + [Op("call", node=e, name=f"op-{type(e.op).__name__}")]
            return self.expr(e.right) + [Op(kind, self.opnd(e.left), node=e)]
        if isinstance(e, ast.UnaryOp) and isinstance(e.op, ast.USub):
            return self.expr(e.operand) + [Op("neg", node=e)]
        if isinstance(e, ast.Call):
            name = ap(e.func) or ""
            last = name.split(".")[-1]
            args_m = [i for i, a in enumerate(e.args) if _mentions(a, v)]
            # method call on the tracked value: val.astype(T)
            if isinstance(e.func, ast.Attribute) and _mentions(e.func.value, v) and not args_m:
                base = self.expr(e.func.value)
                if e.func.attr == "astype":
                    t = _t(e.args[0]) if e.args else ""
                    if "float" in t:
                        return base
                    return base + [Op("trunc", node=e, name="astype")]
                return base + [Op("call", node=e, name=f".{e.func.attr}")]
            if len(args_m) != 1:
                return [Op("call", node=e, name=name or "?")]
            i = args_m[0]
            arg = e.args[i]
            others = [a for j, a in enumerate(e.args) if j != i]
            if name == "float" or (last in ("array", "asarray") and i == 0):
                return self.expr(arg)
            if name in ("int", "math.floor", "math.trunc", "math.ceil") or last in ("floor", "trunc", "ceil"):
                return self.expr(arg) + [Op("trunc", node=e, name=last)]
            if (name == "round" and len(e.args) == 1) or last in ("rint",) or (last in ("round", "around") and name != "round"
                                                                             and len(e.args) == 1):
                return self.expr(arg) + [Op("round", node=e)]
            if name in ("min", "max") and len(e.args) == 2:
                bound = self.opnd(others[0])
                op = Op("clamp", None, bound, node=e) if name == "min" else Op("clamp", bound, None, node=e)
                return _merge_clamp(self.expr(arg) + [op])
            if last == "clip" and i == 0 and len(e.args) == 3:
                return self.expr(arg) + [Op("clamp", self.opnd(e.args[1]), self.opnd(e.args[2]), node=e)]
            # sink: spec.serialize(round(val), writer, ctx)
            if self._is_sink(e):
                return self.expr(arg)
            # self / super method taking the tracked value: inline
            callee = self._resolve_method(e)
            if callee is not None:
                static = any((ap(d) or "").split(".")[-1] == "staticmethod" for d in callee.node.decorator_list)
                cparams = [a.arg for a in callee.node.args.args][0 if static else 1:]
                if i < len(cparams) and len(e.args) <= len(cparams) and not e.keywords \
                        and not any(isinstance(a, ast.Starred) for a in e.args):
                    mapping = {p: self.opnd(a) for j, (p, a) in enumerate(zip(cparams, e.args)) if j != i}
                    inner_seq = OpSeq(self.seq.repo, self.seq.inst)
                    inner = inner_seq.of_method(callee, tracked=cparams[i], subst=mapping, depth=self.depth + 1)
                    return self.expr(arg) + inner
            return self.expr(arg) + [Op("call", node=e, name=name or "?")]
        return [Op("call", node=e, name=type(e).__name__)]

    def _resolve_method(self, c: ast.Call) -> Optional[FuncInfo]:
        fn = c.func
        if not isinstance(fn, ast.Attribute):
            return None
        repo = self.seq.repo
        if isinstance(fn.value, ast.Name) and fn.value.id in ("self", "cls"):
            return repo.lookup_method(self.seq.inst, fn.attr)
        if isinstance(fn.value, ast.Call) and ap(fn.value.func) == "super" and self.f.cls is not None:
            mro = repo.mro(self.seq.inst)
            idx = [i for i, k in enumerate(mro) if k == self.f.cls]
            start = idx[0] + 1 if idx else 1
            for k in mro[start:]:
                if fn.attr in k.methods:
                    return k.methods[fn.attr]
        return None


def _merge_clamp(ops: List[Op]) -> List[Op]:
    if len(ops) >= 2 and ops[-1].kind == "clamp" and ops[-2].kind == "clamp":
        a, b = ops[-2], ops[-1]
        lo = a.a if a.a is not None else b.a
        hi = a.b if a.b is not None else b.b
        if (a.a is None) != (b.a is None):
            return ops[:-2] + [Op("clamp", lo, hi, node=b.node)]
    return ops


def _prim_bound(e: Optional[ast.AST], which: str) -> bool:
    """`<spec path>.max_val` / `.min_val`: the range of the primitive the integer is handed to."""
    return isinstance(e, ast.Attribute) and e.attr == which and ap(e.value) is not None


def _mark_saturation(ops: List[Op]) -> List[Op]:
    """A clamp that follows the rounding and whose bounds are the primitive's own max_val / min_val is a
    saturation: the identity on every code that rounding maps into the primitive's range (so it cannot disturb
    encode(decode(raw)) == raw); any other clamp after scaling stays a clamp and is reported."""
    out = []
    rounded = False
    for o in ops:
        if o.kind == "round":
            rounded = True
        if o.kind == "clamp" and rounded and (o.a is None or _prim_bound(o.a, "min_val")) \
                and (o.b is None or _prim_bound(o.b, "max_val")) and (o.a is not None or o.b is not None):
            out.append(Op("saturate", o.a, o.b, node=o.node))
            continue
        if o.kind in ("mul", "div", "rdiv"):
            rounded = rounded and False
        out.append(o)
    return out


def _inverse(op: Op) -> Op:
    k = {"add": "sub", "sub": "add", "mul": "div", "div": "mul"}.get(op.kind, op.kind)
    if op.kind == "cond":
        return Op("cond", op.a, inner=[_inverse(o) for o in reversed(op.inner or [])])
    return Op(k, op.a)


def _canon(ops: List[Op]):
    """Canonical form of an affine op list: runs of commuting ops become sorted tuples."""
    out = []
    run, run_kind = [], None
    def flush():
        nonlocal run, run_kind
        if run:
            out.append((run_kind, tuple(sorted(run))))
        run, run_kind = [], None
    for o in ops:
        grp = "additive" if o.kind in ("add", "sub") else "multiplicative" if o.kind in ("mul", "div") else None
        if grp is None:
            flush()
            if o.kind == "cond":
                out.append(("cond", _t(o.a), tuple(_canon(o.inner or []))))
            else:
                out.append((o.kind, _t(o.a)))
            continue
        if grp != run_kind:
            flush()
            run_kind = grp
        run.append(f"{o.kind}({_t(o.a)})")
    flush()
    return out


def _affine(ops: List[Op]) -> List[Op]:
    return [o for o in ops if o.kind in AFFINE or (o.kind == "cond")]


def _fmt(ops: List[Op]) -> str:
    return "[" + ", ".join(o.text() for o in ops) + "]"


# ------------------------------------------------------------------------------------------ R1

def _pairs(ctx) -> List[Tuple[ClassInfo, FuncInfo, FuncInfo, str]]:
    """(class, decode fn, encode fn, kind) for every class of the three families with a distinct pair."""
    repo = ctx.repo
    out = []
    seen = set()
    qfb = repo.cls("QuantizedFloatBase", SERMOD)
    for ci in sorted(repo.subclasses(qfb), key=lambda c: (len(repo.mro(c)), c.qual)):
        d = repo.lookup_method(ci, "_quantized_to_float")
        e = repo.lookup_method(ci, "_float_to_quantized")
        ctx.require(d is not None and e is not None, f"{ci.name}: _quantized_to_float/_float_to_quantized vanished")
        if (d.full, e.full) in seen:
            continue
        seen.add((d.full, e.full))
        out.append((ci, d, e, "qf"))
    fp = repo.cls("FixedPoint", SERMOD)
    for ci in sorted(repo.subclasses(fp), key=lambda c: (len(repo.mro(c)), c.qual)):
        d, e = repo.lookup_method(ci, "deserialize"), repo.lookup_method(ci, "serialize")
        ctx.require(d is not None and e is not None, f"{ci.name}: serialize/deserialize vanished")
        if (d.full, e.full) not in seen:
            seen.add((d.full, e.full))
            out.append((ci, d, e, "fp"))
    qn = repo.cls("QuantizedNumPyArray", SERMOD)
    for ci in sorted(repo.subclasses(qn), key=lambda c: (len(repo.mro(c)), c.qual)):
        d, e = repo.lookup_method(ci, "decode"), repo.lookup_method(ci, "encode")
        ctx.require(d is not None and e is not None, f"{ci.name}: encode/decode vanished")
        if (d.full, e.full) not in seen:
            seen.add((d.full, e.full))
            out.append((ci, d, e, "qn"))
    return out


RAW_NAME = "__raw__"


def _with_raw_source(f: FuncInfo) -> FuncInfo:
    """A reader-side method has no value parameter: the value enters through the read call
    (`spec.deserialize(reader, ctx)` / `reader.read(spec)`).  Returns a copy of the function in which that call
    is replaced by the name __raw__, so that the value can be tracked from there (through locals and helpers)."""
    from ..core import set_parents
    src_text = ast.unparse(f.node)
    tree = ast.parse(src_text)
    fn = tree.body[0]
    found = []

    class T(ast.NodeTransformer):
        def visit_Call(self, n):
            self.generic_visit(n)
            if isinstance(n.func, ast.Attribute) and n.func.attr in ("deserialize", "read", "read_bytes") \
                    and any(isinstance(a, ast.Name) and a.id == "reader" for a in ast.walk(n)):
                found.append(n)
                return ast.copy_location(ast.Name(id=RAW_NAME, ctx=ast.Load()), n)
            return n
    fn = T().visit(fn)
    if len(found) != 1:
        raise AnalysisError(f"C10: {f.qual}: expected exactly one read of the raw value, found {len(found)}")
    ast.fix_missing_locations(tree)
    set_parents(tree)
    # keep original line numbers for diagnostics
    off = f.node.lineno - fn.lineno
    for n in ast.walk(fn):
        if hasattr(n, "lineno"):
            n.lineno += off
        if getattr(n, "end_lineno", None) is not None:
            n.end_lineno += off
    return FuncInfo(f.name, f.qual, f.module, fn, f.cls, f.parent_fn)


def _tracked_for(f: FuncInfo, kind: str, side: str) -> Optional[str]:
    return RAW_NAME if kind == "fp" and side == "dec" else None


def _expand_locals(f: FuncInfo, e: ast.AST) -> ast.AST:
    """Replace locals that are assigned exactly once (plain `name = expr`) by their defining expression."""
    sts = [s for s in stores(f.node, into_defs=False) if "." not in s.path and "[" not in s.path]
    counts: Dict[str, int] = {}
    for s_ in sts:
        counts[s_.path] = counts.get(s_.path, 0) + 1
    params = {a.arg for a in f.node.args.args}
    defs = {s_.path: s_.value for s_ in sts
            if counts[s_.path] == 1 and s_.kind == "assign" and s_.value is not None and s_.path not in params
            and isinstance(s_.target, ast.Name) and isinstance(s_.node, (ast.Assign, ast.AnnAssign))
            and not (isinstance(s_.node, ast.Assign) and any(isinstance(t, (ast.Tuple, ast.List)) for t in s_.node.targets))}
    # `a, b = expr` (single unpacking of a non-display value): a -> expr[0], b -> expr[1]
    for n in walk(f.node):
        if isinstance(n, ast.Assign) and len(n.targets) == 1 and isinstance(n.targets[0], (ast.Tuple, ast.List)) \
                and not isinstance(n.value, (ast.Tuple, ast.List)):
            for i, t in enumerate(n.targets[0].elts):
                if isinstance(t, ast.Name) and counts.get(t.id) == 1 and t.id not in params:
                    defs[t.id] = ast.Subscript(value=n.value, slice=ast.Constant(value=i), ctx=ast.Load())
        elif isinstance(n, ast.Assign) and len(n.targets) == 1 and isinstance(n.targets[0], (ast.Tuple, ast.List)) \
                and isinstance(n.value, (ast.Tuple, ast.List)) and len(n.value.elts) == len(n.targets[0].elts):
            for t, v in zip(n.targets[0].elts, n.value.elts):
                if isinstance(t, ast.Name) and counts.get(t.id) == 1 and t.id not in params:
                    defs[t.id] = v
    e = _clone(e)
    for _ in range(6):
        names = {n.id for n in ast.walk(e) if isinstance(n, ast.Name)}
        todo = {k: v for k, v in defs.items() if k in names}
        if not todo:
            break
        if isinstance(e, ast.Starred):
            e = ast.Starred(value=_Subst(todo).visit(ast.Expression(body=e.value)).body, ctx=ast.Load())
        else:
            e = _Subst(todo).visit(ast.Expression(body=e)).body
    return e


def r1(ctx, pairs, seqs):
    ctx.rule("C10.R1", "affine inverse (op-sequence domain): encode's affine part is the reversed inverse of decode's, "
                       "the encoder rounds to nearest, only clamp / zero-median nudge / rounding besides; encode and "
                       "decode use the same range")
    repo = ctx.repo
    for ci, d, e, kind in pairs:
        dec, enc = seqs[ci]
        where = ctx.w(e, e.node)
        tag = f"{ci.name}: {e.qual}"
        tag_d = f"{ci.name}: {d.qual}"
        da, ea = _affine(dec), _affine(enc)
        want = [_inverse(o) for o in reversed(da)]
        ctx.ob("C10.R1", f"{tag}: affine part is the reversed inverse of {d.qual}",
               _canon(ea) == _canon(want) and bool(da), where,
               f"decode {_fmt(da)} needs encode {_fmt(want)}, found {_fmt(ea)}")
        # rounding mode: first integer conversion after the last affine op is a round-to-nearest
        last_aff = max([i for i, o in enumerate(enc) if o.kind in AFFINE or o.kind == "cond"] or [-1])
        # a trailing integer offset (`+ prim_min`) after the rounding is part of the affine sequence
        conv = [(i, o) for i, o in enumerate(enc) if o.kind in ("round", "trunc")]
        ok_round = bool(conv) and conv[0][1].kind == "round"
        if ok_round:
            # nothing multiplicative may follow the rounding
            ok_round = not any(o.kind in ("mul", "div", "rdiv") for o in enc[conv[0][0]:])
            # and every multiplicative op precedes it
        ctx.ob("C10.R1", f"{tag}: integer conversion is round-to-nearest after scaling", ok_round,
               ctx.w(e, conv[0][1].node) if conv else where,
               f"encode ops {_fmt(enc)}: " + ("no integer conversion found" if not conv else
                                             f"first conversion is {conv[0][1].text()} (truncation biases every "
                                             f"code by up to one step)" if conv[0][1].kind != "round" else
                                             "scaling after rounding"))
        # other ops
        extras_e = [o for o in enc if o.kind in ("call", "condassign", "condreturn", "neg", "rsub", "rdiv")]
        extras_d = [o for o in dec if o.kind in ("call", "condassign", "condreturn", "clamp", "round", "trunc",
                                                 "neg", "rsub", "rdiv")]
        clamps = [i for i, o in enumerate(enc) if o.kind == "clamp"]
        first_aff = min([i for i, o in enumerate(enc) if o.kind in AFFINE or o.kind == "cond"] or [len(enc)])
        late_clamp = [enc[i] for i in clamps if i > first_aff]
        ctx.ob("C10.R1", f"{tag}: only clamp (before scaling), zero-median nudge and rounding besides "
                         f"the affine part", not extras_e and not late_clamp, where,
               f"non-invertible / unknown ops {[o.text() for o in extras_e + late_clamp]} in encode ops {_fmt(enc)}")
        ctx.ob("C10.R1", f"{tag_d}: decoder is affine up to the zero-median nudge", not extras_d, ctx.w(d, d.node),
               f"extra ops {[o.text() for o in extras_d]} in decode ops {_fmt(dec)}")
    # encode()/decode() of the QuantizedFloatBase family pass the same range to both directions
    qfb = repo.cls("QuantizedFloatBase", SERMOD)
    n = 0
    seen_pairs = set()
    for ci in sorted(repo.subclasses(qfb), key=lambda c: (len(repo.mro(c)), c.qual)):
        # looked up through the MRO: the pair may live in the base class (range read from a per-class hook)
        encf, decf = repo.lookup_method(ci, "encode"), repo.lookup_method(ci, "decode")
        if encf is None or decf is None or encf.cls is None or decf.cls is None \
                or not _is_sub(repo, encf.cls, "QuantizedFloatBase") or not _is_sub(repo, decf.cls, "QuantizedFloatBase"):
            continue
        if (encf.full, decf.full) in seen_pairs:
            continue
        seen_pairs.add((encf.full, decf.full))
        ec = [c for c in calls(encf.node) if ap(c.func) == "self._float_to_quantized"]
        dc = [c for c in calls(decf.node) if ap(c.func) == "self._quantized_to_float"]
        n += 1
        ok = len(ec) == 1 and len(dc) == 1 and \
            [_t(_expand_locals(encf, a)) for a in ec[0].args[1:]] == [_t(_expand_locals(decf, a)) for a in dc[0].args[1:]] \
            and not ec[0].keywords and not dc[0].keywords and len(ec[0].args) >= 2
        owner = encf.cls.name if encf.cls == decf.cls else ci.name
        ctx.ob("C10.R1", f"{owner}: encode and decode pass the same (lower, upper)", ok, encf.where,
               f"encode calls {[norm(c) for c in ec]}, decode calls {[norm(c) for c in dc]}")
    ctx.floor("C10.R1", "encode/decode pairs of the QuantizedFloatBase family", n, 1)


# ------------------------------------------------------------------------------------------ instances

@dataclass
class Inst:
    key: str
    kind: str               # qf | fp | qn
    cls: ClassInfo          # class whose constructor chain is evaluated
    args: list
    kwargs: dict
    mod: Module
    node: ast.AST
    note: str = ""
    outer: Optional[tuple] = None   # (tuple-coord class, args, kwargs) when this is a component of a vector form


def _context_path(node) -> str:
    parts = []
    cur = node
    for a in ancestors(node):
        if isinstance(a, ast.Dict):
            for k, v in zip(a.keys, a.values):
                if v is cur or any(x is cur for x in ast.walk(v)):
                    if isinstance(k, ast.Constant):
                        parts.append(f"[{k.value!r}]")
                    elif k is not None:
                        parts.append(f"[{_t(k)}]")
                    break
        elif isinstance(a, ast.Assign):
            parts.append(ap(a.targets[0]) or "?")
        elif isinstance(a, ast.AnnAssign):
            parts.append(ap(a.target) or "?")
        elif isinstance(a, ast.ClassDef):
            parts.append(a.name + ".")
        elif isinstance(a, FUNC_TYPES):
            parts.append(a.name + "().")
        elif isinstance(a, ast.keyword) and a.arg:
            parts.append(f"<{a.arg}>")
        cur = a
    return "".join(reversed(parts))


def _class_env(repo, ci: ClassInfo) -> Dict[str, Any]:
    ev = ConstEval(repo, ci.module)
    env: Dict[str, Any] = {}
    for st in ci.node.body:
        if isinstance(st, ast.Assign) and len(st.targets) == 1 and isinstance(st.targets[0], ast.Name):
            env[st.targets[0].id] = ev.ev(st.value, env)
    return env


def _dtype_of(repo: Repo, mod: Module, node: ast.AST) -> Optional[Obj]:
    """np.dtype(np.uint16)... -> Obj(dtype, itemsize, unsigned)."""
    seen = 0
    while isinstance(node, ast.Name) and seen < 4:
        nxt = repo.module_assign(mod, node.id)
        if nxt is None:
            return None
        node, seen = nxt, seen + 1
    for n in ast.walk(node):
        if isinstance(n, ast.Attribute) and isinstance(n.value, ast.Name) and mod.imports.get(n.value.id) == "numpy":
            for pre, uns in (("uint", True), ("int", False)):
                if n.attr.startswith(pre) and n.attr[len(pre):].isdigit():
                    return Obj("dtype", itemsize=int(n.attr[len(pre):]) // 8, unsigned=uns)
    return None


def discover(ctx, prims) -> List[Inst]:
    repo = ctx.repo
    out: List[Inst] = []
    qtc = repo.cls("QuantizedTupleCoord", SERMOD)
    fptc = repo.cls("FixedPointTupleCoord", SERMOD)
    qf_cls = repo.cls("QuantizedFloat", SERMOD)
    fp_cls = repo.cls("FixedPoint", SERMOD)

    # the two generic tuple constructors are modelled: check that the model still describes them
    def generic_ctor(ci, target, want_args, forwarded):
        """The instance table models `ci(...)` as one `target(self.ELEM_SPEC, ...)` per component.  What the model
        relies on (and what is checked, wherever in the class' own methods the construction happens - helper
        generators included): the primitive is self.ELEM_SPEC; parameters listed in `forwarded` are handed on
        under the same name; the remaining range arguments are passed through untouched (plain names /
        attributes, no arithmetic, no constants) and nothing else (e.g. zero_median) is supplied."""
        init = ci.methods.get("__init__")
        ctx.require(init is not None, f"{ci.name}.__init__ vanished")
        tinit = repo.lookup_method(target, "__init__")
        ctx.require(tinit is not None, f"{target.name}.__init__ vanished")
        tparams = [a.arg for a in tinit.node.args.args][1:]
        iparams = [a.arg for a in init.node.args.args][1:]
        cs = []
        for m in ci.methods.values():
            cs += [c for c in calls(m.node, into_defs=True) if _resolve_cls(repo, ci.module, c.func) == target]
        problems = []
        for c in cs:
            if any(isinstance(a, ast.Starred) for a in c.args) or any(k.arg is None for k in c.keywords) \
                    or len(c.args) > len(tparams):
                problems.append(f"{norm(c)}: star arguments")
                continue
            bound = dict(zip(tparams, c.args))
            bound.update({k.arg: k.value for k in c.keywords})
            if _t(bound.get(tparams[0])) != "self.ELEM_SPEC":
                problems.append(f"{norm(c)}: primitive is not self.ELEM_SPEC")
            for name, val in bound.items():
                if name == tparams[0]:
                    continue
                if name in forwarded:
                    if not (isinstance(val, ast.Name) and val.id == name and name in iparams):
                        problems.append(f"{norm(c)}: {name} is not the constructor's own `{name}` parameter")
                elif name in want_args:
                    idx_consts = {id(n.slice) for n in ast.walk(val) if isinstance(n, ast.Subscript)}
                    if any(isinstance(n, (ast.BinOp, ast.UnaryOp, ast.Call, ast.IfExp)) or
                           (isinstance(n, ast.Constant) and id(n) not in idx_consts) for n in ast.walk(val)):
                        problems.append(f"{norm(c)}: {name}={_t(val)} is computed, not passed through")
                else:
                    problems.append(f"{norm(c)}: supplies {name}, which the instance table does not model")
            missing = [n for n in want_args if n not in bound]
            if missing:
                problems.append(f"{norm(c)}: {missing} not supplied")
        ok = bool(cs) and not problems
        shown = ["self.ELEM_SPEC"] + list(want_args)
        ctx.ob("C10.R3", f"{ci.name}.__init__ builds {target.name}({', '.join(shown)}) per component", ok, init.where,
               f"element construction changed ({problems[:3] or 'no construction found'}): the instance table no "
               f"longer models it")
        return {id(c) for c in cs}
    modelled = set()
    modelled |= generic_ctor(qtc, qf_cls, ["lower", "upper"], ())
    modelled |= generic_ctor(fptc, fp_cls, ["int_bits", "frac_bits", "signed"], ("int_bits", "frac_bits", "signed"))

    for mod in repo.modules.values():
        num = Num(repo, mod, prims)
        for c in calls(mod.tree, into_defs=True):
            if id(c) in modelled:
                continue
            ci = _resolve_cls(repo, mod, c.func)
            if ci is None:
                continue
            fam = "qf" if _is_sub(repo, ci, "QuantizedFloatBase") else "qtc" if _is_sub(repo, ci, "QuantizedTupleCoord") \
                else "fp" if _is_sub(repo, ci, "FixedPoint") else "fptc" if _is_sub(repo, ci, "FixedPointTupleCoord") \
                else "qn" if _is_sub(repo, ci, "QuantizedNumPyArray") else None
            if fam is None:
                continue
            encl = None
            for a in ancestors(c):
                if isinstance(a, ast.ClassDef):
                    encl = a
                    break
            env: Dict[str, Any] = {}
            if encl is not None:
                for k in repo.classes.get(encl.name, []):
                    if k.node is encl:
                        for name, v in _class_env(repo, k).items():
                            try:
                                env[name] = num._from_const(v, encl)
                            except Unknown:
                                pass
            where = f"{mod.rel}:{c.lineno}"
            # a construction inside a module-level factory function is one instance per call of the factory
            fac = None
            for a_ in ancestors(c):
                if isinstance(a_, FUNC_TYPES):
                    fac = a_ if isinstance(parent(a_), ast.Module) else None
                    break
            if fac is not None:
                envs = _factory_envs(repo, prims, mod, fac, 0)
                if not envs:
                    ctx.note(f"C10.R3: {where} {norm(c)[:60]} sits in {fac.name}(), which is never called with constants; "
                             f"not tabled")
                    continue
            else:
                envs = [(env, "")]
            for env, site_label in envs:
                _table_one(ctx, repo, prims, out, c, ci, fam, mod, num, env, where, site_label, qf_cls, fp_cls)
    return out


def _bind_call(num: "Num", fn_node, call: ast.Call, env: Dict[str, Any], where: str) -> Dict[str, Any]:
    """Parameter environment of `fn_node` for the call (constants only)."""
    a = fn_node.args
    params = [x.arg for x in a.args]
    out: Dict[str, Any] = {}
    if any(isinstance(x, ast.Starred) for x in call.args) or any(k.arg is None for k in call.keywords) \
            or len(call.args) > len(params):
        raise AnalysisError(f"C10: {where}: call {norm(call)} of factory {fn_node.name} uses star arguments")
    try:
        for p_, v in zip(params, call.args):
            out[p_] = num.ev(v, env)
        for k in call.keywords:
            out[k.arg] = num.ev(k.value, env)
        defaults = [None] * (len(params) - len(a.defaults)) + list(a.defaults)
        for p_, d in zip(params, defaults):
            if p_ not in out and d is not None:
                out[p_] = num.ev(d, {})
    except Unknown as u:
        # type / class arguments (Vector3, ...) are irrelevant to the numeric table: leave them unbound
        pass
    for p_, v in zip(params, call.args):
        if p_ not in out:
            try:
                out[p_] = num.ev(v, env)
            except Unknown:
                pass
    return out


def _factory_envs(repo: Repo, prims, mod: Module, fac, depth: int) -> List[Tuple[Dict[str, Any], str]]:
    """Parameter environments of a module-level factory function, one per call site with constant arguments
    (call sites inside another factory are expanded through that factory's own call sites)."""
    if depth > 3:
        return []
    out: List[Tuple[Dict[str, Any], str]] = []
    for m2 in repo.modules.values():
        for c in calls(m2.tree, into_defs=True):
            fn = c.func
            hit = False
            if isinstance(fn, ast.Name) and fn.id == fac.name:
                tgt = m2.imports.get(fn.id)
                hit = (m2 is mod and tgt is None) or (tgt == f"{mod.name}.{fac.name}")
            elif isinstance(fn, ast.Attribute) and fn.attr == fac.name and isinstance(fn.value, ast.Name):
                hit = m2.imports.get(fn.value.id) == mod.name
            if not hit:
                continue
            num = Num(repo, m2, prims)
            outer = None
            for a_ in ancestors(c):
                if isinstance(a_, FUNC_TYPES):
                    outer = a_ if isinstance(parent(a_), ast.Module) else False
                    break
            if outer is False:
                continue        # called from a method / nested function: not a table row
            base_envs = _factory_envs(repo, prims, m2, outer, depth + 1) if outer is not None else [({}, "")]
            for benv, blabel in base_envs:
                env = _bind_call(num, fac, c, benv, f"{m2.rel}:{c.lineno}")
                label = (blabel + " " if blabel else "") + f"{m2.name.split('.')[-1]}:{_context_path(c)}"
                out.append((env, label))
    return out


def _table_one(ctx, repo, prims, out, c, ci, fam, mod, num, env, where, site_label, qf_cls, fp_cls):
            def evarg(a, env=env, depth=0):
                if fam == "qn" and isinstance(a, ast.Call):
                    k = _resolve_cls(repo, mod, a.func)
                    if k is not None and k.name == "NumPyArray":
                        dt = _dtype_of(repo, mod, a.args[1]) if len(a.args) > 1 else None
                        if dt is None:
                            raise AnalysisError(f"C10: {where}: dtype of {norm(a)} not resolvable")
                        return Obj("NumPyArray", dtype=dt)
                    # a factory returning the array spec: follow its single return expression
                    if k is None and isinstance(a.func, ast.Name) and depth < 3:
                        cands = [g for g in repo.funcs.get(a.func.id, []) if g.module is mod and g.cls is None
                                 and g.parent_fn is None]
                        if len(cands) == 1:
                            rets = [r for r in walk(cands[0].node) if isinstance(r, ast.Return) and r.value is not None]
                            if len(rets) == 1:
                                env2 = _bind_call(num, cands[0].node, a, env, where)
                                return evarg(rets[0].value, env2, depth + 1)
                try:
                    return num.ev(a, env)
                except Unknown as u:
                    raise AnalysisError(f"C10: {where}: argument `{u}` of {norm(c)} is not a constant "
                                        f"(instance cannot be tabled)")
            args = []
            for a in c.args:
                if isinstance(a, ast.Starred):
                    v = evarg(a.value)
                    if not isinstance(v, tuple):
                        raise AnalysisError(f"C10: {where}: starred argument of {norm(c)} is not a constant tuple")
                    args.extend(v)
                else:
                    args.append(evarg(a))
            kwargs = {}
            for k in c.keywords:
                if k.arg is None:
                    raise AnalysisError(f"C10: {where}: **kwargs in {norm(c)}")
                kwargs[k.arg] = evarg(k.value)
            short = mod.name.split(".")[-1]
            base_key = f"{short}:{site_label.split(':', 1)[-1] if site_label else _context_path(c)}: {ci.name}"
            if fam in ("qf", "fp", "qn"):
                out.append(Inst(f"{base_key}({_argtxt(args, kwargs)})", fam, ci, args, kwargs, mod, c))
            elif fam == "qtc":
                elem = repo.class_attr(ci, "ELEM_SPEC")
                prim = Num(repo, ci.module, prims).ev(elem, {}) if elem is not None else None
                if not isinstance(prim, PrimVal):
                    raise AnalysisError(f"C10: {ci.name}.ELEM_SPEC is not an integer primitive")
                names = ["lower", "upper", "component_scales"]
                bound = dict(zip(names, args))
                bound.update(kwargs)
                if bound.get("component_scales"):
                    scales = bound["component_scales"]
                else:
                    if bound.get("lower") is None or bound.get("upper") is None:
                        ctx.ob("C10.R3", f"{base_key}: range given", False, where, "neither (lower, upper) nor scales")
                        return
                    scales = ((bound["lower"], bound["upper"]),)
                for lo, hi in dict.fromkeys(scales):
                    out.append(Inst(f"{base_key}[{prim.name} {lo}..{hi}]", "qf", qf_cls, [prim, lo, hi], {}, mod, c,
                                    outer=(ci, args, kwargs)))
            elif fam == "fptc":
                elem = repo.class_attr(ci, "ELEM_SPEC")
                prim = Num(repo, ci.module, prims).ev(elem, {}) if elem is not None else None
                if not isinstance(prim, PrimVal):
                    raise AnalysisError(f"C10: {ci.name}.ELEM_SPEC is not an integer primitive")
                out.append(Inst(f"{base_key}({_argtxt(args, kwargs)})", "fp", fp_cls, [prim] + args, kwargs, mod, c,
                                outer=(ci, args, kwargs)))


def _argtxt(args, kwargs) -> str:
    def one(v):
        if isinstance(v, Obj):
            return v.kind
        if isinstance(v, float):
            return repr(round(v, 9))
        return repr(v)
    return ", ".join([one(a) for a in args] + [f"{k}={one(v)}" for k, v in kwargs.items()])


# ------------------------------------------------------------------------------------------ numeric application of op sequences

def _apply(num: Num, ops: List[Op], x: float, env: Dict[str, Any]) -> float:
    for o in ops:
        if o.kind in ("nudge", "round", "trunc", "condassign", "condreturn"):
            continue
        if o.kind == "cond":
            if num.ev(o.a, env):
                x = _apply(num, o.inner or [], x, env)
            continue
        if o.kind in ("clamp", "saturate"):
            continue
        a = num.ev(o.a, env) if o.a is not None else None
        if a is not None and (isinstance(a, bool) or not isinstance(a, (int, float))):
            raise Unknown(f"{o.text()} = {a!r}")
        if o.kind == "add":
            x = x + a
        elif o.kind == "sub":
            x = x - a
        elif o.kind == "mul":
            x = x * a
        elif o.kind == "div":
            x = x / a
        elif o.kind == "rsub":
            x = a - x
        elif o.kind == "rdiv":
            x = a / x
        elif o.kind == "neg":
            x = -x
        else:
            raise Unknown(o.text())
    return x


def r2_r3(ctx, pairs, seqs, prims):
    repo = ctx.repo
    ctx.rule("C10.R2", "endpoint exactness precondition: step_mag == 1/(raw_max - raw_min) wherever it is set")
    ctx.rule("C10.R3", "instance table: lower < upper, constructor assertions hold, clamp does not cut the decoded "
                       "wire range, zero_median on iff zero lies half-way between the central codes (off when zero "
                       "is itself a code)")
    con = Construct(repo, prims)

    # R2, class level: QuantizedFloatBase.__init__ over every integer primitive; QuantizedNumPyArray over item sizes
    qfb = repo.cls("QuantizedFloatBase", SERMOD)
    for p in sorted(set(prims.values()), key=lambda p: (p.size, p.is_signed)):
        attrs, _ = con.run(qfb, [p, False], {})
        sm = attrs.get("self.step_mag", UNK)
        ok = sm is not UNK and isinstance(sm, float) and sm == 1.0 / (p.max_val - p.min_val)
        ctx.ob("C10.R2", f"QuantizedFloatBase.__init__[{p.name}]: step_mag == 1/(max_val - min_val)", ok,
               qfb.methods["__init__"].where, f"step_mag evaluates to {sm!r}, needs {1.0 / (p.max_val - p.min_val)!r}: "
               f"otherwise decode(raw_max) != upper")
        pm = attrs.get("self.prim_min", UNK)
        ctx.ob("C10.R2", f"QuantizedFloatBase.__init__[{p.name}]: prim_min == min_val", pm == p.min_val,
               qfb.methods["__init__"].where, f"prim_min evaluates to {pm!r}")
    qn = repo.cls("QuantizedNumPyArray", SERMOD)
    for size in (1, 2, 4):
        arr = Obj("NumPyArray", dtype=Obj("dtype", itemsize=size, unsigned=True))
        attrs, _ = con.run(qn, [arr, 0.0, 1.0], {})
        sm = attrs.get("self.step_mag", UNK)
        ok = sm is not UNK and sm == 1.0 / (2 ** (8 * size) - 1)
        ctx.ob("C10.R2", f"QuantizedNumPyArray.__init__[itemsize {size}]: step_mag == 1/(2^bits - 1)", ok,
               qn.methods["__init__"].where, f"step_mag evaluates to {sm!r}")
    # classes (other than the base) that store step_mag themselves
    overriders: Dict[ClassInfo, List[Tuple[FuncInfo, ast.AST]]] = {}
    for ci in repo.subclasses(qfb, strict=True):
        for f in ci.methods.values():
            for s in stores(f.node):
                if s.path == "self.step_mag":
                    overriders.setdefault(ci, []).append((f, s.node))

    insts = discover(ctx, prims)
    ctx.floor("C10.R3", "quantiser / fixed-point instances", len(insts), 35)
    checked_over: Set[ClassInfo] = set()
    seq_of = {ci: seqs[ci] for ci, _, _, _ in pairs}

    def seq_for(ci: ClassInfo):
        # op sequences of the most derived analysed class in ci's MRO
        for k in repo.mro(ci):
            if k in seq_of:
                # a subclass that overrides neither direction shares the pair of its base
                return seq_of[k], k
        raise AnalysisError(f"C10: no op sequence for {ci.name}")

    for inst in insts:
        where = ctx.w(inst.mod, inst.node)
        try:
            attrs, asserts = con.run(inst.cls, inst.args, inst.kwargs)
        except AnalysisError as e:
            raise AnalysisError(f"{where} {inst.key}: {e}")
        for text, val, f, node in asserts:
            ctx.ob("C10.R3", f"{inst.key}: constructor assertion {text}", val is True, where,
                   f"assertion in {f.qual} evaluates to {val}: " +
                   ("the instance cannot be constructed / mis-encodes" if val is False else "not decidable"))
        prim: Optional[PrimVal] = attrs.get("__prim__")
        (dec, enc), seq_cls = seq_for(inst.cls)
        num = Num(repo, seq_cls.module, prims)
        if inst.kind == "qf":
            lo, hi = attrs.get("self.lower", UNK), attrs.get("self.upper", UNK)
            if lo is UNK or hi is UNK or not isinstance(lo, (int, float)) or not isinstance(hi, (int, float)):
                ctx.note(f"C10.R3: {where} {inst.key}: range is context dependent (lower/upper not constant); "
                         f"only the primitive is tabled")
                ctx.ob("C10.R3", f"{inst.key}: integer primitive", isinstance(prim, PrimVal), where)
                continue
            ctx.ob("C10.R3", f"{inst.key}: lower < upper", lo < hi, where,
                   f"range [{lo}, {hi}]: decode must be increasing in the raw value")
            if not (lo < hi) or prim is None:
                continue
            sm = attrs.get("self.step_mag", UNK)
            span = prim.max_val - prim.min_val
            if inst.cls in overriders and inst.cls not in checked_over:
                checked_over.add(inst.cls)
                f, node = overriders[inst.cls][0]
                ctx.ob("C10.R2", f"{inst.cls.name}.{f.name}: overridden step_mag == 1/(max_val - min_val)",
                       sm is not UNK and sm == 1.0 / span, ctx.w(f, node),
                       f"step_mag evaluates to {sm!r}, 1/(max_val - min_val) = {1.0 / span!r}: decode(raw_max) = "
                       f"lower + {span}*step_mag*(upper-lower) is not `upper`")
            if sm is UNK:
                raise AnalysisError(f"{where} {inst.key}: step_mag not evaluable")
            env = {**attrs, "lower": lo, "upper": hi}
            self_check_range(ctx, inst, where, num, dec, enc, env, prim.min_val, prim.max_val)
            # zero position in code units
            z = (0.0 - lo) / (hi - lo) / sm
            zm = attrs.get("self.zero_median", UNK)
            frac = z - math.floor(z)
            inside = 0 < z < span
            if inside and abs(frac - 0.5) < 1e-6:
                ctx.ob("C10.R3", f"{inst.key}: zero-centred range rounds to zero (zero_median on)", zm is True, where,
                       f"zero sits at code {z:.4f} (half-way between two codes) but zero_median={zm}: 0.0 has no exact "
                       f"code, the centre of the range cannot decode to 0")
            elif 0 <= round(z) <= span and abs(z - round(z)) < 1e-6:
                ctx.ob("C10.R3", f"{inst.key}: zero is a code (zero_median off)", zm is False, where,
                       f"zero is exactly code {round(z)} but zero_median={zm}: the neighbouring codes decode to +-one "
                       f"step, exactly the snap threshold, so they collapse onto zero's code when re-encoded")
            else:
                ctx.ob("C10.R3", f"{inst.key}: zero_median consistent", zm is False or zm is True, where,
                       f"zero_median={zm}")
        elif inst.kind == "fp":
            if prim is None:
                ctx.ob("C10.R3", f"{inst.key}: integer primitive", False, where, "no primitive reached FixedPoint.__init__")
                continue
            env = dict(attrs)
            self_check_range(ctx, inst, where, num, dec, enc, env, prim.min_val, prim.max_val)
        elif inst.kind == "qn":
            lo, hi = attrs.get("self.lower", UNK), attrs.get("self.upper", UNK)
            dt = attrs.get("self.dtype", UNK)
            ctx.ob("C10.R3", f"{inst.key}: lower < upper", lo is not UNK and hi is not UNK and lo < hi, where,
                   f"range [{lo}, {hi}]")
            ok_dt = isinstance(dt, Obj) and dt.attrs.get("unsigned") is True
            ctx.ob("C10.R3", f"{inst.key}: unsigned dtype", ok_dt, where,
                   "QuantizedNumPyArray has no signed offset: a signed dtype mis-decodes negative raws")
            if ok_dt and lo is not UNK and hi is not UNK and lo < hi:
                self_check_range(ctx, inst, where, num, dec, enc, dict(attrs), 0, 2 ** (8 * dt.attrs["itemsize"]) - 1)
    for ci, lst in overriders.items():
        if ci not in checked_over:
            f, node = lst[0]
            ctx.note(f"C10.R2: {ci.name}.{f.name} overrides step_mag but no constant instance of {ci.name} exists; "
                     f"not evaluated")
    ctx.stats["C10.R3.instances"] = len(insts)


def self_check_range(ctx, inst: Inst, where, num: Num, dec, enc, env, raw_min, raw_max):
    """Clamp bounds of the encoder must enclose the decoded images of the raw extremes, and decode must be
    increasing over them."""
    try:
        d_lo = _apply(num, dec, float(raw_min), env)
        d_hi = _apply(num, dec, float(raw_max), env)
    except Unknown as u:
        raise AnalysisError(f"{where} {inst.key}: decode not evaluable on the raw extremes ({u})")
    if not all(isinstance(x, (int, float)) and not isinstance(x, bool) for x in (d_lo, d_hi)):
        raise AnalysisError(f"{where} {inst.key}: decode of the raw extremes is not numeric ({d_lo!r}, {d_hi!r})")
    ctx.ob("C10.R3", f"{inst.key}: decode increasing over the raw range", d_lo < d_hi, where,
           f"decode({raw_min}) = {d_lo!r}, decode({raw_max}) = {d_hi!r}")
    tol = 1e-9 * max(1.0, abs(d_lo), abs(d_hi))
    for o in enc:
        if o.kind != "clamp":
            continue
        try:
            c_lo = num.ev(o.a, env) if o.a is not None else None
            c_hi = num.ev(o.b, env) if o.b is not None else None
        except Unknown as u:
            raise AnalysisError(f"{where} {inst.key}: clamp bound not evaluable ({u})")
        if any(x is not None and (isinstance(x, bool) or not isinstance(x, (int, float))) for x in (c_lo, c_hi)):
            raise AnalysisError(f"{where} {inst.key}: clamp bound is not a number ({c_lo!r}, {c_hi!r})")
        ok = (c_lo is None or c_lo <= d_lo + tol) and (c_hi is None or c_hi >= d_hi - tol)
        ctx.ob("C10.R3", f"{inst.key}: clamp encloses the decoded wire range", ok, where,
               f"encoder clamps to [{c_lo!r}, {c_hi!r}] but raw {raw_min}..{raw_max} decode to [{d_lo!r}, {d_hi!r}]: "
               f"every raw value decoding outside the clamp re-encodes to the clamp's code")
    # the integer handed to the primitive stays inside the primitive's range: the clamp bounds pushed through the
    # encoder's affine part and the rounding, unless a saturation at the primitive's own bound follows the rounding
    allowed = ("clamp", "saturate", "nudge", "round", "trunc", "cond") + AFFINE
    clamps_ = [o for o in enc if o.kind == "clamp"]
    if clamps_ and all(o.kind in allowed for o in enc):
        try:
            c_lo = num.ev(clamps_[0].a, env) if clamps_[0].a is not None else None
            c_hi = num.ev(clamps_[0].b, env) if clamps_[0].b is not None else None
            aff = [o for o in enc if o.kind in AFFINE or o.kind == "cond"]
            r_hi = round(_apply(num, aff, float(c_hi), env)) if c_hi is not None else None
            r_lo = round(_apply(num, aff, float(c_lo), env)) if c_lo is not None else None
        except (Unknown, TypeError, OverflowError, ValueError):
            r_hi = r_lo = None
        sat_hi = any(o.kind == "saturate" and o.b is not None for o in enc)
        sat_lo = any(o.kind == "saturate" and o.a is not None for o in enc)
        bad = []
        if r_hi is not None and r_hi > raw_max and not sat_hi:
            bad.append(f"the top of the clamp range ({c_hi!r}) encodes to {r_hi}, above the primitive's maximum {raw_max}")
        if r_lo is not None and r_lo < raw_min and not sat_lo:
            bad.append(f"the bottom of the clamp range ({c_lo!r}) encodes to {r_lo}, below the primitive's minimum {raw_min}")
        ctx.ob("C10.R3", f"{inst.key}: encoder output stays inside the primitive's range", not bad, where,
               "; ".join(bad) + (": struct.pack raises instead of saturating - values at / above the end of the declared "
                                 "range cannot be encoded" if bad else ""))
    if inst.outer is not None:
        _vector_wrapper_check(ctx, inst, where, d_lo, d_hi, tol)




_NUMERIC_FUNCS = ("min", "max", "round", "int", "abs", "math.floor", "math.ceil", "math.trunc", "math.fmod", "math.fabs",
                  "math.copysign", "divmod", "pow")


def _derived_names(f: FuncInfo, seeds: Set[str], from_reads: bool) -> Set[str]:
    """Names carrying (components of) the value: the value parameter / results of reads, and everything assigned
    from or iterated out of them."""
    derived = set(seeds)

    def mentions(e) -> bool:
        for n in ast.walk(e):
            if isinstance(n, ast.Name) and n.id in derived:
                return True
            if from_reads and isinstance(n, ast.Call) and isinstance(n.func, ast.Attribute) \
                    and n.func.attr in ("read", "deserialize", "read_bytes"):
                return True
        return False
    for _ in range(6):
        before = len(derived)
        for n in walk(f.node, into_defs=True):
            if isinstance(n, ast.Assign) and mentions(n.value):
                for t in n.targets:
                    derived |= {x.id for x in ast.walk(t) if isinstance(x, ast.Name)}
            elif isinstance(n, (ast.For, ast.comprehension)) and mentions(n.iter):
                derived |= {x.id for x in ast.walk(n.target) if isinstance(x, ast.Name)}
        if len(derived) == before:
            break
    return derived


def _vector_wrapper_check(ctx, inst: Inst, where, d_lo, d_hi, tol):
    """serialize/deserialize of the tuple-coord class (overrides included) may only hand the components to / from
    the element codecs; a clamp applied to a component there must enclose the element's decoded wire range just
    like the element's own clamp, any other arithmetic on a component is an unmodelled, non-invertible step."""
    repo = ctx.repo
    tcls, targs, tkwargs = inst.outer
    prims = prim_table(repo)
    con = Construct(repo, prims, family=lambda c: _is_sub(repo, c, "TupleCoord"))
    try:
        attrs, _ = con.run(tcls, targs, tkwargs)
    except AnalysisError:
        attrs = {}
    problems = []
    nsite = 0
    for k in repo.mro(tcls):
        if not _is_sub(repo, k, "TupleCoord"):
            continue
        for meth in ("serialize", "deserialize"):
            f = k.methods.get(meth)
            if f is None:
                continue
            params = [a.arg for a in f.node.args.args]
            seeds = {params[1]} if meth == "serialize" and len(params) > 1 else set()
            derived = _derived_names(f, seeds, from_reads=(meth == "deserialize"))
            num = Num(repo, f.module, prims)

            def is_comp(e):
                return isinstance(e, ast.Name) and e.id in derived
            for n in walk(f.node, into_defs=True):
                if isinstance(n, ast.BinOp) and isinstance(n.op, (ast.Add, ast.Sub, ast.Mult, ast.Div, ast.FloorDiv, ast.Mod,
                                                                  ast.Pow)) and (is_comp(n.left) or is_comp(n.right)):
                    nsite += 1
                    problems.append(f"{f.qual}: `{norm(n)}` computes on a component")
                elif isinstance(n, ast.Call):
                    name = ap(n.func) or ""
                    last = name.split(".")[-1]
                    comp_args = [i for i, a in enumerate(n.args) if is_comp(a)]
                    if not comp_args or not (name in _NUMERIC_FUNCS or last in ("clip", "rint", "around", "floor", "ceil")):
                        continue
                    nsite += 1
                    lo_b = hi_b = None
                    if name in ("min", "max") and len(n.args) == 2 and len(comp_args) == 1:
                        b = n.args[1 - comp_args[0]]
                        lo_b, hi_b = (None, b) if name == "min" else (b, None)
                    elif last == "clip" and len(n.args) == 3 and comp_args == [0]:
                        lo_b, hi_b = n.args[1], n.args[2]
                    else:
                        problems.append(f"{f.qual}: `{norm(n)}` alters a component")
                        continue
                    try:
                        lo_v = num.ev(lo_b, attrs) if lo_b is not None else None
                        hi_v = num.ev(hi_b, attrs) if hi_b is not None else None
                    except Unknown as u:
                        raise AnalysisError(f"{where} {inst.key}: component clamp bound `{u}` in {f.qual} not evaluable")
                    for v in (lo_v, hi_v):
                        if v is not None and (isinstance(v, bool) or not isinstance(v, (int, float))):
                            raise AnalysisError(f"{where} {inst.key}: component clamp bound in {f.qual} is not a number")
                    if (lo_v is not None and lo_v > d_lo + tol) or (hi_v is not None and hi_v < d_hi - tol):
                        problems.append(f"{f.qual}: `{norm(n)}` clamps components to [{lo_v!r}, {hi_v!r}] but the "
                                        f"element decodes raws to [{d_lo!r}, {d_hi!r}]")
    # helpers that are handed the components (module-level function or method of the class): arithmetic there counts
    for k in repo.mro(tcls):
        if not _is_sub(repo, k, "TupleCoord"):
            continue
        for meth in ("serialize", "deserialize"):
            f = k.methods.get(meth)
            if f is None:
                continue
            params = [a.arg for a in f.node.args.args]
            seeds = {params[1]} if meth == "serialize" and len(params) > 1 else set()
            derived = _derived_names(f, seeds, from_reads=(meth == "deserialize"))
            for c in calls(f.node, into_defs=True):
                hit = [i for i, a in enumerate(c.args) if isinstance(a, ast.Name) and a.id in derived]
                if not hit:
                    continue
                callee = None
                if isinstance(c.func, ast.Name):
                    cands = [g for g in repo.funcs.get(c.func.id, []) if g.module is f.module and g.cls is None
                             and g.parent_fn is None]
                    callee = cands[0] if len(cands) == 1 else None
                    off = 0
                elif isinstance(c.func, ast.Attribute) and isinstance(c.func.value, ast.Name) and c.func.value.id in ("self", "cls"):
                    callee = repo.lookup_method(tcls, c.func.attr)
                    off = 0 if callee is not None and any((ap(d) or "").split(".")[-1] == "staticmethod"
                                                          for d in callee.node.decorator_list) else 1
                if callee is None or callee.name in ("_vals_to_tuple",):
                    continue
                cparams = [a.arg for a in callee.node.args.args]
                cseeds = {cparams[i + off] for i in hit if i + off < len(cparams)}
                cder = _derived_names(callee, cseeds, from_reads=False)
                for n in walk(callee.node, into_defs=True):
                    if isinstance(n, ast.BinOp) and isinstance(n.op, (ast.Add, ast.Sub, ast.Mult, ast.Div, ast.FloorDiv,
                                                                      ast.Mod, ast.Pow)) \
                            and any(isinstance(x, ast.Name) and x.id in cder for x in (n.left, n.right)):
                        nsite += 1
                        problems.append(f"{f.qual} -> {callee.qual}: `{norm(n)}` computes on a component "
                                        f"(even `x + 0.0` turns the -0.0 of the lower zero code into +0.0)")
                    elif isinstance(n, ast.Call) and ((ap(n.func) or "") in _NUMERIC_FUNCS) \
                            and any(isinstance(a, ast.Name) and a.id in cder for a in n.args):
                        nsite += 1
                        problems.append(f"{f.qual} -> {callee.qual}: `{norm(n)}` alters a component")
    # the coordinate class the decoded components are put into stores them verbatim
    cc = repo.class_attr(tcls, "COORD_CLS")
    coord = None
    if cc is not None:
        p_ = ap(cc) or ""
        owner = next((k for k in repo.mro(tcls) if any(isinstance(st, ast.Assign) and any(
            isinstance(t, ast.Name) and t.id == "COORD_CLS" for t in st.targets) for st in k.node.body)), tcls)
        coord = _resolve_cls(repo, owner.module, cc)
    if coord is not None:
        init = repo.lookup_method(coord, "__init__")
        if init is not None:
            iparams = {a.arg for a in init.node.args.args[1:]}
            for n in walk(init.node):
                pairs_ = []
                if isinstance(n, ast.Assign):
                    for t in n.targets:
                        if isinstance(t, (ast.Tuple, ast.List)) and isinstance(n.value, (ast.Tuple, ast.List)) \
                                and len(t.elts) == len(n.value.elts):
                            pairs_ += list(zip(t.elts, n.value.elts))
                        else:
                            pairs_.append((t, n.value))
                elif isinstance(n, ast.AnnAssign) and n.value is not None:
                    pairs_.append((n.target, n.value))
                for t, v in pairs_:
                    if not ((ap(t) or "").startswith("self.")):
                        continue
                    used = [x for x in ast.walk(v) if isinstance(x, ast.Name) and x.id in iparams]
                    from ..core import facts as _facts
                    cond = [e for e, _pol in _facts(n, init.node)
                            if any(isinstance(x, ast.Name) and x.id in iparams for x in ast.walk(e))]
                    if cond:
                        problems.append(f"{init.qual}: `{norm(n)}` happens only under `{norm(cond[0])}`: the stored "
                                        f"component depends on a test of the component (-0.0 is falsy / compares equal "
                                        f"to 0.0)")
                        continue
                    if not used:
                        continue
                    inner = v.args[0] if isinstance(v, ast.Call) and ap(v.func) == "float" and len(v.args) == 1 \
                        and not v.keywords else v
                    if not isinstance(inner, ast.Name):
                        problems.append(f"{init.qual}: `{norm(n)}` does not store the component verbatim "
                                        f"(a truth test / default / arithmetic on it loses e.g. the sign of -0.0)")
    ctx.stats["C10.R3.vector component transform sites"] = ctx.stats.get("C10.R3.vector component transform sites", 0) + nsite
    ctx.ob("C10.R3", f"{inst.key}: vector form hands components through unaltered (clamps enclose the decoded range)",
           not problems, where, "; ".join(problems[:3]) + (": raws decoding outside that clamp re-encode to the clamp's "
                                                           "code" if problems else ""))

# ------------------------------------------------------------------------------------------ R1 (wrappers) / R4 (purity)

def _family_codec_methods(ctx) -> List[Tuple[ClassInfo, FuncInfo]]:
    """encode/decode/serialize/deserialize and the two quantiser kernels of every class of the three families
    (own definitions only)."""
    repo = ctx.repo
    out, seen = [], set()
    for root in ROOTS:
        for ci in repo.subclasses(repo.cls(root, SERMOD)):
            for name in ("encode", "decode", "serialize", "deserialize", "_float_to_quantized", "_quantized_to_float"):
                f = ci.methods.get(name)
                if f is not None and f.full not in seen:
                    seen.add(f.full)
                    out.append((ci, f))
    return out


def r1_wrappers(ctx):
    """encode()/decode() of the QuantizedFloatBase family hand the raw parameter to the kernel and return the
    kernel's result unchanged (any rounding, constant substitution or remapping around it is an extra,
    non-invertible step that the kernel analysis would not see)."""
    repo = ctx.repo
    qfb = repo.cls("QuantizedFloatBase", SERMOD)
    for ci in repo.subclasses(qfb):
        for meth, kernel in (("decode", "_quantized_to_float"), ("encode", "_float_to_quantized")):
            f = ci.methods.get(meth)
            if f is None:
                continue
            ks = [c for c in calls(f.node, into_defs=True) if ap(c.func) == f"self.{kernel}"]
            if not ks:
                continue     # not a kernel wrapper (reported by the pairing obligation when required)
            params = [a.arg for a in f.node.args.args]
            raw = params[1] if len(params) > 1 else None
            sts = stores(f.node, into_defs=False)

            def is_kernel_result(e, depth=0) -> bool:
                if any(e is k for k in ks):
                    return True
                if isinstance(e, ast.Subscript) and (ap(e.value) or "").startswith("self."):
                    return True      # read back from a memo on self: its keying is C10.R4's business
                if isinstance(e, ast.Name) and depth < 4:
                    vals = [s for s in sts if s.path == e.id]
                    if not vals or e.id in params and not vals:
                        return False
                    ok = True
                    for s in vals:
                        if s.kind != "assign" or s.value is None:
                            return False
                        v = s.value
                        if is_kernel_result(v, depth + 1):
                            continue
                        # read back from a container on self (memo): purity of the memo is C10.R4's business
                        if isinstance(v, ast.Subscript) and (ap(v.value) or "").startswith("self."):
                            continue
                        if isinstance(v, ast.Call) and isinstance(v.func, ast.Attribute) and v.func.attr == "get" \
                                and (ap(v.func.value) or "").startswith("self."):
                            continue
                        ok = False
                    return ok
                return False
            rets = [n for n in walk(f.node) if isinstance(n, ast.Return)]
            bad = [r for r in rets if r.value is None or not is_kernel_result(r.value)]
            ctx.ob("C10.R1", f"{ci.name}.{meth}: returns the result of {kernel} unchanged", not bad and bool(rets),
                   ctx.w(f, bad[0]) if bad else f.where,
                   f"`{norm(bad[0]) if bad else ''}`: the value handed out is not the kernel's result (a substituted "
                   f"constant loses e.g. the sign of zero the zero-median encoder depends on; a rounded value is "
                   f"no longer the exact decode)")
            for k in ks:
                a0 = k.args[0] if k.args else None
                # re-binding the name to the kernel's own result afterwards is fine; any other store is not
                ok = isinstance(a0, ast.Name) and a0.id == raw and not any(
                    s.path == raw and not (s.value is not None and any(x is kk for kk in ks for x in ast.walk(s.value)))
                    for s in sts)
                ctx.ob("C10.R1", f"{ci.name}.{meth}: passes the raw parameter to {kernel}", ok, ctx.w(f, k),
                       f"first argument {norm(a0) if a0 is not None else '?'} is not the untouched `{raw}` parameter")


_FRESH_NP = ("array", "copy", "clip", "rint", "round", "around", "floor", "ceil", "zeros", "ones", "empty", "full",
             "zeros_like", "ones_like", "empty_like", "abs", "absolute", "add", "subtract", "multiply", "divide",
             "minimum", "maximum", "where", "frombuffer", "fromiter", "concatenate", "stack")
_ALIAS_NP = ("asarray", "asanyarray", "ascontiguousarray", "asfortranarray", "ravel", "reshape", "squeeze", "atleast_1d",
             "atleast_2d", "transpose")
_ALIAS_METH = ("view", "reshape", "ravel", "squeeze", "transpose", "swapaxes", "newbyteorder")
_INPLACE_METH = ("sort", "fill", "put", "itemset", "resize", "partition", "setfield", "byteswap")


def _np_call(mod: Module, c: ast.Call) -> Optional[str]:
    f = c.func
    if isinstance(f, ast.Attribute) and isinstance(f.value, ast.Name) and mod.imports.get(f.value.id) == "numpy":
        return f.attr
    return None


def _false_const(n) -> bool:
    return isinstance(n, ast.Constant) and n.value is False


class _AliasScan:
    """Forward scan of one method: which names may still refer to the caller's array (parameter or a view of
    it), and every in-place operation performed on such a name."""

    def __init__(self, mod: Module, f: FuncInfo, param: str):
        self.mod, self.f = mod, f
        self.findings: List[Tuple[ast.AST, str]] = []
        self.alias: Set[str] = {param}

    def may_alias(self, e: ast.AST, alias: Set[str]) -> bool:
        if isinstance(e, ast.Name):
            return e.id in alias
        if isinstance(e, ast.Subscript):
            return self.may_alias(e.value, alias)            # basic slicing gives a view
        if isinstance(e, ast.IfExp):
            return self.may_alias(e.body, alias) or self.may_alias(e.orelse, alias)
        if isinstance(e, ast.Call):
            out = kw(e, "out")
            if out is not None and self.may_alias(out, alias):
                return True
            npf = _np_call(self.mod, e)
            if npf is not None:
                if npf in _ALIAS_NP:
                    return bool(e.args) and self.may_alias(e.args[0], alias)
                if npf == "array":
                    cp = kw(e, "copy")
                    return cp is not None and not (isinstance(cp, ast.Constant) and cp.value is True) and \
                        bool(e.args) and self.may_alias(e.args[0], alias)
                return False
            if isinstance(e.func, ast.Attribute):
                recv = e.func.value
                if e.func.attr == "astype":
                    cp = kw(e, "copy")
                    return _false_const(cp) and self.may_alias(recv, alias)
                if e.func.attr in _ALIAS_METH:
                    return self.may_alias(recv, alias)
            return False
        return False

    def scan(self, stmts, alias: Set[str]) -> Set[str]:
        for st in stmts:
            alias = self.stmt(st, alias)
        return alias

    def _check_expr(self, node: ast.AST, alias: Set[str]):
        for c in walk(node):
            if not isinstance(c, ast.Call):
                continue
            out = kw(c, "out")
            if out is not None and self.may_alias(out, alias):
                self.findings.append((c, f"`{norm(c)}` writes its result into `{norm(out)}`, which may be the "
                                         f"caller's array"))
            if isinstance(c.func, ast.Attribute) and c.func.attr in _INPLACE_METH and self.may_alias(c.func.value, alias):
                self.findings.append((c, f"`{norm(c)}` modifies `{norm(c.func.value)}` in place"))

    def stmt(self, st, alias: Set[str]) -> Set[str]:
        alias = set(alias)
        if isinstance(st, ast.If):
            self._check_expr(st.test, alias)
            a = self.scan(st.body, alias)
            b = self.scan(st.orelse, alias) if st.orelse else alias
            return a | b
        if isinstance(st, (ast.For, ast.While)):
            a = self.scan(st.body, alias)
            a = self.scan(st.body, a | alias)
            return a | alias
        if isinstance(st, (ast.With, ast.Try)):
            bodies = [st.body] + ([h.body for h in st.handlers] + [st.orelse, st.finalbody] if isinstance(st, ast.Try) else [])
            out = set(alias)
            for b in bodies:
                out |= self.scan(b, alias)
            return out
        self._check_expr(st, alias)
        if isinstance(st, ast.AugAssign):
            t = st.target
            base = t.value if isinstance(t, ast.Subscript) else t
            if self.may_alias(base, alias):
                self.findings.append((st, f"`{norm(st)}` updates `{norm(base)}` in place while it may still be the "
                                          f"caller's array"))
            return alias
        if isinstance(st, (ast.Assign, ast.AnnAssign)):
            targets = st.targets if isinstance(st, ast.Assign) else [st.target]
            value = st.value
            for t in targets:
                if isinstance(t, ast.Subscript) and self.may_alias(t.value, alias):
                    self.findings.append((st, f"`{norm(st)}` stores into `{norm(t.value)}`, which may be the caller's "
                                              f"array"))
                elif isinstance(t, ast.Name) and value is not None:
                    if self.may_alias(value, alias):
                        alias.add(t.id)
                    else:
                        alias.discard(t.id)
                elif isinstance(t, (ast.Tuple, ast.List)) and isinstance(value, (ast.Tuple, ast.List)) \
                        and len(t.elts) == len(value.elts):
                    for tt, vv in zip(t.elts, value.elts):
                        if isinstance(tt, ast.Name):
                            if self.may_alias(vv, alias):
                                alias.add(tt.id)
                            else:
                                alias.discard(tt.id)
            return alias
        return alias


def _param_inputs(f: FuncInfo, e: ast.AST, depth=0) -> Set[str]:
    """Parameters (other than self) an expression depends on, through locals."""
    params = {a.arg for a in f.node.args.args[1:]} | {a.arg for a in f.node.args.kwonlyargs}
    out: Set[str] = set()
    if depth > 6:
        return out
    sts = stores(f.node, into_defs=False)
    for n in ast.walk(e):
        if isinstance(n, ast.Name):
            if n.id in params:
                out.add(n.id)
            for s in sts:
                if s.path == n.id and s.value is not None and not any(x is n for x in ast.walk(s.value)):
                    out |= _param_inputs(f, s.value, depth + 1)
    return out


def r4(ctx):
    ctx.rule("C10.R4", "codec purity: encode/decode neither modify the caller's array in place (no in-place op or "
                       "out= on the parameter or a view of it before it is copied) nor keep results on self under a "
                       "key that omits an input (context-dependent ranges)")
    repo = ctx.repo
    n_arr = 0
    n_fn = 0
    for ci, f in _family_codec_methods(ctx):
        n_fn += 1
        params = [a.arg for a in f.node.args.args]
        mod = f.module
        # (a) array parameters: the value parameter when numpy is applied to it
        for p in params[1:]:
            if p in ("reader", "writer", "ctx", "pod"):
                continue
            uses_np = False
            for c in calls(f.node, into_defs=False):
                if _np_call(mod, c) is not None and any(isinstance(a, ast.Name) and a.id == p for a in c.args):
                    uses_np = True
                if isinstance(c.func, ast.Attribute) and isinstance(c.func.value, ast.Name) and c.func.value.id == p \
                        and c.func.attr in ("astype", "reshape", "view", "copy", "tobytes"):
                    uses_np = True
            if not uses_np:
                continue
            n_arr += 1
            sc = _AliasScan(mod, f, p)
            sc.scan(f.node.body, {p})
            ctx.ob("C10.R4", f"{f.qual}: `{p}` is copied before any in-place operation", not sc.findings,
                   ctx.w(f, sc.findings[0][0]) if sc.findings else f.where,
                   (sc.findings[0][1] if sc.findings else "") + ": the decoded array handed in by the caller is "
                   "rescaled behind its back, so encoding the same decoded value again gives different raws")
        # (b) results kept on self must be keyed by every input
        bad = []
        nstore = 0
        for s in stores(f.node, into_defs=True):
            if not s.path.startswith("self."):
                continue
            nstore += 1
            if s.kind in ("setitem", "augsetitem"):
                key = s.target.slice
                val = s.value
            elif s.kind == "mutcall" and s.method in ("setdefault", "update", "append", "add", "insert", "extend"):
                key = s.node.args[0] if s.method == "setdefault" and s.node.args else None
                val = s.node.args[-1] if s.node.args else None
            elif s.kind in ("assign", "augassign"):
                key, val = None, s.value
            else:
                continue
            need = _param_inputs(f, val) if val is not None else set()
            have = _param_inputs(f, key) if key is not None else set()
            missing = sorted(need - have - {"pod"})
            if missing:
                bad.append((s, missing))
        ctx.ob("C10.R4", f"{f.qual}: nothing derived from the arguments is kept on self under an incomplete key",
               not bad, ctx.w(f, bad[0][0].node) if bad else f.where,
               (f"`{norm(bad[0][0].node)}` remembers a value computed from {bad[0][1]} without keying on "
                f"{bad[0][1]}: a later call with a different {'/'.join(bad[0][1])} (e.g. another animation's "
                f"duration behind ctx) gets the stale result" if bad else ""))
    ctx.floor("C10.R4", "codec methods examined", n_fn, 8)
    ctx.floor("C10.R4", "array-valued codec parameters", n_arr, 2)


# ------------------------------------------------------------------------------------------ R1 (adapters around quantisers) / R5 (no value-dependent skips)

_ARITH_OPS = (ast.Add, ast.Sub, ast.Mult, ast.Div, ast.FloorDiv, ast.Mod, ast.Pow)


def _has_arithmetic(fn_node) -> bool:
    for n in walk(fn_node, into_defs=True):
        if isinstance(n, ast.BinOp) and isinstance(n.op, _ARITH_OPS):
            return True
        if isinstance(n, ast.AugAssign) and isinstance(n.op, _ARITH_OPS):
            return True
        if isinstance(n, ast.Call) and (ap(n.func) or "").startswith(("math.", "np.", "numpy.")):
            return True
    return False


def r1_adapters(ctx):
    """Adapters that wrap a quantised / fixed-point codec (PackedQuat(Vector4U16(..)), VecListAdapter(QuantizedNumPy
    Array(..))) sit between the exact decoder and its inverse: whatever they do to the numbers on one side is not
    undone by the quantiser on the other, so they may only re-shape (construct, project, convert containers)."""
    repo = ctx.repo
    wrappers: Dict[ClassInfo, ast.AST] = {}
    for mod in repo.modules.values():
        for c in calls(mod.tree, into_defs=True):
            k = _resolve_cls(repo, mod, c.func)
            if k is None or not _is_sub(repo, k, "Adapter") or _in_family(repo, k):
                continue
            for a in list(c.args) + [kw_.value for kw_ in c.keywords]:
                if isinstance(a, ast.Call):
                    inner = _resolve_cls(repo, mod, a.func)
                    if inner is not None and (_in_family(repo, inner) or _is_sub(repo, inner, "QuantizedTupleCoord")
                                              or _is_sub(repo, inner, "FixedPointTupleCoord")):
                        wrappers.setdefault(k, c)
    ctx.stats["C10.R1.adapters around quantisers"] = sorted(k.name for k in wrappers)
    for k in sorted(wrappers, key=lambda c: c.qual):
        for meth in ("encode", "decode"):
            f = repo.lookup_method(k, meth)
            if f is None or f.cls is None or f.cls.name == "Adapter":
                continue
            params = [a.arg for a in f.node.args.args]
            if len(params) < 2:
                continue
            derived = _derived_names(f, {params[1]}, from_reads=False)
            problems = []
            for n in walk(f.node, into_defs=True):
                if isinstance(n, ast.BinOp) and isinstance(n.op, _ARITH_OPS) and \
                        any(isinstance(x, ast.Name) and x.id in derived for x in (n.left, n.right)):
                    problems.append((n, f"`{norm(n)}` computes on the value"))
                elif isinstance(n, ast.UnaryOp) and isinstance(n.op, ast.USub) and isinstance(n.operand, ast.Name) \
                        and n.operand.id in derived:
                    problems.append((n, f"`{norm(n)}` negates the value"))
                elif isinstance(n, ast.AugAssign) and isinstance(n.op, _ARITH_OPS) and isinstance(n.target, ast.Name) \
                        and n.target.id in derived:
                    problems.append((n, f"`{norm(n)}` updates the value"))
                elif isinstance(n, ast.Call) and isinstance(n.func, ast.Attribute) and \
                        any(isinstance(x, ast.Name) and x.id in derived for x in ast.walk(n.func.value)) \
                        and not (isinstance(n.func.value, ast.Name) and n.func.value.id in ("self", "cls")):
                    # a method of the value itself (or of the coordinate object just built from it): arithmetic
                    # inside it (normalise, scale, conjugate ...) counts
                    cands = [g for g in repo.funcs.get(n.func.attr, []) if g.cls is not None
                             and (g.module.rel.endswith("/datatypes.py") or g.module is f.module)]
                    if cands and any(_has_arithmetic(g.node) for g in cands):
                        problems.append((n, f"`{norm(n)}` calls a method that does arithmetic on the value "
                                            f"({', '.join(sorted({g.qual for g in cands if _has_arithmetic(g.node)})[:3])})"))
                elif isinstance(n, ast.Call) and ((ap(n.func) or "") in _NUMERIC_FUNCS or
                                                  (ap(n.func) or "").startswith(("math.", "np.", "numpy."))) \
                        and any(isinstance(a, ast.Name) and a.id in derived for a in n.args):
                    problems.append((n, f"`{norm(n)}` transforms the value"))
            ctx.ob("C10.R1", f"{k.name}.{meth}: adapter around a quantised codec only re-shapes the value", not problems,
                   ctx.w(f, problems[0][0]) if problems else f.where,
                   (problems[0][1] if problems else "") + ": the quantiser below is exact only on the numbers it decoded "
                   "itself; components changed here (normalised, sign-flipped, rescaled) re-encode to different raws")


def r5(ctx):
    """A hand-quantising writer (round()/rint() of a scaled element) writes every element it is given: skipping an
    element because of its (quantised) value makes that value unrepresentable - the reader cannot put it back."""
    repo = ctx.repo
    ctx.rule("C10.R5", "hand-quantising writers do not drop elements depending on their value (no continue / filter "
                       "on a name derived from the loop element)")
    n = 0
    for f in repo.all_funcs:
        if f.parent_fn is not None or f.name not in ("serialize", "encode") or \
                not f.module.rel.startswith("hippolyzer/lib/base/"):
            continue
        rounds = [c for c in calls(f.node, into_defs=True)
                  if (ap(c.func) or "") in ("round", "np.rint", "numpy.rint", "int") and c.args
                  and any(isinstance(x, ast.BinOp) and isinstance(x.op, (ast.Mult, ast.Div)) for x in ast.walk(c.args[0]))]
        if not rounds:
            # quantisation moved into a helper of the class: follow one level of cls./self. calls
            helper = False
            for c in calls(f.node, into_defs=True):
                if isinstance(c.func, ast.Attribute) and isinstance(c.func.value, ast.Name) and c.func.value.id in ("self", "cls") \
                        and f.cls is not None:
                    m = repo.lookup_method(f.cls, c.func.attr)
                    if m is not None and any((ap(x.func) or "") in ("round", "np.rint", "numpy.rint") for x in calls(m.node)) \
                            and _has_arithmetic(m.node):
                        helper = True
            if not helper:
                continue
        loops = [l for l in walk(f.node, into_defs=True) if isinstance(l, (ast.For, ast.AsyncFor))]
        if not loops:
            continue
        n += 1
        problems = []
        for l in loops:
            derived = {x.id for x in ast.walk(l.target) if isinstance(x, ast.Name)}
            for _ in range(5):
                before = len(derived)
                for st in walk(l, into_defs=True):
                    if isinstance(st, ast.Assign) and any(isinstance(x, ast.Name) and x.id in derived for x in ast.walk(st.value)):
                        for t in st.targets:
                            derived |= {x.id for x in ast.walk(t) if isinstance(x, ast.Name)}
                if len(derived) == before:
                    break
            for st in walk(l, into_defs=True):
                if isinstance(st, (ast.Continue, ast.Break)):
                    from ..core import facts as _facts
                    for e, pol in _facts(st, l):
                        if any(isinstance(x, ast.Name) and x.id in derived for x in ast.walk(e)):
                            problems.append((st, f"`{type(st).__name__.lower()}` under `{norm(e)}`"))
                            break
        for comp in [c for c in walk(f.node, into_defs=True) if isinstance(c, (ast.ListComp, ast.GeneratorExp, ast.SetComp))]:
            for g in comp.generators:
                tnames = {x.id for x in ast.walk(g.target) if isinstance(x, ast.Name)}
                for cond in g.ifs:
                    if any(isinstance(x, ast.Name) and x.id in tnames for x in ast.walk(cond)) and \
                            any(isinstance(x, (ast.BinOp, ast.Call)) for x in ast.walk(cond)):
                        problems.append((cond, f"comprehension filter `{norm(cond)}`"))
        ctx.ob("C10.R5", f"{f.qual}: every element handed to the quantising writer is written", not problems,
               ctx.w(f, problems[0][0]) if problems else f.where,
               (problems[0][1] if problems else "") + " drops an element depending on its value: that value (e.g. a "
               "weight that quantises to 0) no longer encodes back to the raw it came from")
    ctx.stats["C10.R5.hand-quantising writers with loops"] = n
    if n == 0:
        ctx.note("C10.R5: no hand-quantising writer with an element loop found; nothing to check")
        ctx.ob("C10.R5", "no hand-quantising element loop in the codec modules", True, "hippolyzer/lib/base")


# ------------------------------------------------------------------------------------------ R6

def r6(ctx, pairs):
    """Range widths can be zero (flat mesh axis, degenerate quantiser range, zero-length animation): an encoder that
    divides by `upper - lower` must have decided the zero-width case first, otherwise a value that decoded fine
    cannot be encoded again (ZeroDivisionError)."""
    repo = ctx.repo
    ctx.rule("C10.R6", "every division by a range width (`a - b` of two bounds, directly or through a local) in the "
                       "encoders and domain helpers is guarded against a zero width")
    DT = "hippolyzer/lib/base/datatypes.py"
    MESHM = "hippolyzer/lib/base/mesh.py"
    fns: List[FuncInfo] = []
    for ci, d, e, kind in pairs:
        for g in [e] + [m for m in (repo.lookup_method(ci, n) for n in ("quantize",)) if m is not None]:
            if g not in fns:
                fns.append(g)
    wd = repo.fn_opt("TupleCoord.within_domain", DT)
    if wd is not None:
        fns.append(wd)
    else:
        ctx.note("C10.R6: TupleCoord.within_domain not found; domain normalisation not checked")
    for f in repo.all_funcs:
        if f.module.rel == MESHM and f.parent_fn is None and f not in fns:
            fns.append(f)
    n = 0
    for f in fns:
        # single-assigned locals
        sts = [s_ for s_ in stores(f.node, into_defs=True) if "." not in s_.path and "[" not in s_.path]
        counts: Dict[str, int] = {}
        for s_ in sts:
            counts[s_.path] = counts.get(s_.path, 0) + 1
        defs = {s_.path: s_.value for s_ in sts if counts[s_.path] == 1 and s_.kind == "assign" and s_.value is not None
                and isinstance(s_.target, ast.Name)}
        for node in walk(f.node, into_defs=True):
            div = None
            if isinstance(node, ast.BinOp) and isinstance(node.op, (ast.Div, ast.FloorDiv, ast.Mod)):
                div = node.right
            elif isinstance(node, ast.AugAssign) and isinstance(node.op, (ast.Div, ast.FloorDiv, ast.Mod)):
                div = node.value
            if div is None:
                continue
            name = div.id if isinstance(div, ast.Name) else None
            width = defs.get(name) if name else div
            if not (isinstance(width, ast.BinOp) and isinstance(width.op, ast.Sub) and ap(width.left) and ap(width.right)):
                continue
            a, b = ap(width.left), ap(width.right)
            if a.endswith(("max_val", "min_val")) and b.endswith(("max_val", "min_val")):
                continue        # width of a primitive's own range: never zero
            n += 1
            guarded = False
            from ..core import facts as _facts
            for e, pol in _facts(node, f.node):
                if not isinstance(e, ast.Compare) or len(e.ops) != 1:
                    continue
                paths = {ap(x) for x in ast.walk(e) if isinstance(x, (ast.Name, ast.Attribute))}
                zero_cmp = any(isinstance(x, ast.Constant) and x.value == 0 and not isinstance(x.value, bool)
                               for x in ast.walk(e))
                about = ({a, b} <= paths) or (name is not None and name in paths and zero_cmp) or \
                    (zero_cmp and _t(width) in {_t(x) for x in ast.walk(e)})
                if not about:
                    continue
                op = e.ops[0]
                nonzero = (isinstance(op, ast.Eq) and not pol) or (isinstance(op, ast.NotEq) and pol) or \
                    (isinstance(op, (ast.Lt, ast.Gt)) and pol) or (isinstance(op, (ast.LtE, ast.GtE)) and not pol)
                if nonzero:
                    guarded = True
            ctx.ob("C10.R6", f"{f.qual}: division by the range width `{_t(width)}` is guarded against zero", guarded,
                   ctx.w(f, node), f"`{norm(node)[:80]}` divides by `{_t(width)}` on a path where the two bounds may be "
                   f"equal: a zero-width range / flat domain axis decodes but raises ZeroDivisionError when encoded")
    ctx.floor("C10.R6", "divisions by a range width", n, 2)


def r1_scaling_adapters(ctx):
    """Hand-written scaling adapters (raw * quantum, raw / steps-per-unit - on registered variables or inside byte
    templates): the decoded float is raw*q up to rounding error, so the encoder has to convert back with
    round-to-nearest; floor / int / trunc of the float quotient lands one step low whenever the product came out a
    hair below the integer (29 * 0.01 / 0.01 == 28.999999999999996)."""
    repo = ctx.repo
    adapter = repo.cls("Adapter", SERMOD)
    n = 0
    for k in sorted(repo.subclasses(adapter, strict=True), key=lambda c: c.qual):
        if not k.module.rel.startswith("hippolyzer/lib/base/") or _in_family(repo, k):
            continue
        dec, enc = k.methods.get("decode"), k.methods.get("encode")
        if dec is None or enc is None or len(dec.node.args.args) < 2 or len(enc.node.args.args) < 2:
            continue
        dder = _derived_names(dec, {dec.node.args.args[1].arg}, from_reads=False)
        scaling = None
        for x in walk(dec.node, into_defs=True):
            if isinstance(x, ast.BinOp) and isinstance(x.op, (ast.Div, ast.Mult)):
                lhs = any(isinstance(y, ast.Name) and y.id in dder for y in ast.walk(x.left))
                rhs = any(isinstance(y, ast.Name) and y.id in dder for y in ast.walk(x.right))
                other = x.right if lhs else x.left if rhs else None
                if other is None or (lhs and rhs):
                    continue
                int_const = isinstance(other, ast.Constant) and isinstance(other.value, int) and not isinstance(other.value, bool)
                if isinstance(x.op, ast.Div) and lhs or (isinstance(x.op, ast.Mult) and not int_const):
                    scaling = x
        if scaling is None:
            continue
        n += 1
        eder = _derived_names(enc, {enc.node.args.args[1].arg}, from_reads=False)
        bad = []
        for c in calls(enc.node, into_defs=True):
            name = ap(c.func) or ""
            if name in ("int", "math.floor", "math.trunc", "math.ceil") and c.args:
                if any(isinstance(x, ast.BinOp) and isinstance(x.op, (ast.Div, ast.Mult)) and
                       any(isinstance(y, ast.Name) and y.id in eder for y in ast.walk(x)) for x in ast.walk(c.args[0])):
                    bad.append(c)
        for x in walk(enc.node, into_defs=True):
            if isinstance(x, ast.BinOp) and isinstance(x.op, ast.FloorDiv) and \
                    any(isinstance(y, ast.Name) and y.id in eder for y in ast.walk(x.left)):
                bad.append(x)
        ctx.ob("C10.R1", f"{k.name}.encode: scaled value is converted back with round-to-nearest", not bad,
               ctx.w(enc, bad[0]) if bad else enc.where,
               (f"`{norm(bad[0])[:80]}` truncates the float quotient, but {k.name}.decode produced the float as "
                f"`{norm(scaling)[:50]}`: whenever that product is a hair below the exact value the raw integer re-encodes "
                f"one step low" if bad else ""))
    ctx.stats["C10.R1.hand-written scaling adapters"] = n

# ------------------------------------------------------------------------------------------ driver

def run(ctx):
    repo = ctx.repo
    prims = prim_table(repo)
    pairs = _pairs(ctx)
    ctx.floor("C10.R1", "distinct decode/encode pairs", len(pairs), 3)
    seqs = {}
    for ci, d, e, kind in pairs:
        seq = OpSeq(repo, ci)
        dsrc = _with_raw_source(d) if kind == "fp" else d
        dec = seq.of_method(dsrc, tracked=_tracked_for(d, kind, "dec"))
        enc = OpSeq(repo, ci).of_method(e, tracked=None)
        enc = _mark_saturation(enc)
        seqs[ci] = (dec, enc)
        ctx.stats[f"C10.ops.{ci.name}"] = {"decode": _fmt(dec), "encode": _fmt(enc)}
    r1(ctx, pairs, seqs)
    r1_wrappers(ctx)
    r1_adapters(ctx)
    r1_scaling_adapters(ctx)
    r2_r3(ctx, pairs, seqs, prims)
    r4(ctx)
    r5(ctx)
    r6(ctx, pairs)
    ctx.assume("bit-exact encode(decode(raw)) == raw over all raws, IEEE rounding and monotonicity in float "
               "arithmetic are not decided; instance checks use real-arithmetic reasoning with a 1e-9 tolerance")
