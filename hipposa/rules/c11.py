"""C11 - human-readable message text: safe mode never evaluates; formatter/parser share syntax
(DESIGN.md section 4, C11).

R1  call-graph reachability from HumanMessageSerializer.from_human_string to evaluation sinks
    (builtin eval/exec/compile/__import__, pickle.load(s), subfield_eval).  Every call edge that is
    not dominated by "the safe flag is false" is followed (class hierarchy + by-name fallback); a
    sink on such an edge is a violation.  Dominance is decided propositionally from the
    syntax-directed facts at the call (enclosing branches, earlier raising guards, raising guard
    helpers) with a CFG staleness check for every variable the proof uses.
R2  constants of the formatter (operators, comment marker, continuation suffix, flag tokens, block
    header) are accepted by the parser's constant patterns (interpreted with `re`, nothing of the
    repository is executed).
R3  both directions key se.SUBFIELD_SERIALIZERS with (message.name, block.name, var_name) of the
    variable actually being parsed / printed.
R4  the literal printer decomposes raw str/bytes values only with separator-preserving operations
    (a piece list built by a separator-discarding split cannot identify the value).
"""
from __future__ import annotations

import ast
import itertools
import re
from typing import Dict, List, Optional, Sequence, Set, Tuple

from ..cfg import CFG
from ..consteval import ConstEval, Sym, CallVal
from ..core import (AnalysisError, ClassInfo, FuncInfo, FUNC_TYPES, always_exits, ancestors, ap, atoms, call_attr, facts,
                    calls, conditions, enclosing_stmt, find_calls, norm, parent, stores, walk, _block_of)
from .common import class_methods_reachable

FMT = "hippolyzer/lib/base/message/message_formatting.py"
HELPERS = "hippolyzer/lib/base/helpers.py"

SINK_BUILTINS = {"eval", "exec", "compile", "__import__"}
SINK_EXTERNAL = {"pickle.loads", "pickle.load", "cPickle.loads", "cPickle.load", "_pickle.loads", "_pickle.load",
                 "builtins.eval", "builtins.exec", "builtins.compile", "builtins.__import__"}
SINK_REPO_FUNCS = ("subfield_eval",)          # qualified names inside FMT

BUILTIN_CTORS = {"str", "bytes", "int", "float", "list", "dict", "set", "tuple", "len", "sorted", "reversed",
                 "enumerate", "zip", "range", "repr", "bool", "frozenset", "bytearray", "hex", "ord", "chr", "min",
                 "max", "sum", "abs", "round", "any", "all", "callable", "isinstance"}
STR_METHODS = {"strip", "lstrip", "rstrip", "split", "rsplit", "splitlines", "join", "upper", "lower", "encode",
               "decode", "replace", "format", "partition", "rpartition", "startswith", "endswith", "title",
               "casefold", "zfill", "ljust", "rjust", "center", "expandtabs", "hex", "removeprefix", "removesuffix"}
PY_BUILTINS = set(dir(__import__("builtins")))
BUILTIN_ANNOT = {"str", "bytes", "int", "float", "bool", "list", "dict", "set", "tuple"}


# =========================================================================== call graph

def resolve_name(repo, mod, name, seen=None):
    """Targets of a bare name used in module `mod`: FuncInfo / ClassInfo / ('mod', dotted) / ('ext', dotted)."""
    seen = seen if seen is not None else set()
    if (mod.rel, name) in seen:
        return []
    seen.add((mod.rel, name))
    out = []
    for g in repo.funcs.get(name, []):
        if g.module is mod and g.cls is None and g.parent_fn is None:
            out.append(g)
    for c in repo.classes.get(name, []):
        if c.module is mod and parent(c.node) is mod.tree:
            out.append(c)
    if out:
        return out
    tgt = mod.imports.get(name)
    if tgt:
        if tgt in repo.by_modname:
            return [("mod", tgt)]
        modname, _, attr = tgt.rpartition(".")
        m2 = repo.by_modname.get(modname)
        if m2 is not None:
            r = resolve_name(repo, m2, attr, seen)
            return r
        return [("ext", tgt)]
    for star in mod.star_imports:
        m2 = repo.by_modname.get(star)
        if m2 is not None:
            r = resolve_name(repo, m2, name, seen)
            if r:
                return r
    return []


class Edge:
    __slots__ = ("call", "kind", "targets", "sink", "label")

    def __init__(self, call, kind, targets=(), sink=None, label=""):
        self.call, self.kind, self.targets, self.sink, self.label = call, kind, list(targets), sink, label


def _top(f: FuncInfo) -> FuncInfo:
    while f.parent_fn is not None:
        f = f.parent_fn
    return f


def _local_bindings(fnode) -> Dict[str, List[Optional[ast.AST]]]:
    """name -> list of bound value expressions (None = binding whose value is not a plain expression)."""
    out: Dict[str, List[Optional[ast.AST]]] = {}
    args = fnode.args
    for a in args.posonlyargs + args.args + args.kwonlyargs + ([args.vararg] if args.vararg else []) + \
            ([args.kwarg] if args.kwarg else []):
        ann = a.annotation
        if isinstance(ann, ast.Name) and ann.id in BUILTIN_ANNOT:
            out.setdefault(a.arg, []).append(ast.Constant(value=""))   # builtin-typed
        else:
            out.setdefault(a.arg, []).append(None)
    for n in walk(fnode, into_defs=True):
        if isinstance(n, ast.Assign):
            for t in n.targets:
                if isinstance(t, ast.Name):
                    out.setdefault(t.id, []).append(n.value)
                else:
                    for x in ast.walk(t):
                        if isinstance(x, ast.Name) and isinstance(x.ctx, ast.Store):
                            out.setdefault(x.id, []).append(None)
        elif isinstance(n, ast.AnnAssign) and isinstance(n.target, ast.Name):
            out.setdefault(n.target.id, []).append(n.value)
        elif isinstance(n, ast.AugAssign) and isinstance(n.target, ast.Name):
            out.setdefault(n.target.id, []).append(n.value)
        elif isinstance(n, (ast.For, ast.AsyncFor, ast.comprehension)):
            for x in ast.walk(n.target):
                if isinstance(x, ast.Name):
                    out.setdefault(x.id, []).append(None)
        elif isinstance(n, (ast.With, ast.AsyncWith)):
            for it in n.items:
                if it.optional_vars is not None:
                    for x in ast.walk(it.optional_vars):
                        if isinstance(x, ast.Name):
                            out.setdefault(x.id, []).append(None)
        elif isinstance(n, ast.ExceptHandler) and n.name:
            out.setdefault(n.name, []).append(None)
        elif isinstance(n, ast.NamedExpr) and isinstance(n.target, ast.Name):
            out.setdefault(n.target.id, []).append(n.value)
        elif isinstance(n, FUNC_TYPES) and n is not fnode:
            out.setdefault(n.name, []).append(None)
            for a in n.args.posonlyargs + n.args.args + n.args.kwonlyargs:
                out.setdefault(a.arg, []).append(None)
        elif isinstance(n, ast.Lambda):
            for a in n.args.posonlyargs + n.args.args + n.args.kwonlyargs:
                out.setdefault(a.arg, []).append(None)
    return out


class CallGraph:
    def __init__(self, repo):
        self.repo = repo
        self._edges: Dict[str, List[Edge]] = {}
        self._bind: Dict[str, Dict[str, List[Optional[ast.AST]]]] = {}
        self.sink_funcs = {repo.fn(q, FMT).full for q in SINK_REPO_FUNCS}
        self._subs = None
        self._cha_cache: Dict[Tuple[str, str], List[FuncInfo]] = {}
        self.stats = {"exact": 0, "by-name": 0, "external": 0, "unresolved": 0, "builtin-receiver": 0}

    # ---- receiver typing (only used to prune by-name edges on values that are builtin objects)
    def bindings(self, f: FuncInfo):
        t = _top(f)
        if t.full not in self._bind:
            self._bind[t.full] = _local_bindings(t.node)
        return self._bind[t.full]

    def builtin_expr(self, f: FuncInfo, e, depth=0, seen=None) -> bool:
        if depth > 6:
            return False
        seen = seen or set()
        if isinstance(e, (ast.Constant, ast.JoinedStr, ast.List, ast.Tuple, ast.Dict, ast.Set, ast.ListComp,
                          ast.SetComp, ast.DictComp, ast.GeneratorExp, ast.Compare)):
            return True
        if isinstance(e, ast.Name):
            if e.id in seen:
                return True
            b = self.bindings(f).get(e.id)
            if not b:
                return False
            return all(v is not None and self.builtin_expr(f, v, depth + 1, seen | {e.id}) for v in b)
        if isinstance(e, ast.Call):
            fn = e.func
            if isinstance(fn, ast.Name):
                return fn.id in BUILTIN_CTORS and not self.bindings(f).get(fn.id) and \
                    not resolve_name(self.repo, f.module, fn.id)
            if isinstance(fn, ast.Attribute):
                if isinstance(fn.value, ast.Name) and not self.bindings(f).get(fn.value.id):
                    r = resolve_name(self.repo, f.module, fn.value.id)
                    if r and isinstance(r[0], tuple) and r[0][0] == "ext":
                        return True          # stdlib / third-party function result (re.match, ast.literal_eval)
                if fn.attr in STR_METHODS:
                    return self.builtin_expr(f, fn.value, depth + 1, seen)
            return False
        if isinstance(e, ast.Subscript):
            return isinstance(e.slice, ast.Slice) and self.builtin_expr(f, e.value, depth + 1, seen)
        if isinstance(e, ast.BinOp):
            return self.builtin_expr(f, e.left, depth + 1, seen)
        if isinstance(e, ast.IfExp):
            return self.builtin_expr(f, e.body, depth + 1, seen) and self.builtin_expr(f, e.orelse, depth + 1, seen)
        if isinstance(e, ast.BoolOp):
            return all(self.builtin_expr(f, v, depth + 1, seen) for v in e.values)
        return False

    # ---- resolution
    def _methods_named(self, name) -> List[FuncInfo]:
        return [g for g in self.repo.funcs.get(name, []) if g.cls is not None and g.parent_fn is None]

    def _subclasses(self, ci: ClassInfo) -> List[ClassInfo]:
        if self._subs is None:
            self._subs = {}
            for lst in self.repo.classes.values():
                for c in lst:
                    for b in self.repo.mro(c)[1:]:
                        self._subs.setdefault(b.qual, []).append(c)
        return self._subs.get(ci.qual, [])

    def _cha(self, ci: ClassInfo, name) -> List[FuncInfo]:
        key = (ci.qual, name)
        if key in self._cha_cache:
            return self._cha_cache[key]
        out = []
        m = self.repo.lookup_method(ci, name)
        if m is not None:
            out.append(m)
        for sc in self._subclasses(ci):
            if name in sc.methods and sc.methods[name] not in out:
                out.append(sc.methods[name])
        self._cha_cache[key] = out
        return out

    def _ctor(self, ci: ClassInfo) -> List[FuncInfo]:
        out = []
        for nm in ("__new__", "__init__", "__post_init__", "__init_subclass__"):
            m = self.repo.lookup_method(ci, nm)
            if m is not None:
                out.append(m)
        return out

    def _targets_of(self, r) -> List[FuncInfo]:
        out = []
        for t in r:
            if isinstance(t, FuncInfo):
                out.append(t)
            elif isinstance(t, ClassInfo):
                out.extend(self._ctor(t))
        return out

    def constructed_class(self, f: FuncInfo, name: str) -> Optional[ClassInfo]:
        """Class K when every binding of local `name` in f is `K(...)` for one repository class K."""
        bs = self.bindings(f).get(name) or []
        ks = set()
        for b in bs:
            if not (isinstance(b, ast.Call) and isinstance(b.func, ast.Name)):
                return None
            r = resolve_name(self.repo, f.module, b.func.id)
            if len(r) != 1 or not isinstance(r[0], ClassInfo):
                return None
            ks.add(r[0])
        return next(iter(ks)) if len(ks) == 1 else None

    def _by_name(self, f, recv, name, node) -> Edge:
        if self.builtin_expr(f, recv):
            self.stats["builtin-receiver"] += 1
            return Edge(node, "builtin-receiver")
        ts = self._methods_named(name)
        if ts and isinstance(node, ast.Call):
            ts = [t for t in ts if _arity_fits(t, node)]
        if ts:
            self.stats["by-name"] += 1
            return Edge(node, "by-name", ts)
        self.stats["external"] += 1
        return Edge(node, "external")

    def _resolve_call(self, f: FuncInfo, c: ast.Call) -> Edge:
        repo, mod = self.repo, f.module
        fn = c.func
        local = self.bindings(f)
        if isinstance(fn, ast.Name):
            if local.get(fn.id):
                # nested defs are analysed as part of the enclosing function; other locals are opaque values
                self.stats["unresolved"] += 1
                return Edge(c, "local-callable", label=fn.id)
            r = resolve_name(repo, mod, fn.id)
            if not r:
                if fn.id in SINK_BUILTINS:
                    return Edge(c, "builtin", sink=fn.id)
                self.stats["external"] += 1
                return Edge(c, "builtin")
            if isinstance(r[0], tuple):
                if r[0][1] in SINK_EXTERNAL:
                    return Edge(c, "external", sink=r[0][1])
                self.stats["external"] += 1
                return Edge(c, "external")
            self.stats["exact"] += 1
            return self._mk(c, "exact", self._targets_of(r))
        if isinstance(fn, ast.Attribute):
            base = fn.value
            if isinstance(base, ast.Name) and base.id in ("self", "cls") and f.cls is not None:
                ts = self._cha(f.cls, fn.attr)
                if ts:
                    self.stats["exact"] += 1
                    return self._mk(c, "self", ts)
                return self._by_name(f, base, fn.attr, c)
            if isinstance(base, ast.Call) and isinstance(base.func, ast.Name) and base.func.id == "super" and f.cls is not None:
                for ci in repo.mro(f.cls)[1:]:
                    if fn.attr in ci.methods:
                        self.stats["exact"] += 1
                        return self._mk(c, "super", [ci.methods[fn.attr]])
                self.stats["external"] += 1
                return Edge(c, "external")
            if isinstance(base, ast.Name) and not local.get(base.id):
                r = resolve_name(repo, mod, base.id)
                if not r and base.id in PY_BUILTINS:
                    self.stats["external"] += 1
                    return Edge(c, "external", label=f"builtins.{base.id}.{fn.attr}")
                if r and isinstance(r[0], tuple):
                    kind, dotted = r[0]
                    if kind == "mod":
                        r2 = resolve_name(repo, repo.by_modname[dotted], fn.attr)
                        if r2 and not isinstance(r2[0], tuple):
                            self.stats["exact"] += 1
                            return self._mk(c, "exact", self._targets_of(r2))
                        if r2 and isinstance(r2[0], tuple) and r2[0][1] in SINK_EXTERNAL:
                            return Edge(c, "external", sink=r2[0][1])
                        self.stats["unresolved"] += 1
                        return Edge(c, "module-attr", label=f"{dotted}.{fn.attr}")
                    full = f"{dotted}.{fn.attr}"
                    if full in SINK_EXTERNAL:
                        return Edge(c, "external", sink=full)
                    self.stats["external"] += 1
                    return Edge(c, "external", label=full)
                if r and isinstance(r[0], ClassInfo):
                    ts = self._cha(r[0], fn.attr)
                    if ts:
                        self.stats["exact"] += 1
                        return self._mk(c, "class", ts)
            # method call on a freshly constructed repository object: `K(...).m()` or a local that only ever holds one
            k = None
            if isinstance(base, ast.Name) and local.get(base.id):
                k = self.constructed_class(f, base.id)
            elif isinstance(base, ast.Call) and isinstance(base.func, ast.Name) and not local.get(base.func.id):
                r = resolve_name(repo, mod, base.func.id)
                k = r[0] if len(r) == 1 and isinstance(r[0], ClassInfo) else None
            if True:
                if k is not None:
                    ts = self._cha(k, fn.attr)
                    if ts:
                        self.stats["exact"] += 1
                        return self._mk(c, "object", ts)
                    # not defined in the repository part of the hierarchy: inherited from an external base
                    if any(repo.resolve_class(b, kk.module) is None for kk in repo.mro(k) for b in kk.base_names):
                        self.stats["external"] += 1
                        return Edge(c, "external", label=f"{k.name}.{fn.attr}")
            # dotted module path such as a.b.func
            bp = ap(base)
            if bp and isinstance(base, ast.Attribute):
                root = bp.split(".")[0]
                if not local.get(root):
                    r = resolve_name(repo, mod, root)
                    if r and isinstance(r[0], tuple) and r[0][0] == "ext":
                        full = f"{r[0][1]}.{'.'.join(bp.split('.')[1:])}.{fn.attr}"
                        if full in SINK_EXTERNAL:
                            return Edge(c, "external", sink=full)
                        self.stats["external"] += 1
                        return Edge(c, "external", label=full)
            return self._by_name(f, base, fn.attr, c)
        self.stats["unresolved"] += 1
        return Edge(c, "computed-callee")

    def _mk(self, c, kind, targets) -> Edge:
        sinks = [t for t in targets if t.full in self.sink_funcs]
        if sinks:
            return Edge(c, kind, [], sink=sinks[0].qual)
        return Edge(c, kind, targets)

    def edges(self, f: FuncInfo) -> List[Edge]:
        if f.full in self._edges:
            return self._edges[f.full]
        out: List[Edge] = []
        call_funcs = set()
        for c in calls(f.node, into_defs=True):
            call_funcs.add(id(c.func))
            out.append(self._resolve_call(f, c))
        local = self.bindings(f)
        for n in walk(f.node, into_defs=True):
            # address-taken functions (callbacks) and implicit protocol calls
            if isinstance(n, ast.Name) and isinstance(n.ctx, ast.Load) and id(n) not in call_funcs and not local.get(n.id):
                r = resolve_name(self.repo, f.module, n.id)
                ts = [t for t in r if isinstance(t, FuncInfo)]
                if ts:
                    out.append(self._mk(n, "ref", ts))
            elif isinstance(n, ast.Attribute) and isinstance(n.ctx, ast.Load) and id(n) not in call_funcs and \
                    isinstance(n.value, ast.Name) and n.value.id in ("self", "cls") and f.cls is not None:
                ts = [t for t in self._cha(f.cls, n.attr) if "property" not in {ap(d) for d in t.node.decorator_list}]
                if ts:
                    out.append(self._mk(n, "ref", ts))
            elif isinstance(n, ast.Subscript):
                name = {"Store": "__setitem__", "Del": "__delitem__"}.get(type(n.ctx).__name__, "__getitem__")
                e = self._by_name(f, n.value, name, n)
                if e.targets:
                    out.append(e)
            elif isinstance(n, ast.Compare) and any(isinstance(o, (ast.In, ast.NotIn)) for o in n.ops):
                for o, cmp_ in zip(n.ops, n.comparators):
                    if isinstance(o, (ast.In, ast.NotIn)):
                        e = self._by_name(f, cmp_, "__contains__", n)
                        if e.targets:
                            out.append(e)
            elif isinstance(n, (ast.For, ast.AsyncFor, ast.comprehension)):
                e = self._by_name(f, n.iter, "__iter__", n.iter)
                if e.targets:
                    out.append(e)
            elif isinstance(n, (ast.With, ast.AsyncWith)):
                for it in n.items:
                    for nm in ("__enter__", "__exit__"):
                        e = self._by_name(f, it.context_expr, nm, it.context_expr)
                        if e.targets:
                            out.append(e)
        self._edges[f.full] = out
        return out


# =========================================================================== guard reasoning

def _is_const_bool(e, val) -> bool:
    return isinstance(e, ast.Constant) and e.value is val


def _form(e, polarity=True):
    """Boolean formula over atoms: ('atom', key) | ('const', b) | ('not', f) | ('and'|'or', [f...])."""
    if isinstance(e, ast.UnaryOp) and isinstance(e.op, ast.Not):
        return ("not", _form(e.operand))
    if isinstance(e, ast.BoolOp):
        return ("and" if isinstance(e.op, ast.And) else "or", [_form(v) for v in e.values])
    if isinstance(e, ast.Constant):
        return ("const", bool(e.value))
    if isinstance(e, ast.Compare) and len(e.ops) == 1:
        op, r = e.ops[0], e.comparators[0]
        if isinstance(op, (ast.Is, ast.Eq)) and _is_const_bool(r, True):
            return _form(e.left)
        if isinstance(op, (ast.Is, ast.Eq)) and _is_const_bool(r, False):
            return ("not", _form(e.left))
        if isinstance(op, (ast.IsNot, ast.NotEq)) and _is_const_bool(r, True):
            return ("not", _form(e.left))
        if isinstance(op, (ast.IsNot, ast.NotEq)) and _is_const_bool(r, False):
            return _form(e.left)
    return ("atom", norm(e))


def _form_atoms(f, out: Set[str]):
    if f[0] == "atom":
        out.add(f[1])
    elif f[0] == "not":
        _form_atoms(f[1], out)
    elif f[0] in ("and", "or"):
        for x in f[1]:
            _form_atoms(x, out)


def _form_eval(f, env) -> bool:
    if f[0] == "atom":
        return env[f[1]]
    if f[0] == "const":
        return f[1]
    if f[0] == "not":
        return not _form_eval(f[1], env)
    if f[0] == "and":
        return all(_form_eval(x, env) for x in f[1])
    return any(_form_eval(x, env) for x in f[1])


def entails_false(facts: Sequence[Tuple[ast.AST, bool]], goal_atom: str) -> bool:
    """Every truth assignment satisfying all facts makes `goal_atom` false."""
    forms = [(_form(e), pol) for e, pol in facts]
    names: Set[str] = {goal_atom}
    for f, _ in forms:
        _form_atoms(f, names)
    names_l = sorted(names)
    if len(names_l) > 14:
        # keep only facts that share atoms (transitively) with the goal
        keep, changed = {goal_atom}, True
        while changed:
            changed = False
            for f, _ in forms:
                a: Set[str] = set()
                _form_atoms(f, a)
                if a & keep and not a <= keep:
                    keep |= a
                    changed = True
        forms = [(f, p) for f, p in forms if (lambda a: (_form_atoms(f, a), a)[1])(set()) & keep]
        names_l = sorted(keep)
        if len(names_l) > 14:
            raise AnalysisError("C11.R1: guard proof needs more than 14 atoms")
    for vals in itertools.product((False, True), repeat=len(names_l)):
        env = dict(zip(names_l, vals))
        if not env[goal_atom]:
            continue
        if all(_form_eval(f, env) == pol for f, pol in forms):
            return False       # a model with goal true exists
    return True


def _clone(e: ast.AST) -> ast.AST:
    """Structural copy of an expression (repo AST nodes carry parent links, so deepcopy would copy the module)."""
    return ast.parse(ast.unparse(e), mode="eval").body


class _Subst(ast.NodeTransformer):
    def __init__(self, mapping):
        self.mapping = mapping

    def visit_Name(self, node):
        if isinstance(node.ctx, ast.Load) and node.id in self.mapping:
            return _clone(self.mapping[node.id])
        return node


PURE_ALIAS = (ast.Compare, ast.BoolOp, ast.UnaryOp, ast.Name, ast.Constant, ast.Attribute)


class GuardProver:
    """Decides whether `flag` (a parameter of function f) is provably falsy whenever `node` is evaluated."""

    def __init__(self, repo, cg: CallGraph):
        self.repo = repo
        self.cg = cg
        self._cfg: Dict[str, CFG] = {}

    def cfg(self, f: FuncInfo) -> CFG:
        if f.full not in self._cfg:
            self._cfg[f.full] = CFG(f.node)
        return self._cfg[f.full]

    # -- staleness: a store to one of `names` on a path origin -> store -> use that does not re-pass origin
    def _stale(self, f, origin_stmt, names: Set[str], use_nodes) -> bool:
        cfg = self.cfg(f)
        o_nodes = set(cfg.nodes_for(origin_stmt)) or set(cfg.stmt_nodes_containing(origin_stmt))
        if not o_nodes or not use_nodes:
            return True
        store_nodes = set()
        for st in stores(f.node, into_defs=True):
            root = st.path.split(".")[0].replace("[]", "").replace("()", "")
            if st.path in names or (root in names and st.kind in ("assign", "augassign", "del") and st.path == root):
                stn = enclosing_stmt(st.node) if not isinstance(st.node, ast.stmt) else st.node
                ns = cfg.nodes_for(stn) or cfg.stmt_nodes_containing(st.node)
                if not ns:
                    return True        # store inside a nested def: cannot order it
                store_nodes |= set(ns)
        store_nodes -= o_nodes
        if not store_nodes:
            return False
        after_origin = cfg.reachable(o_nodes, avoid=lambda n: n in o_nodes)
        for s in store_nodes & after_origin:
            if s in use_nodes:
                # the use statement itself stores the name after evaluating its right-hand side: fine
                continue
            reach = cfg.reachable([s], avoid=lambda n: n in o_nodes)
            if reach & set(use_nodes):
                return True
        return False

    def _call_guard_facts(self, f: FuncInfo, node):
        """Facts from earlier sibling statements that call a helper whose top-level guards raise."""
        out = []
        cur = node
        while cur is not None and cur is not f.node:
            p = parent(cur)
            if p is None:
                break
            if isinstance(cur, ast.stmt):
                block, _ = _block_of(cur)
                for s in block or []:
                    if s is cur:
                        break
                    c = s.value if isinstance(s, (ast.Expr, ast.Assign)) and isinstance(s.value, ast.Call) else None
                    if c is None:
                        continue
                    e = self.cg._resolve_call(f, c)
                    if e.kind not in ("exact", "self", "class") or len(e.targets) != 1:
                        continue
                    g = e.targets[0]
                    mapping = _param_map(g, c, bound=e.kind in ("self", "class") or _is_bound(c, g))
                    if mapping is None:
                        continue
                    if any(st.path in mapping for st in stores(g.node, into_defs=True)):
                        continue
                    for gs in g.node.body:
                        if any(isinstance(x, (ast.Return, ast.Yield, ast.YieldFrom)) for x in walk(gs)):
                            break
                        if isinstance(gs, ast.If) and not gs.orelse and always_exits(gs.body) and \
                                not any(isinstance(x, (ast.Return, ast.Continue, ast.Break)) for x in walk(gs)):
                            free = {n.id for n in ast.walk(gs.test) if isinstance(n, ast.Name)} - set(mapping)
                            if free:
                                continue
                            test = _Subst(mapping).visit(_clone(gs.test))
                            out.append((test, False, s))
            if isinstance(p, FUNC_TYPES + (ast.Lambda,)):
                break
            cur = p
        return out

    def _sibling_exit_facts(self, f: FuncInfo, node):
        """An earlier sibling `if` that completed normally did not take a path on which it always exits:
        fact NOT(exit condition), also for nested shapes such as `if a: (if b: raise)`."""
        out = []
        cur = node
        while cur is not None and cur is not f.node:
            p = parent(cur)
            if p is None:
                break
            if isinstance(cur, ast.stmt):
                block, _ = _block_of(cur)
                for s in block or []:
                    if s is cur:
                        break
                    if isinstance(s, ast.If):
                        cond = _exit_cond([s])
                        if cond is not None and not (isinstance(cond, ast.Constant)):
                            out.append((cond, False, s))
            if isinstance(p, FUNC_TYPES + (ast.Lambda,)):
                break
            cur = p
        return out

    def facts(self, f: FuncInfo, node):
        out = []
        for c in conditions(node):
            origin = c.test
            while origin is not None and not isinstance(origin, ast.stmt):
                origin = parent(origin)
            for e, pol in atoms(c.test, c.polarity):
                out.append((e, pol, origin))
        for e, pol, origin in self._sibling_exit_facts(f, node):
            for a, apol in atoms(e, pol):
                out.append((a, apol, origin))
        out.extend(self._call_guard_facts(f, node))
        return out

    def _expand(self, f, e, use_nodes, depth=0):
        """Replace single-assignment pure local aliases by their defining expression."""
        if depth > 4:
            return e
        bind = self.cg.bindings(f)

        prover = self

        class T(ast.NodeTransformer):
            def visit_Name(self, node):
                b = bind.get(node.id)
                if isinstance(node.ctx, ast.Load) and b and len(b) == 1 and b[0] is not None and \
                        isinstance(b[0], PURE_ALIAS) and not isinstance(b[0], ast.Constant):
                    # find the assignment statement
                    for st in stores(f.node, into_defs=False):
                        if st.path == node.id and st.kind == "assign" and st.value is b[0]:
                            names = {x.id for x in ast.walk(b[0]) if isinstance(x, ast.Name)}
                            if node.id in names:
                                return node
                            if not prover._stale(f, st.node, names, use_nodes):
                                return prover._expand(f, _clone(b[0]), use_nodes, depth + 1)
                return node
        return T().visit(_clone(e))

    def flag_false_at(self, f: FuncInfo, node, flag: str) -> Tuple[bool, str]:
        top = _top(f)
        if top is not f:
            return False, "call sits in a nested function: no dominating guard is assumed"
        cfg = self.cfg(f)
        use_nodes = set(cfg.stmt_nodes_containing(node))
        if not use_nodes:
            return False, "call sits in a nested function or lambda: no dominating guard is assumed"
        usable = []
        for e, pol, origin in self.facts(f, node):
            if origin is None:
                continue
            names = {x.id for x in ast.walk(e) if isinstance(x, ast.Name)}
            ex = self._expand(f, e, use_nodes | set(cfg.nodes_for(origin)))
            names |= {x.id for x in ast.walk(ex) if isinstance(x, ast.Name)}
            if self._stale(f, origin, names, use_nodes):
                continue
            usable.append((ex, pol))
        if any(st.path == flag for st in stores(f.node, into_defs=True)):
            return False, f"parameter {flag!r} is reassigned inside the function"
        ok = entails_false(usable, flag)
        return ok, "" if ok else ("dominating conditions " +
                                  (", ".join(f"{norm(e)}={'T' if p else 'F'}" for e, p in usable) or "(none)") +
                                  f" do not imply `not {flag}`")


def _arity_fits(g: FuncInfo, c: ast.Call) -> bool:
    """Could the call `c` (receiver.method(args)) bind to method g?  (over-approximate: True when unsure)"""
    a = g.node.args
    if any(isinstance(x, ast.Starred) for x in c.args) or any(k.arg is None for k in c.keywords):
        return True
    pos = [x.arg for x in a.posonlyargs + a.args]
    if "staticmethod" not in {ap(d) for d in g.node.decorator_list} and pos:
        pos = pos[1:]
    if len(c.args) > len(pos) and a.vararg is None:
        return False
    names = set(pos) | {x.arg for x in a.kwonlyargs}
    if a.kwarg is None and any(k.arg not in names for k in c.keywords):
        return False
    required = len(pos) - len(a.defaults)
    given = set(pos[:len(c.args)]) | {k.arg for k in c.keywords}
    if any(p not in given for p in pos[:max(required, 0)]):
        return False
    return True


def _exit_cond(stmts) -> Optional[ast.AST]:
    """Under-approximate condition (expression over the state at block entry) under which the block cannot
    complete normally; Constant(True) when it always exits, None when no such condition is known."""
    if not stmts:
        return None
    if always_exits(stmts) and not isinstance(stmts[0], ast.If):
        return ast.Constant(value=True)
    s0 = stmts[0]
    if isinstance(s0, (ast.Raise, ast.Return, ast.Continue, ast.Break)):
        return ast.Constant(value=True)
    if isinstance(s0, ast.If):
        a = _exit_cond(s0.body)
        b = _exit_cond(s0.orelse)
        parts = []
        if a is not None:
            t = _clone(s0.test)
            parts.append(t if isinstance(a, ast.Constant) else ast.BoolOp(op=ast.And(), values=[t, a]))
        if b is not None:
            nt = ast.UnaryOp(op=ast.Not(), operand=_clone(s0.test))
            parts.append(nt if isinstance(b, ast.Constant) else ast.BoolOp(op=ast.And(), values=[nt, b]))
        if not parts:
            return None
        if len(parts) == 2 and isinstance(a, ast.Constant) and isinstance(b, ast.Constant):
            return ast.Constant(value=True)
        return parts[0] if len(parts) == 1 else ast.BoolOp(op=ast.Or(), values=parts)
    return None


def _is_bound(c: ast.Call, g: FuncInfo) -> bool:
    if g.cls is None:
        return False
    decos = {ap(d) for d in g.node.decorator_list}
    if "staticmethod" in decos:
        return False
    return True


def _param_map(g: FuncInfo, c: ast.Call, bound: bool) -> Optional[Dict[str, ast.AST]]:
    a = g.node.args
    params = [x.arg for x in a.posonlyargs + a.args]
    if bound and g.cls is not None and "staticmethod" not in {ap(d) for d in g.node.decorator_list} and params:
        params = params[1:]
    if any(isinstance(x, ast.Starred) for x in c.args) or any(k.arg is None for k in c.keywords):
        return None
    mapping: Dict[str, ast.AST] = {}
    for p, arg in zip(params, c.args):
        mapping[p] = arg
    if len(c.args) > len(params) and a.vararg is None:
        return None
    for k in c.keywords:
        mapping[k.arg] = k.value
    all_params = params + [x.arg for x in a.kwonlyargs]
    pos_defaults = dict(zip(reversed([x.arg for x in a.posonlyargs + a.args]), reversed(a.defaults)))
    kw_defaults = {x.arg: d for x, d in zip(a.kwonlyargs, a.kw_defaults) if d is not None}
    for p in all_params:
        if p not in mapping:
            d = pos_defaults.get(p, kw_defaults.get(p))
            if d is None:
                return None
            mapping[p] = d
    return mapping


def _object_flag(repo, cg, f: FuncInfo, local_name: str, flag: str) -> Optional[str]:
    """`x = K(..., flag, ...)` and K.__init__ keeps that argument as `self.A` (written nowhere else in K's hierarchy):
    the flag lives on as `self.A` inside K's methods."""
    k = cg.constructed_class(f, local_name)
    if k is None:
        return None
    init = repo.lookup_method(k, "__init__")
    ctors = [b for b in cg.bindings(f).get(local_name, []) if isinstance(b, ast.Call)]
    if init is None or len(ctors) != 1:
        return None
    m = _param_map(init, ctors[0], bound=True)
    if not m:
        return None
    hits = [p_ for p_, a in m.items() if isinstance(a, ast.Name) and a.id == flag]
    if len(hits) != 1:
        return None
    attrs = [st.path for st in stores(init.node, into_defs=False) if st.kind == "assign" and st.path.startswith("self.")
             and isinstance(st.value, ast.Name) and st.value.id == hits[0]]
    if len(attrs) != 1 or any(st.path == hits[0] for st in stores(init.node)):
        return None
    attr = attrs[0].split(".", 1)[1]
    for c in [k] + repo.subclasses(k, strict=True) + repo.mro(k)[1:]:
        for meth in c.methods.values():
            for st in stores(meth.node, into_defs=True):
                if st.path.split(".")[-1].replace("[]", "") == attr and "." in st.path and not (meth is init and st.path == attrs[0]):
                    return None
    return attrs[0]


def _flag_param_in_callee(g: FuncInfo, c, flag: str, edge_kind: str) -> Optional[str]:
    if not isinstance(c, ast.Call):
        return None
    bound = g.cls is not None and edge_kind in ("self", "class", "by-name", "super")
    m = _param_map(g, c, bound=bound)
    if not m:
        return None
    hits = [p for p, a in m.items() if isinstance(a, ast.Name) and a.id == flag]
    return hits[0] if len(hits) == 1 else None


# =========================================================================== R1

def r1(ctx):
    repo = ctx.repo
    ctx.rule("C11.R1", "no evaluation sink (eval/exec/compile/__import__/pickle.load(s)/subfield_eval) is reachable "
                       "from from_human_string except through call edges dominated by `not safe`")
    root = repo.fn("HumanMessageSerializer.from_human_string")
    params = [a.arg for a in root.node.args.args + root.node.args.kwonlyargs]
    ctx.require("safe" in params, "from_human_string has no `safe` parameter any more: re-read the property anchor")
    cg = CallGraph(repo)
    gp = GuardProver(repo, cg)

    # positive control: the detector recognises the builtin eval inside subfield_eval
    se_fn = repo.fn("subfield_eval", FMT)
    ctl = [e for e in cg.edges(se_fn) if e.sink in SINK_BUILTINS]
    ctx.ob("C11.R1", "control: sink detector sees the builtin evaluation inside subfield_eval", bool(ctl), se_fn.where,
           "subfield_eval no longer evaluates through a recognised builtin: re-read it and update the sink list")

    # state = (function, name of the parameter carrying the safe flag or None, reached only when safe is false?)
    visited: Dict[Tuple[str, Optional[str], bool], Optional[Tuple]] = {}
    work = [(root, "safe", False)]
    visited[(root.full, "safe", False)] = None
    sink_edges = []
    discharged = 0
    serialize_reached = set()
    notes = set()
    while work:
        f, flag, unsafe_only = work.pop()
        for e in cg.edges(f):
            if not e.targets and not e.sink:
                nested = {d.name for d in walk(f.node, into_defs=True) if isinstance(d, FUNC_TYPES) and d is not f.node}
                if e.kind in ("local-callable", "computed-callee") and f is root and e.label not in nested:
                    notes.add(f"{f.qual}: call of a caller-supplied value `{norm(e.call)}` is not followed")
                continue
            guarded, why = unsafe_only, "no safe-mode flag reaches this function"
            if not guarded and flag is not None:
                guarded, why = gp.flag_false_at(f, e.call, flag)
            if e.sink:
                sink_edges.append((f, flag, unsafe_only, e, guarded, why))
                continue
            if guarded and not unsafe_only:
                discharged += 1
            for t in e.targets:
                t = _top(t)
                tflag = None
                if flag is not None and not guarded:
                    if e.kind == "object" and isinstance(e.call, ast.Call) and isinstance(e.call.func, ast.Attribute) \
                            and isinstance(e.call.func.value, ast.Name):
                        tflag = _object_flag(repo, cg, f, e.call.func.value.id, flag)
                    elif e.kind in ("self", "super") and flag.startswith("self."):
                        tflag = flag                   # same object, same attribute
                    if tflag is None and not flag.startswith("self."):
                        tflag = _flag_param_in_callee(t, e.call, flag, e.kind)
                key = (t.full, tflag, guarded)
                if key in visited or (t.full, None, False) in visited or (guarded and (t.full, tflag, False) in visited):
                    continue
                visited[key] = (f, flag, unsafe_only, e)
                if t.name == "serialize" and not guarded:
                    serialize_reached.add(t.full)
                work.append((t, tflag, guarded))

    def path_to(f, flag, unsafe_only):
        out = []
        cur = (f.full, flag, unsafe_only)
        guard = 0
        while cur in visited and visited[cur] is not None and guard < 200:
            pf, pflag, pun, pe = visited[cur]
            out.append(f"{pf.qual} --{pe.kind}--> ")
            cur = (pf.full, pflag, pun)
            guard += 1
        return list(reversed(out))

    reached = {k[0] for k in visited if not k[2]}
    ctx.floor("C11.R1", "functions reachable from from_human_string", len(reached), 40)
    ctx.floor("C11.R1", "serialize methods reached (subfield serializers, by name)", len(serialize_reached), 20)
    ctx.floor("C11.R1", "evaluation edges found (the guarded `=$` edge)", len(sink_edges), 1)
    bad = 0
    for f, flag, unsafe_only, e, guarded, why in sink_edges:
        p = path_to(f, flag, unsafe_only)
        inst = f"{f.qual}: {e.sink}() via `{norm(e.call)}`"
        if not guarded:
            bad += 1
        ctx.ob("C11.R1", inst, guarded, ctx.w(f, e.call),
               "" if guarded else f"evaluation sink reachable in safe mode: {why}"
               + (" [path contains by-name edges: over-approximate]" if any("by-name" in s for s in p) else ""),
               path=(p + [f"{f.qual}: {e.sink}"]) if not guarded else None)
    ctx.ob("C11.R1", "from_human_string: every reachable evaluation edge is dominated by `not safe`", bad == 0, root.where,
           f"{len(reached)} functions reachable, {len(sink_edges)} evaluation edge(s), {bad} not guarded, "
           f"{discharged} call edges only taken when safe is false")
    ctx.stats["C11.R1.callgraph"] = dict(cg.stats)
    for n in sorted(notes):
        ctx.note(n)
    ctx.assume("attribute loads (properties, __getattr__, descriptors), operators other than subscripting/`in`/"
               "iteration/with, and __repr__/__str__ conversions are not call edges of the C11.R1 call graph")


def _parser_fns(repo, cg, pf: FuncInfo) -> List[FuncInfo]:
    """from_human_string, its same-class helpers, and the methods of collaborator objects it constructs and
    delegates to (`p = _Parser(...); p.parse(text)`), with their helpers."""
    out = list(class_methods_reachable(repo, pf))
    for g in list(out):
        for c in calls(g.node, into_defs=True):
            if isinstance(c.func, ast.Attribute) and isinstance(c.func.value, ast.Name) and cg.bindings(g).get(c.func.value.id):
                k = cg.constructed_class(g, c.func.value.id)
                m = repo.lookup_method(k, c.func.attr) if k is not None else None
                if m is not None:
                    for h in class_methods_reachable(repo, m, depth=5):
                        if h not in out:
                            out.append(h)
    return out


def _attr_or_local_values(repo, cg, g: FuncInfo, base: str, fns) -> List[ast.AST]:
    """Values bound to a local name, or to `self.<attr>` anywhere in the given functions."""
    if "." not in base:
        return [b for b in cg.bindings(g).get(base, []) if b is not None]
    vals = []
    for h in fns:
        for st in stores(h.node, into_defs=True):
            if st.path == base and st.kind == "assign" and st.value is not None:
                vals.append((h, st.value))
    return vals


# =========================================================================== R2 helpers

def _render(js, samples: Dict[str, str], default="X") -> Optional[str]:
    """Render a Constant str / JoinedStr with sample values for placeholders (keyed by normalised expr)."""
    if isinstance(js, ast.Constant) and isinstance(js.value, str):
        return js.value
    if not isinstance(js, ast.JoinedStr):
        return None
    out = ""
    for v in js.values:
        if isinstance(v, ast.Constant):
            out += str(v.value)
        else:
            out += samples.get(norm(v.value), default)
    return out


def _const_str_args(c: ast.Call) -> List[str]:
    return [a.value for a in c.args if isinstance(a, ast.Constant) and isinstance(a.value, (str, bytes))]


class RegexUse:
    __slots__ = ("call", "method", "pattern", "cre", "g")

    def __init__(self, call, method, pattern, cre, g):
        self.call, self.method, self.pattern, self.cre, self.g = call, method, pattern, cre, g

    def apply(self, text):
        return getattr(self.cre, self.method)(text)

    @property
    def start_anchored(self) -> bool:
        """The match can only begin at the start of the subject (match/fullmatch, or a leading ^ / \\A in every
        top-level alternative)."""
        if self.method in ("match", "fullmatch"):
            return True
        try:
            import re._parser as sre_parse       # Python >= 3.11
        except ImportError:                       # pragma: no cover
            import sre_parse
        AT, BRANCH, SUBPATTERN = sre_parse.AT, sre_parse.BRANCH, sre_parse.SUBPATTERN
        begin = (sre_parse.AT_BEGINNING, sre_parse.AT_BEGINNING_STRING)

        def seq_anchored(seq) -> bool:
            items = list(seq)
            if not items:
                return False
            op, av = items[0]
            if op is AT and av in begin:
                return not (self.cre.flags & re.MULTILINE) or av is sre_parse.AT_BEGINNING_STRING
            if op is BRANCH:
                return all(seq_anchored(alt) for alt in av[1])
            if op is SUBPATTERN:
                return seq_anchored(av[3])
            return False
        return seq_anchored(sre_parse.parse(self.pattern))


def _const_pattern(repo, g: FuncInfo, e) -> Optional[str]:
    """Constant pattern string denoted by e (literal, or a module / class level constant)."""
    if isinstance(e, ast.Constant) and isinstance(e.value, str):
        return e.value
    v = _static_value(repo, g, e)
    if isinstance(v, ast.Constant) and isinstance(v.value, str):
        return v.value
    return None


def _static_value(repo, g: FuncInfo, e) -> Optional[ast.AST]:
    """Value node of a module-level name or a class attribute reached as cls.X / self.X / Class.X."""
    if isinstance(e, ast.Name):
        return repo.module_assign(g.module, e.id)
    if isinstance(e, ast.Attribute) and isinstance(e.value, ast.Name):
        if e.value.id in ("cls", "self") and g.cls is not None:
            return repo.class_attr(g.cls, e.attr)
        ci = repo.resolve_class(e.value.id, g.module)
        if ci is not None:
            return repo.class_attr(ci, e.attr)
    return None


def _regex_uses(repo, g: FuncInfo, node=None) -> List[RegexUse]:
    """re.match/search/fullmatch(<const pattern>, subject) and <precompiled constant>.match/search/fullmatch(subject)."""
    out = []
    for c in calls(node if node is not None else g.node, into_defs=True):
        if not (isinstance(c.func, ast.Attribute) and c.func.attr in ("match", "search", "fullmatch")):
            continue
        pat = None
        if ap(c.func.value) == "re" and g.module.imports.get("re") == "re" and c.args:
            pat = _const_pattern(repo, g, c.args[0])
            if pat is None:
                v = _static_value(repo, g, c.args[0])
                if isinstance(v, ast.Call) and ap(v.func) == "re.compile" and v.args:
                    pat = _const_pattern(repo, g, v.args[0])
        else:
            v = _static_value(repo, g, c.func.value)
            if isinstance(v, ast.Call) and ap(v.func) == "re.compile" and v.args:
                pat = _const_pattern(repo, g, v.args[0])
        if pat is None:
            continue
        try:
            cre = re.compile(pat)
        except re.error as exc:
            raise AnalysisError(f"C11.R2: parser pattern {pat!r} does not compile: {exc}")
        out.append(RegexUse(c, c.func.attr, pat, cre, g))
    return out


def _decides_branch(g: FuncInfo, c: ast.Call) -> bool:
    """The regex result is (part of) an if/elif/while/conditional test, directly or through a local name."""
    cur = c
    while parent(cur) is not None and not isinstance(parent(cur), ast.stmt):
        p = parent(cur)
        if isinstance(p, ast.IfExp) and p.test is cur:
            return True
        if isinstance(p, (ast.Attribute, ast.Call, ast.Subscript)) and p is not c:
            # .group(...) / indexing of the result: extraction, not a test (an attribute of None would raise)
            if not (isinstance(p, ast.Call) and any(a is cur for a in p.args)):
                return False
        cur = p
    st = parent(cur)
    if isinstance(st, (ast.If, ast.While)) and st.test is cur:
        return True
    if isinstance(st, ast.Assert):
        return True
    if isinstance(st, ast.Assign) and len(st.targets) == 1 and isinstance(st.targets[0], ast.Name) and st.value is cur:
        nm = st.targets[0].id
        for n in walk(g.node, into_defs=True):
            if isinstance(n, (ast.If, ast.While, ast.IfExp)):
                for x in ast.walk(n.test):
                    if isinstance(x, ast.Name) and x.id == nm and not isinstance(parent(x), (ast.Attribute, ast.Subscript)):
                        return True
    return False


def _str_values(repo, cg, g: FuncInfo, e, depth=0) -> Optional[Set[str]]:
    """Every string an expression in g may denote when it is built from constants only: literals, module / class constants,
    locals bound to such, conditional expressions, and same-class / same-module helpers all of whose returns are such."""
    if e is None or depth > 5:
        return None
    if isinstance(e, ast.Constant):
        return {e.value} if isinstance(e.value, str) else None
    if isinstance(e, ast.IfExp):
        a, b = _str_values(repo, cg, g, e.body, depth + 1), _str_values(repo, cg, g, e.orelse, depth + 1)
        return None if a is None or b is None else a | b
    if isinstance(e, ast.Name):
        bs = cg.bindings(g).get(e.id)
        if bs:
            out: Set[str] = set()
            for b in bs:
                v = _str_values(repo, cg, g, b, depth + 1) if b is not None else None
                if v is None:
                    return None
                out |= v
            return out
        return _str_values(repo, cg, g, repo.module_assign(g.module, e.id), depth + 1)
    if isinstance(e, ast.Attribute):
        return _str_values(repo, cg, g, _static_value(repo, g, e), depth + 1)
    if isinstance(e, ast.Call):
        edge = cg._resolve_call(g, e)
        if edge.kind in ("self", "class", "exact") and len(edge.targets) == 1:
            h = edge.targets[0]
            rets = [n.value for n in walk(h.node) if isinstance(n, ast.Return) and n.value is not None]
            out = set()
            for r_ in rets:
                v = _str_values(repo, cg, h, r_, depth + 1)
                if v is None:
                    return None
                out |= v
            return out or None
    return None


def _string_pieces(fn_node) -> List[ast.AST]:
    """String-typed expressions that are accumulated into / returned as the output text."""
    out = []
    for n in walk(fn_node, into_defs=True):
        if isinstance(n, ast.AugAssign) and isinstance(n.op, ast.Add):
            out.append(n.value)
        elif isinstance(n, ast.Assign):
            out.append(n.value)
        elif isinstance(n, ast.Return) and n.value is not None:
            out.append(n.value)
        elif isinstance(n, ast.Call) and isinstance(n.func, ast.Attribute) and n.func.attr in ("append", "extend", "write"):
            out.extend(n.args)          # parts.append(piece) / buf.write(piece)
    pieces = []
    for v in out:
        for x in ast.walk(v):
            if isinstance(x, ast.JoinedStr):
                pieces.append(x)
        if isinstance(v, ast.Constant) and isinstance(v.value, str):
            pieces.append(v)
    # de-duplicate nested JoinedStr (format specs)
    seen, res = set(), []
    for p in pieces:
        if id(p) not in seen:
            seen.add(id(p))
            res.append(p)
    return res


def r2(ctx):
    repo = ctx.repo
    ctx.rule("C11.R2", "every line shape the formatter emits (operators, comments, continuation, flags, block header) "
                       "is accepted by the parser's constant patterns and selects the matching parser branch")
    pf = repo.fn("HumanMessageSerializer.from_human_string")
    tf = repo.fn("HumanMessageSerializer.to_human_string")
    fv = repo.fn("HumanMessageSerializer._format_var")
    # the multi-line literal printer: a method of the serializer or a module-level function of its module
    ml = repo.fn_opt("HumanMessageSerializer._multi_line_pformat") or repo.fn_opt("_multi_line_pformat", FMT)
    ctx.require(ml is not None, "anchor _multi_line_pformat (method of HumanMessageSerializer or function of "
                                "message_formatting.py) vanished")
    cg = CallGraph(repo)
    pfns = _parser_fns(repo, cg, pf)
    ev = ConstEval(repo, pf.module)

    # ---- parser constants
    comment_pats, expr_pats = [], []
    uses = [u for g in pfns for u in _regex_uses(repo, g)]
    ctx.floor("C11.R2", "constant regular expressions used by the parser", len(uses), 5)
    for u in uses:
        st = enclosing_stmt(u.call)
        if isinstance(st, ast.If) and any(x is u.call for x in ast.walk(st.test)) and st.body and \
                isinstance(st.body[-1], ast.Continue) and u.apply("") is not None:
            comment_pats.append(u)
        elif u.cre.groups == 3:
            expr_pats.append(u)
    ctx.require(len(comment_pats) == 1, f"C11.R2: expected one comment/blank-line skip pattern in the parser, found {len(comment_pats)}")
    ctx.require(len(expr_pats) == 1, f"C11.R2: expected one `name operator value` pattern in the parser, found {len(expr_pats)}")
    comment_re = comment_pats[0]
    expr_re = expr_pats[0]
    eg = expr_re.g
    # every pattern that decides how a line / value is interpreted can only match at its start: the formatter puts
    # arbitrary text inside string literals, an unanchored sniffing pattern would fire on text in the middle
    n_dec = 0
    for u in uses:
        if _decides_branch(u.g, u.call):
            n_dec += 1
            ctx.ob("C11.R2", f"{u.g.qual}: branch-deciding pattern {u.pattern!r} can only match at the start of its subject",
                   u.start_anchored, ctx.w(u.g, u.call),
                   f"used with .{u.method}() and no leading ^/\\A: any value merely containing a match is taken by this "
                   f"branch (e.g. a quoted string literal the formatter printed)")
    ctx.floor("C11.R2", "branch-deciding patterns in the parser", n_dec, 4)
    # operator variable = 2nd target of the unpacking of .groups()
    op_var = None
    for st in walk(eg.node):
        if isinstance(st, ast.Assign) and isinstance(st.targets[0], ast.Tuple) and len(st.targets[0].elts) == 3 and \
                isinstance(st.value, ast.Call) and call_attr(st.value) == "groups":
            op_var = ap(st.targets[0].elts[1])
    ctx.require(op_var is not None, "C11.R2: parser no longer unpacks (name, operator, value) from .groups()")
    # classification flags: locals assigned from an expression over the operator variable and constants only
    flag_defs = {}
    for st in stores(eg.node, into_defs=False):
        if st.kind == "assign" and st.value is not None and isinstance(st.target, ast.Name):
            names = {x.id for x in ast.walk(st.value) if isinstance(x, ast.Name)}
            if names == {op_var} and isinstance(st.value, (ast.Compare, ast.BoolOp, ast.UnaryOp)):
                flag_defs[st.path] = st.value
    ctx.floor("C11.R2", "operator classification flags in the parser", len(flag_defs), 2)

    def classify(op: str) -> Dict[str, object]:
        env = {op_var: op}
        out = {}
        for k, v in flag_defs.items():
            out[k] = ev.ev(v, env)
        return out

    def may_execute(g, node, env) -> bool:
        """No dominating condition that is decidable under env contradicts execution of node."""
        for c in conditions(node):
            for e, pol in atoms(c.test, c.polarity):
                v = ev.ev(e, env)
                if isinstance(v, (Sym, CallVal)):
                    continue
                if bool(v) != pol:
                    return False
        return True

    # parser call sites that matter
    # evaluating sites of the parser itself: direct sinks, and calls of same-class helpers that (transitively)
    # contain one (the helper's own guards are R1's business; here only the operator dispatch matters)
    # (the operator dispatch lives in the function that classifies the operator: eg)
    evaluating = {g.full for g in pfns if g is not eg and any(e.sink for e in cg.edges(g))}
    grew = True
    while grew:
        grew = False
        for g in pfns:
            if g is not eg and g.full not in evaluating and any(
                    t.full in evaluating for e in cg.edges(g) if e.kind in ("self", "class", "exact") for t in e.targets):
                evaluating.add(g.full)
                grew = True
    sink_calls = [(eg, e.call) for e in cg.edges(eg)
                  if e.sink or (e.kind in ("self", "class", "exact") and isinstance(e.call, ast.Call)
                                and any(t.full in evaluating for t in e.targets))]
    # the packed branch is where the subfield serializer is looked up (its serialize() may run there or be deferred
    # through a work list; C11.R3 ties the lookup to the serialize() call)
    ser_calls = [(g, node) for g, node, key in _registry_lookups(repo, pfns)]
    ctx.floor("C11.R2", "subfield serializer lookups in the parser (packed branch)", len(ser_calls), 1)
    ctx.floor("C11.R2", "serialize() calls in the parser", sum(len(find_calls(g.node, "serialize")) for g in pfns), 1)

    # ---- formatter: variable lines
    var_lines = []
    for g in class_methods_reachable(repo, fv):
        for js in _string_pieces(g.node):
            if not isinstance(js, ast.JoinedStr):
                continue
            vals = js.values
            for i, v in enumerate(vals):
                if isinstance(v, ast.FormattedValue) and i + 1 < len(vals) and isinstance(vals[i + 1], ast.Constant) \
                        and "=" in str(vals[i + 1].value) and i + 2 < len(vals) and isinstance(vals[i + 2], ast.FormattedValue):
                    var_lines.append((g, js, i))
    ctx.floor("C11.R2", "`name operator value` line shapes emitted by the formatter", len(var_lines), 2)
    line_kinds = []
    for g, js, i in var_lines:
        vals = js.values
        op = str(vals[i + 1].value).strip()
        value_fv = vals[i + 2]
        # does the printed value come from a subfield serializer's deserialize()?
        names = {x.id for x in ast.walk(value_fv.value) if isinstance(x, ast.Name)}
        derived = False
        for nme in names:
            for b in cg.bindings(g).get(nme, []):
                if b is not None and any(call_attr(c) == "deserialize" for c in calls(b)):
                    derived = True
        line_kinds.append((g, js, i, derived))
        # prefixes: every constant value the placeholders before the name can take
        prefix_opts = [""]
        for v in vals[:i]:
            if isinstance(v, ast.Constant):
                prefix_opts = [p + str(v.value) for p in prefix_opts]
            else:
                consts = sorted(_str_values(repo, cg, g, v.value) or [])
                ctx.require(bool(consts), f"C11.R2: cannot enumerate the values of line prefix {norm(v.value)}")
                prefix_opts = [p + c for p in prefix_opts for c in sorted(set(consts))]
        tail = "".join(str(v.value) if isinstance(v, ast.Constant) else "1" for v in vals[i + 3:])
        for pre in sorted(set(prefix_opts)):
            line = (pre + "Name" + str(vals[i + 1].value) + "1" + tail).split("\n")[0].strip()
            key = f"{g.qual}: line `{pre}<name>{vals[i + 1].value}<{'pretty' if derived else 'raw'} value>`"
            where = ctx.w(g, js)
            if comment_re.apply(line):
                ctx.ob("C11.R2", key + " is skipped as a comment", pre.strip() != "", where,
                       "a variable line without comment prefix is swallowed by the parser's comment pattern")
                continue
            m = expr_re.apply(line)
            ok = m is not None and m.group(1) == "Name" and m.group(2) == op and m.group(3).strip() == "1"
            ctx.ob("C11.R2", key + " matches the parser's expression pattern", ok, where,
                   f"parser pattern {expr_re.pattern!r} on {line!r} gives {m.groups() if m else None}, formatter emits operator {op!r}")
            if not ok:
                continue
            env = dict(classify(op))
            env[op_var] = op
            ev_hits = [c for g2, c in sink_calls if may_execute(g2, c, env)]
            ctx.ob("C11.R2", key + " never selects the evaluating branch", not ev_hits, where,
                   f"operator {op!r} is classified {classify(op)}: safe-mode parsing of the formatter's own output raises/evaluates")
            ser_hit = any(may_execute(g2, c, env) for g2, c in ser_calls)
            ctx.ob("C11.R2", key + (" is re-encoded through the subfield serializer" if derived
                                    else " is taken literally (no subfield serializer)"),
                   ser_hit == derived, where,
                   f"operator {op!r} classified {classify(op)}; value printed {'by' if derived else 'without'} a subfield serializer")

    # ---- the raw line may be commented out only on paths that have emitted the pretty line for the same variable
    for g in {x[0] for x in line_kinds}:
        pretty = [enclosing_stmt(js) for g2, js, i, d in line_kinds if g2 is g and d]
        raw = [(enclosing_stmt(js), js, i) for g2, js, i, d in line_kinds if g2 is g and not d]
        if not pretty or not raw:
            continue
        cfg = CFG(g.node)
        p_nodes = {n for st_ in pretty for n in cfg.nodes_for(st_)}
        for f_stmt, js, i in raw:
            f_nodes = set(cfg.nodes_for(f_stmt))
            for v in js.values[:i]:
                if not (isinstance(v, ast.FormattedValue) and isinstance(v.value, ast.Name)):
                    continue
                pname = v.value.id
                defs = [st_ for st_ in stores(g.node, into_defs=False) if st_.path == pname and st_.kind == "assign"]
                def_nodes = {n for st_ in defs for n in cfg.nodes_for(st_.node)}
                no_pretty_yet = cfg.reachable([cfg.entry], avoid=lambda n: n in p_nodes)
                for st_ in defs:
                    if not (isinstance(st_.value, ast.Constant) and isinstance(st_.value.value, str) and st_.value.value.strip()
                            and comment_re.apply((st_.value.value + "Name = 1").strip())):
                        continue
                    a_nodes = set(cfg.nodes_for(st_.node))
                    bad = False
                    if a_nodes & no_pretty_yet:
                        reach = cfg.reachable(a_nodes, avoid=lambda n: n in p_nodes or (n in def_nodes and n not in a_nodes))
                        bad = bool(reach & f_nodes)
                    ctx.ob("C11.R2", f"{g.qual}: `{norm(st_.node)}` comments the raw line out only after the pretty line was written",
                           not bad, ctx.w(g, st_.node),
                           "a path (e.g. the subfield pretty-printer raising into the catch-all handler) reaches the raw line with "
                           "the comment prefix set and no `=|` line written: the variable disappears from the parsed message")

    # ---- formatter: comment lines (text following a newline inside one emitted piece) and inline originals
    n_comment = 0
    tfns = class_methods_reachable(repo, tf)           # to_human_string and the helpers it splits its text into
    if fv not in tfns:
        tfns.append(fv)
    for g in tfns:
        for piece in _string_pieces(g.node):
            text = _render(piece, {}, "1")
            if text is None or "\n" not in text:
                continue
            for seg in text.split("\n")[1:]:
                s = seg.strip()
                if not s:
                    continue
                if comment_re.apply(s):
                    n_comment += 1
                    ctx.ob("C11.R2", f"{g.qual}: emitted annotation line `{norm(piece)}` is skipped by the parser", True,
                           ctx.w(g, piece))
                    continue
                ctx.ob("C11.R2", f"{g.qual}: emitted line `{norm(piece)}` is a comment, block header or expression line",
                       expr_re.apply(s) is not None, ctx.w(g, piece),
                       f"{s!r} matches neither the parser's comment pattern {comment_re.pattern!r} nor its expression "
                       f"pattern (the parser would fail on it)")
    ctx.floor("C11.R2", "annotation (comment) lines emitted by to_human_string", n_comment, 1)
    # inline original after a pretty value: must be a Python comment for ast.literal_eval
    inline = []
    acc_names = {ap(parent(js).target) for g, js, i in var_lines if isinstance(parent(js), ast.AugAssign)}
    for n in walk(fv.node, into_defs=True):
        if isinstance(n, ast.AugAssign) and isinstance(n.op, ast.Add) and ap(n.target) in acc_names and \
                isinstance(n.value, ast.JoinedStr) and n.value.values and isinstance(n.value.values[0], ast.Constant) \
                and str(n.value.values[0].value).strip() and not any(n.value is js for g, js, i in var_lines):
            inline.append(n.value)
    for piece in inline:
        text = "1" + _render(piece, {}, "2")
        try:
            okv = ast.literal_eval(text) == 1
        except Exception:
            okv = False
        def _is_literal_eval(c) -> bool:
            if ap(c.func) == "ast.literal_eval":
                return True
            # a module-level helper wrapping ast.literal_eval
            return isinstance(c.func, ast.Name) and any(
                h.module is pf.module and h.cls is None and any(ap(x.func) == "ast.literal_eval" for x in calls(h.node, into_defs=True))
                for h in repo.funcs.get(c.func.id, []))
        lit = any(_is_literal_eval(c) and may_execute(pf, c, {**classify("=|"), op_var: "=|"})
                  for g_ in pfns for c in calls(g_.node))
        ctx.ob("C11.R2", f"_format_var: inline original `{norm(piece)}` is a comment to the packed-value literal parser",
               okv and lit, ctx.w(fv, piece), f"`<value>{_render(piece, {}, '2')}` must literal-eval to <value> and the packed "
               f"branch must parse with ast.literal_eval")

    # ---- continuation
    whiles = [n for g in pfns for n in walk(g.node) if isinstance(n, ast.While) and isinstance(n.test, ast.Call)
              and call_attr(n.test) == "endswith" and _const_str_args(n.test)]
    ctx.require(len(whiles) == 1, f"C11.R2: expected one continuation loop (`while value.endswith(const)`), found {len(whiles)}")
    cont = _const_str_args(whiles[0].test)[0]
    cut = None
    for n in walk(whiles[0]):
        if isinstance(n, ast.Subscript) and isinstance(n.slice, ast.Slice) and n.slice.lower is None and n.slice.upper is not None \
                and ap(n.value) == ap(whiles[0].test.func.value):
            v = ev.ev(n.slice.upper)
            if isinstance(v, int):
                cut = -v
    ctx.ob("C11.R2", "parser removes exactly the continuation marker it tests for", cut == len(cont), ctx.w(pf, whiles[0]),
           f"tests endswith({cont!r}) but cuts {cut} characters")
    def _assemblies(ml):
        # line assembly: an f-string or `+` chain made of constant-valued parts around exactly one variable part (the line)
        mlbind = cg.bindings(ml)

        def const_values(e, depth=0) -> Optional[Set[str]]:
            if depth > 4:
                return None
            if isinstance(e, ast.Constant) and isinstance(e.value, str):
                return {e.value}
            if isinstance(e, ast.IfExp):
                a, b = const_values(e.body, depth + 1), const_values(e.orelse, depth + 1)
                return None if a is None or b is None else a | b
            if isinstance(e, ast.BinOp) and isinstance(e.op, ast.Add):
                a, b = const_values(e.left, depth + 1), const_values(e.right, depth + 1)
                return None if a is None or b is None else {x + y for x in a for y in b}
            if isinstance(e, ast.Name):
                bs = mlbind.get(e.id, [])
                if not bs:
                    mv = repo.module_assign(ml.module, e.id)
                    return const_values(mv, depth + 1) if mv is not None else None
                if any(b is None for b in bs):
                    return None
                out: Set[str] = set()
                for b in bs:
                    v = const_values(b, depth + 1)
                    if v is None:
                        return None
                    out |= v
                return out
            return None

        def parts_of(e) -> Optional[List[ast.AST]]:
            if isinstance(e, ast.JoinedStr):
                return [v.value if isinstance(v, ast.FormattedValue) else v for v in e.values]
            if isinstance(e, ast.BinOp) and isinstance(e.op, ast.Add):
                out, cur = [], e
                while isinstance(cur, ast.BinOp) and isinstance(cur.op, ast.Add):
                    out.insert(0, cur.right)
                    cur = cur.left
                out.insert(0, cur)
                return out
            return None
        assemblies = []
        for n in walk(ml.node, into_defs=True):
            if isinstance(n, ast.BinOp) and isinstance(parent(n), ast.BinOp) and isinstance(parent(n).op, ast.Add) \
                    and parent(n).left is n:
                continue
            if isinstance(n, ast.AugAssign):
                continue
            ps = parts_of(n)
            if not ps or len(ps) < 2:
                continue
            vals = [const_values(x) for x in ps]
            var_idx = [i for i, v in enumerate(vals) if v is None]
            if len(var_idx) == 1 and any(v is not None and any("\n" in c for c in v) for v in vals):
                assemblies.append((n, ps, vals, var_idx[0]))
        import itertools as _it
        shaped = []          # (node, prefixes, suffixes)
        for n, ps, vals, vi in assemblies:
            pres = {"".join(c) for c in _it.product(*vals[:vi])} if vi else {""}
            sufs = {"".join(c) for c in _it.product(*vals[vi + 1:])} if vi + 1 < len(ps) else {""}
            shaped.append((n, pres, sufs))
        # `SEP.join(<line or INDENT + line> for ...)`: SEP follows every line but the last
        for n in walk(ml.node, into_defs=True):
            if isinstance(n, ast.Call) and isinstance(n.func, ast.Attribute) and n.func.attr == "join" and len(n.args) == 1:
                seps = const_values(n.func.value)
                if not seps or not any("\n" in c for c in seps):
                    continue
                # the separator may carry the next line's indent after its newline: split it at the last newline
                sep_sufs = {c[:c.rindex("\n") + 1] if "\n" in c else c for c in seps}
                sep_pres = {c[c.rindex("\n") + 1:] if "\n" in c else "" for c in seps}
                pres, sufs, okshape = set(sep_pres) | {""}, set(sep_sufs), True
                if isinstance(n.args[0], (ast.GeneratorExp, ast.ListComp)):
                    arms = [n.args[0].elt]
                    while any(isinstance(a, ast.IfExp) for a in arms):
                        arms = [x for a in arms for x in ([a.body, a.orelse] if isinstance(a, ast.IfExp) else [a])]
                    for a in arms:
                        ps = parts_of(a) or [a]
                        vals = [const_values(x) for x in ps]
                        var_idx = [i for i, v in enumerate(vals) if v is None]
                        if len(var_idx) != 1:
                            okshape = False
                            break
                        vi = var_idx[0]
                        arm_pres = {"".join(c) for c in _it.product(*vals[:vi])} if vi else {""}
                        pres |= {x + y for x in sep_pres | {""} for y in arm_pres}
                        if vi + 1 < len(ps):
                            sufs = {x + y for x in ({"".join(c) for c in _it.product(*vals[vi + 1:])}) for y in sep_sufs}
                if okshape:
                    shaped.append((n, pres, sufs))
        return shaped

    # the printer may be a forwarding stub: follow `return <obj>.m(val)` / `return helper(val)` to where the lines are joined
    shaped = _assemblies(ml)
    for _ in range(3):
        if shaped:
            break
        rets = [n.value for n in walk(ml.node) if isinstance(n, ast.Return) and n.value is not None]
        nxt = None
        if len(rets) == 1 and isinstance(rets[0], ast.Call):
            e_ = cg._resolve_call(ml, rets[0])
            if e_.kind in ("exact", "object", "self", "class") and len(e_.targets) >= 1:
                nxt = _top(e_.targets[0])
        if nxt is None or nxt is ml:
            break
        ml = nxt
        shaped = _assemblies(ml)
    ctx.floor("C11.R2", "line assembly expressions in _multi_line_pformat", len(shaped), 1)
    for n, pres, sufs in shaped:
        for suf in sorted(sufs):
            if not suf:
                continue
            head, nl, rest = suf.partition("\n")
            ok = nl == "\n" and rest == "" and head.strip() == cont and ("1" + head).rstrip().endswith(cont)
            ctx.ob("C11.R2", f"_multi_line_pformat: line suffix {suf!r} is the parser's continuation marker + newline", ok,
                   ctx.w(ml, n), f"parser continues a value only when the stripped line ends with {cont!r}")
        for pre in sorted(pres):
            ctx.ob("C11.R2", f"_multi_line_pformat: continuation-line prefix {pre!r} is whitespace only", pre.strip() == "",
                   ctx.w(ml, n), "the parser strips lines and concatenates them: a non-blank prefix becomes part of the value")

    # ---- block header and flags
    # functions that build the Block (directly or through parser-internal calls)
    blk_builders = {g.name for g in pfns if any(call_attr(x) == "Block" for x in calls(g.node, into_defs=True))}
    grew = True
    while grew:
        grew = False
        for g in pfns:
            if g.name not in blk_builders and any(call_attr(x) in blk_builders and isinstance(x.func, ast.Attribute)
                                                   for x in calls(g.node, into_defs=True)):
                blk_builders.add(g.name)
                grew = True

    def _starts_block(x) -> bool:
        return call_attr(x) == "Block" or (isinstance(x.func, ast.Attribute) and call_attr(x) in blk_builders
                                           and ap(x.func.value) in ("self", "cls"))
    sw = [c for g in pfns for c in find_calls(g.node, "startswith") if _const_str_args(c)
          and isinstance(enclosing_stmt(c), ast.If) and any(x is c for x in ast.walk(enclosing_stmt(c).test))
          and any(_starts_block(x) for b in enclosing_stmt(c).body for x in calls(b))]
    ctx.require(len(sw) == 1, "C11.R2: parser's block-header test (`line.startswith(const)` guarding Block(...)) not found")
    blk_const = _const_str_args(sw[0])[0]
    blk_if = enclosing_stmt(sw[0])
    called = {call_attr(x) for b in blk_if.body for x in calls(b) if _starts_block(x) and call_attr(x) != "Block"}
    name_pats = [u for g in pfns for u in _regex_uses(repo, g)
                 if (any(x is u.call for b in blk_if.body for x in ast.walk(b)) or g.name in called)
                 and not _decides_branch(g, u.call)]
    ctx.require(len(name_pats) == 1, "C11.R2: block-name pattern in the parser's block-header branch not found")
    blk_re = name_pats[0]
    hdrs = []
    for js in [x for g_ in tfns if g_ is not fv for x in _string_pieces(g_.node)]:
        if isinstance(js, ast.JoinedStr) and len(js.values) > 1 and isinstance(js.values[0], ast.Constant) and \
                isinstance(js.values[1], ast.FormattedValue) and _render(js, {}, "").endswith("\n") and \
                not _render(js, {}, "").startswith("\n") and not comment_re.apply(_render(js, {}, "Blk").split("\n")[0].strip()):
            hdrs.append(js)
    ctx.floor("C11.R2", "block header line shapes emitted", len(hdrs), 1)
    for js in hdrs:
        # placeholders after the name may take any constant bound to them
        opts = [""]
        for k, v in enumerate(js.values):
            if isinstance(v, ast.Constant):
                opts = [o + str(v.value) for o in opts]
            elif k == 1:
                opts = [o + "Blk" for o in opts]
            else:
                consts_ = sorted(_str_values(repo, cg, tf, v.value) or [])
                ctx.require(bool(consts_), f"C11.R2: cannot enumerate values of {norm(v.value)} in the block header")
                opts = [o + c for o in opts for c in consts_]
        for line in sorted(set(opts)):
            s = line.split("\n")[0].strip()
            m = blk_re.apply(s)
            ok = s.startswith(blk_const) and m is not None and m.group(0) == "Blk" and not comment_re.apply(s)
            ctx.ob("C11.R2", f"to_human_string: block header {s!r} parses to its block name", ok, ctx.w(tf, js),
                   f"parser takes lines starting with {blk_const!r} and reads the name with {blk_re.pattern!r}")
    # flags: ` [{flag.name}]` / ` [{int}]`
    strip_calls = [c for g in pfns for c in find_calls(g.node, "strip") if _const_str_args(c)]
    split_calls = [c for g in pfns for c in find_calls(g.node, "split") if _const_str_args(c)
                   and _const_str_args(c)[0] not in ("\n", ",")]
    ctx.require(len(strip_calls) == 1 and len(split_calls) >= 1, "C11.R2: parser's option tokenisation (split/strip constants) not found")
    strip_set = _const_str_args(strip_calls[0])[0]
    sep = _const_str_args(split_calls[0])[0]
    num_pats = [u for u in uses if u.cre.fullmatch("12") and not u.cre.match("x") and u.cre.groups == 0]
    member_tests = [n for g in pfns for n in walk(g.node) if isinstance(n, ast.Compare) and isinstance(n.ops[0], ast.In)
                    and (ap(n.comparators[0]) or "").endswith(".__members__")]
    ctx.require(len(member_tests) == 1, "C11.R2: parser's flag-name membership test not found")
    enum_parsed = (ap(member_tests[0].comparators[0]) or "").rsplit(".", 1)[0]
    flag_pieces = []
    for js in [x for g_ in tfns if g_ is not fv for x in _string_pieces(g_.node)]:
        if isinstance(js, ast.JoinedStr) and len(js.values) == 3 and isinstance(js.values[0], ast.Constant) and \
                isinstance(js.values[2], ast.Constant) and "\n" not in str(js.values[0].value) + str(js.values[2].value) \
                and str(js.values[0].value).startswith(sep) and str(js.values[0].value).strip():
            flag_pieces.append(js)
    ctx.floor("C11.R2", "flag token shapes emitted", len(flag_pieces), 2)
    for js in flag_pieces:
        lead, trail = str(js.values[0].value), str(js.values[2].value)
        inner = js.values[1].value
        is_name = isinstance(inner, ast.Attribute) and inner.attr == "name"
        sample = "RELIABLE" if is_name else "12"
        toks = [t for t in ("OUT Msg" + lead + sample + trail).split(sep) if t]
        ok = len(toks) == 3 and toks[2].strip(strip_set) == sample
        if is_name:
            # the emitted names come from iterating the same enum the parser looks names up in
            loops = [a for a in ancestors(js) if isinstance(a, ast.For)]
            it = loops[0].iter if loops else None
            enum_emitted = None
            if it is not None:
                base = it.args[0] if isinstance(it, ast.Call) and it.args else it
                enum_emitted = ap(base)
            ok = ok and enum_emitted == enum_parsed
            msg = f"formatter iterates {enum_emitted}, parser looks names up in {enum_parsed}"
        else:
            ok = ok and bool(num_pats)
            msg = "numeric flag token must match the parser's digit pattern"
        ctx.ob("C11.R2", f"to_human_string: flag token `{norm(js)}` is tokenised back by the parser", ok, ctx.w(tf, js),
               f"tokens {toks}; parser splits on {sep!r} and strips {strip_set!r}; {msg}")


# =========================================================================== R3

def _resolve_local(cg, f, e, depth=0):
    """Follow single-assignment local aliases."""
    while isinstance(e, ast.Name) and depth < 5:
        b = cg.bindings(f).get(e.id, [])
        if len(b) == 1 and b[0] is not None:
            e = b[0]
            depth += 1
        else:
            break
    return e


def _queue_origin(fn_node, node, callers=()) -> Dict[str, ast.AST]:
    """Deferred work lists: when `node` sits in `for (a, b, ...) in L` and every `L.append((x, y, ...))` in the
    function appends a tuple of the same arity, map the loop names to the queued expressions (position-wise; a
    position with differing expressions is left out).  When L is a parameter of a helper, `callers` =
    [(caller function node, call)] lets the list be traced to the caller's list."""
    out: Dict[str, ast.AST] = {}
    draws = [(a.target, a.iter) for a in ancestors(node) if isinstance(a, ast.For)]
    # `a, b, c = L.pop(...)` / `L.popleft()` earlier in the function draws one entry as well
    for st_ in walk(fn_node, into_defs=True):
        if isinstance(st_, ast.Assign) and len(st_.targets) == 1 and isinstance(st_.targets[0], ast.Tuple) and \
                isinstance(st_.value, ast.Call) and isinstance(st_.value.func, ast.Attribute) and \
                st_.value.func.attr in ("pop", "popleft") and any(isinstance(x, ast.Name) and x.id in
                                                                  {t.id for t in st_.targets[0].elts if isinstance(t, ast.Name)}
                                                                  for x in ast.walk(node)):
            draws.append((st_.targets[0], st_.value.func.value))
    for target, it in draws:
        lpath = ap(it)
        loop = type("L", (), {"target": target, "iter": it})
        if not (isinstance(loop.target, ast.Tuple) and lpath and (isinstance(loop.iter, ast.Name) or
                                                                  (lpath.startswith("self.") and lpath.count(".") == 1))):
            continue
        n = len(loop.target.elts)
        scopes = [(fn_node, lpath)]
        if lpath.startswith("self."):
            # a work list kept on the object: filled by any method of it
            scopes.extend((cn, lpath) for cn, _ in callers)
        params = [a.arg for a in getattr(getattr(fn_node, "args", None), "args", [])]
        if lpath in params:
            for caller_node, call in callers:
                if call is None:
                    continue
                idx = params.index(lpath)
                if params and params[0] in ("self", "cls") and isinstance(call.func, ast.Attribute):
                    idx -= 1
                arg = call.args[idx] if 0 <= idx < len(call.args) else next(
                    (k.value for k in call.keywords if k.arg == lpath), None)
                if isinstance(arg, ast.Name):
                    scopes.append((caller_node, arg.id))
        queued = []
        for scope, lname in scopes:
            for c in walk(scope, into_defs=True):
                if isinstance(c, ast.Call) and isinstance(c.func, ast.Attribute) and c.func.attr == "append" and \
                        ap(c.func.value) == lname and len(c.args) == 1:
                    queued.append(c.args[0])
        if not queued or any(not (isinstance(q, ast.Tuple) and len(q.elts) == n) for q in queued):
            continue
        for i, t in enumerate(loop.target.elts):
            if isinstance(t, ast.Name):
                exprs = {norm(q.elts[i]) for q in queued}
                if len(exprs) == 1:
                    out[t.id] = queued[0].elts[i]
    return out


def _origin_path(fn_node, node, e, callers=()) -> Optional[str]:
    """Access path of e at `node`, with names that come out of a deferred work list traced back to what was queued."""
    p = ap(e)
    if p is None:
        return None
    root = p.split(".")[0].replace("[]", "")
    m = _queue_origin(fn_node, node, callers)
    if root in m and ap(m[root]) is not None:
        return ap(m[root]) + p[len(root):]
    return p


def _constructs(repo, cg, g: FuncInfo, e, cls_name: str, depth=0) -> bool:
    """Expression e (in g) builds an instance of cls_name: a direct constructor call, or a call of a same-class /
    same-module helper all of whose returns do (local names followed)."""
    if e is None or depth > 3:
        return False
    if isinstance(e, ast.Name):
        bs = [b for b in cg.bindings(g).get(e.id, [])]
        vals = [b for b in bs if b is not None and not (isinstance(b, ast.Constant) and b.value is None)]
        return bool(vals) and all(_constructs(repo, cg, g, b, cls_name, depth + 1) for b in vals)
    if isinstance(e, ast.Call):
        if call_attr(e) == cls_name:
            return True
        edge = cg._resolve_call(g, e)
        if edge.kind in ("self", "class", "exact") and len(edge.targets) == 1:
            h = edge.targets[0]
            rets = [n for n in walk(h.node) if isinstance(n, ast.Return) and n.value is not None]
            return bool(rets) and all(_constructs(repo, cg, h, r.value, cls_name, depth + 1) for r in rets)
    return False


_REGISTRY_EXPR: Dict[int, Tuple[ast.AST, object]] = {}     # id(lookup node) -> (expression naming the registry, module it sits in)


def _registry_expr(repo, g: FuncInfo, recv):
    """The SUBFIELD_SERIALIZERS expression a lookup receiver denotes: the path itself, or - through a same-module
    accessor function - the registry it returns by default (returns of its own parameters are injected overrides)."""
    if (ap(recv) or "").endswith("SUBFIELD_SERIALIZERS"):
        return recv, g.module
    if isinstance(recv, ast.Call) and isinstance(recv.func, ast.Name):
        for h in repo.funcs.get(recv.func.id, []):
            if h.module is g.module and h.cls is None and h.parent_fn is None:
                hps = {a.arg for a in h.node.args.args + h.node.args.kwonlyargs}
                rets = [n.value for n in walk(h.node) if isinstance(n, ast.Return) and n.value is not None]
                regs = [r_ for r_ in rets if (ap(r_) or "").endswith("SUBFIELD_SERIALIZERS")]
                if regs and all(r_ in regs or (isinstance(r_, ast.Name) and r_.id in hps) for r_ in rets):
                    return regs[0], h.module
    return None


def _registry_lookups(repo, fns):
    out = []
    for g in fns:
        for n in walk(g.node, into_defs=True):
            recv, key = None, None
            if isinstance(n, ast.Call) and isinstance(n.func, ast.Attribute) and n.func.attr == "get" and n.args:
                recv, key = n.func.value, n.args[0]
            elif isinstance(n, ast.Subscript) and isinstance(n.ctx, ast.Load):
                recv, key = n.value, n.slice
            if recv is None:
                continue
            reg = _registry_expr(repo, g, recv)
            if reg is not None:
                _REGISTRY_EXPR[id(n)] = reg
                out.append((g, n, key))
    return out


def r3(ctx):
    repo = ctx.repo
    ctx.rule("C11.R3", "parser and formatter both key se.SUBFIELD_SERIALIZERS with (message.name, block.name, var_name) "
                       "of the variable being handled")
    cg = CallGraph(repo)
    pf = repo.fn("HumanMessageSerializer.from_human_string")
    fv = repo.fn("HumanMessageSerializer._format_var")
    tf = repo.fn("HumanMessageSerializer.to_human_string")

    def registry_module_ok(g, node):
        base, bmod = _REGISTRY_EXPR.get(id(node), (node.func.value if isinstance(node, ast.Call) else node.value, g.module))
        root = (ap(base) or "").split(".")[0]
        r = resolve_name(repo, bmod, root)
        return bool(r) and isinstance(r[0], tuple) and r[0][1] == "hippolyzer.lib.base.serialization"

    # ---- parser
    parser_fns = _parser_fns(repo, cg, pf)
    p_look = _registry_lookups(repo, parser_fns)
    ctx.floor("C11.R3", "registry lookups in the parser", len(p_look), 1)
    for g, node, key in p_look:
        where = ctx.w(g, node)
        kt = _resolve_local(cg, g, key)
        inst = f"{g.qual}: registry key {norm(kt)}"
        ctx.ob("C11.R3", f"{g.qual}: lookup goes to serialization.SUBFIELD_SERIALIZERS", registry_module_ok(g, node), where)
        if not (isinstance(kt, ast.Tuple) and len(kt.elts) == 3):
            ctx.ob("C11.R3", inst + " is a (message, block, var) triple", False, where)
            continue
        e0, e1, e2 = kt.elts
        p0, p1, p2 = ap(e0) or "", ap(e1) or "", ap(e2) or ""

        def _built(base: str, cls_name: str) -> bool:
            # a local of g, or an attribute of the parser object bound in any parser function
            if not base or not (base.count(".") == 0 or (base.startswith("self.") and base.count(".") == 1)):
                return False
            vals = _attr_or_local_values(repo, cg, g, base, parser_fns)
            return any(_constructs(repo, cg, (v[0] if isinstance(v, tuple) else g), (v[1] if isinstance(v, tuple) else v), cls_name)
                       for v in vals)
        ok0 = p0.endswith(".name") and _built(p0[:-5], "Message")
        ctx.ob("C11.R3", inst + ": element 0 is the name of the message being built", ok0, where, f"got {p0}")
        blk = p1[:-5] if p1.endswith(".name") else p1
        ok1 = p1.endswith(".name") and _built(blk, "Block")
        # the block that receives the value, and the block handed to serialize(), are that same block
        # stores of the parsed value and serialize() calls, in the parser and its same-class helpers (a helper that
        # drains a work list is traced back to the list its caller filled)
        scan = [g] + [h for h in parser_fns if h is not g]
        tgt_stores, ser = [], []
        for h in scan:
            callers = [(k_.node, c) for k_ in scan for c in calls(k_.node, into_defs=True)
                       if call_attr(c) == h.name and k_ is not h] + [(k_.node, None) for k_ in scan if k_ is not h]
            for st_ in stores(h.node, into_defs=True):
                if st_.kind == "setitem" and isinstance(st_.target, ast.Subscript) and \
                        _origin_path(h.node, st_.node, st_.target.slice, callers) == p2:
                    tgt_stores.append((st_, _origin_path(h.node, st_.node, st_.target.value, callers)))
            for c in find_calls(h.node, "serialize"):
                if c.args and isinstance(c.func, ast.Attribute):
                    ser.append((c, _origin_path(h.node, c, c.args[0], callers), _origin_path(h.node, c, c.func.value, callers)))
        ok_store = bool(tgt_stores) and all(path == blk for _, path in tgt_stores)
        ser_blocks = [b for _, b, _ in ser]
        ok_ser = bool(ser) and all(b == blk for b in ser_blocks)
        # the serializer that is called is the one that was looked up
        look_names = {st_.path for st_ in stores(g.node, into_defs=True) if st_.kind == "assign" and st_.value is node}
        ser_recv = [r for _, _, r in ser]
        ok_recv = bool(ser_recv) and all(r in look_names for r in ser_recv)
        ctx.ob("C11.R3", inst + ": element 1 is the name of the block that receives the value", ok1 and ok_store, where,
               f"key uses {p1}; value stored into {[path for _, path in tgt_stores]}[{p2}]")
        ctx.ob("C11.R3", inst + ": serialize() is given the same block", ok_ser, where,
               f"serialize called with {ser_blocks}, key block is {blk}")
        ctx.ob("C11.R3", inst + ": the looked-up serializer is the one whose serialize() runs", ok_recv, where,
               f"lookup bound to {sorted(look_names)}, serialize() called on {ser_recv}")
        ctx.ob("C11.R3", inst + ": element 2 is the parsed variable name", isinstance(e2, ast.Name) and bool(tgt_stores), where)

    # ---- formatter
    f_look = _registry_lookups(repo, class_methods_reachable(repo, fv))
    ctx.floor("C11.R3", "registry lookups in the formatter", len(f_look), 1)
    for g, node, key in f_look:
        where = ctx.w(g, node)
        kt = _resolve_local(cg, g, key)
        inst = f"{g.qual}: registry key {norm(kt)}"
        ctx.ob("C11.R3", f"{g.qual}: lookup goes to serialization.SUBFIELD_SERIALIZERS", registry_module_ok(g, node), where)
        if not (isinstance(kt, ast.Tuple) and len(kt.elts) == 3):
            ctx.ob("C11.R3", inst + " is a (message, block, var) triple", False, where)
            continue
        params = [a.arg for a in g.node.args.args]
        p0, p1, p2 = [ap(e) or "" for e in kt.elts]
        shape = p0.endswith(".name") and p1.endswith(".name") and p0.split(".")[0] in params and \
            p1.split(".")[0] in params and p2 in params and p0.count(".") == 1 and p1.count(".") == 1
        ctx.ob("C11.R3", inst + " is (msg.name, block.name, var_name) over the method's parameters", shape, where)
        if not shape:
            continue
        de = [c for c in find_calls(g.node, "deserialize") if c.args]
        ctx.ob("C11.R3", inst + ": deserialize() is given the same block", bool(de) and all(ap(c.args[0]) == p1.split(".")[0] for c in de),
               where)
        # call sites: the block / name / value triple comes from one iteration of block.items()
        sites = [c for c in find_calls(tf.node, g.name)]
        ctx.floor("C11.R3", f"call sites of {g.name} in to_human_string", len(sites), 1)
        for c in sites:
            m = _param_map(g, c, bound=True)
            if m is None:
                ctx.ob("C11.R3", f"to_human_string: call {norm(c)} binds the key parameters", False, ctx.w(tf, c))
                continue
            a_msg, a_blk, a_var = ap(m[p0.split(".")[0]]), ap(m[p1.split(".")[0]]), ap(m[p2])
            loops = [a for a in ancestors(c) if isinstance(a, ast.For)]
            ok_var = any(isinstance(l.target, ast.Tuple) and l.target.elts and ap(l.target.elts[0]) == a_var and
                         isinstance(l.iter, ast.Call) and ap(l.iter.func) == f"{a_blk}.items" for l in loops)
            blk_loops = [l for l in loops if a_blk in {ap(x) for x in ast.walk(l.target)}]
            ok_blk = False
            for l in blk_loops:
                srcs = {ap(x) for x in ast.walk(l.iter) if isinstance(x, (ast.Name, ast.Attribute))}
                outer = [o for o in loops if o is not l and srcs & {ap(x) for x in ast.walk(o.target)}]
                ok_blk = any(f"{a_msg}.blocks" in (ap(x) or "") for o in outer for x in ast.walk(o.iter)) or \
                    any(f"{a_msg}.blocks" in (ap(x) or "") for x in ast.walk(l.iter))
            ctx.ob("C11.R3", f"to_human_string: {norm(c)} passes a variable of the block it passes", ok_var, ctx.w(tf, c),
                   f"var {a_var} must iterate {a_blk}.items()")
            ctx.ob("C11.R3", f"to_human_string: {norm(c)} passes a block of the message it passes", ok_blk, ctx.w(tf, c),
                   f"block {a_blk} must come from {a_msg}.blocks")


# =========================================================================== R4

LOSSY_ALWAYS = {"strip", "lstrip", "rstrip", "expandtabs", "lower", "upper", "casefold", "title", "capitalize",
                "swapcase", "translate"}
SANITISERS = {"len", "bool", "isinstance", "any", "all", "type", "id", "hash"}


def _lossy_call(c: ast.Call) -> Optional[str]:
    if not isinstance(c.func, ast.Attribute):
        return None
    a = c.func.attr
    if a == "splitlines":
        keep = c.args[0] if c.args else next((k.value for k in c.keywords if k.arg == "keepends"), None)
        if not (isinstance(keep, ast.Constant) and keep.value is True):
            return "splitlines() discards which line separator (\\n, \\r, \\r\\n, \\x0b, \\x0c, \\x1c-\\x1e, \\x85, " \
                   "\\u2028, \\u2029) ended each piece"
    if a in ("split", "rsplit") and not c.args and not any(k.arg == "sep" for k in c.keywords):
        return f"{a}() without a separator discards the whitespace it split on"
    if a in LOSSY_ALWAYS:
        return f"{a}() is not injective"
    return None


NARROWING = {"float32", "float16", "half", "single", "round", "trunc", "floor", "ceil", "abs"}


def r4(ctx):
    repo = ctx.repo
    ctx.rule("C11.R4", "the printers (HippoPrettyPrinter._str_format, HumanMessageSerializer._format_var) build text from "
                       "the raw value only with injective operations (no lossy split/strip/narrowing result flows into the text)")
    sf = repo.fn("HippoPrettyPrinter._str_format")
    fns = class_methods_reachable(repo, sf, depth=2)
    fns = [g for g in fns if g is sf or g.name.startswith("_str")]
    fvar = repo.fn("HumanMessageSerializer._format_var")
    # in _format_var the raw value is the parameter handed to repr()/str()/the pretty printer
    value_params = {}
    vp = [a.arg for a in fvar.node.args.args if any(
        isinstance(c.func, ast.Name) and c.func.id in ("repr", "str") and c.args and ap(c.args[0]) == a.arg
        for c in calls(fvar.node))]
    ctx.require(len(vp) == 1, "C11.R4: cannot identify the value parameter of _format_var (the one passed to repr()/str())")
    value_params[fvar.full] = vp
    fns.append(fvar)
    # str(value) / repr(value) under an isinstance test of a repository class prints through that class's
    # __str__ / __repr__ (and the overrides in its subclasses): the same condition applies there, with raw = self
    for c in calls(fvar.node):
        if isinstance(c.func, ast.Name) and c.func.id in ("str", "repr") and c.args and ap(c.args[0]) == vp[0]:
            dunder = "__str__" if c.func.id == "str" else "__repr__"
            for e, pol in facts(c, fvar.node):
                if pol and isinstance(e, ast.Call) and ap(e.func) == "isinstance" and len(e.args) == 2 and ap(e.args[0]) == vp[0]:
                    tnodes = e.args[1].elts if isinstance(e.args[1], ast.Tuple) else [e.args[1]]
                    for tn in tnodes:
                        ci = repo.resolve_class(ap(tn) or "", fvar.module)
                        if ci is None and "." in (ap(tn) or ""):
                            head, _, rest = ap(tn).partition(".")
                            m2 = repo.by_modname.get(fvar.module.imports.get(head, ""))
                            ci = repo.resolve_class(rest, m2) if m2 is not None else None
                        if ci is None:
                            continue
                        for k in [ci] + repo.subclasses(ci, strict=True):
                            m = k.methods.get(dunder)
                            if m is not None and m not in fns:
                                fns.append(m)
                                value_params[m.full] = ["self"]
                        base_m = repo.lookup_method(ci, dunder)
                        if base_m is not None and base_m not in fns:
                            fns.append(base_m)
                            value_params[base_m.full] = ["self"]
    total = 0
    for g in fns:
        params = value_params.get(g.full) or [a.arg for a in g.node.args.args if a.arg not in ("self", "cls")]
        # raw names: parameters and names (re)bound from raw names by non-call expressions / partition-style unpacking
        raw: Set[str] = set(params)
        tainted: Dict[str, Tuple[ast.Call, str]] = {}

        def expr_raw(e) -> bool:
            return any(isinstance(x, ast.Name) and x.id in raw for x in ast.walk(e))

        def lossy_in(e):
            """lossy calls applied to raw data inside e whose result can flow out of e (not under a sanitiser)."""
            out = []

            def rec(n, sanitised):
                if isinstance(n, ast.Call):
                    nm = ap(n.func)
                    if nm in SANITISERS:
                        sanitised = True
                    why = _lossy_call(n)
                    if why and not sanitised and expr_raw(n.func.value):
                        out.append((n, why))
                    if call_attr(n) in NARROWING and not sanitised and any(expr_raw(a) for a in n.args):
                        out.append((n, f"{ap(n.func) or call_attr(n)}() is a narrowing conversion (distinct values map to "
                                       f"the same result, e.g. the doubles of an LLVector3d)"))
                if isinstance(n, ast.BinOp) and not sanitised and not isinstance(n.op, (ast.BitAnd, ast.BitOr, ast.BitXor)):
                    for a, b in ((n.left, n.right), (n.right, n.left)):
                        if isinstance(a, ast.Name) and a.id in raw and isinstance(b, ast.Constant) and \
                                isinstance(b.value, (int, float)) and not isinstance(b.value, bool):
                            out.append((n, "arithmetic on the raw value: the parser reads the printed number verbatim, so "
                                           "the printer must print it verbatim (e.g. `x + 0.0` turns -0.0 into 0.0)"))
                if isinstance(n, ast.Compare):
                    sanitised = True
                for ch in ast.iter_child_nodes(n):
                    rec(ch, sanitised)
            rec(e, False)
            return out

        def tainted_in(e):
            out = []

            def rec(n, sanitised):
                if isinstance(n, ast.Call) and ap(n.func) in SANITISERS:
                    sanitised = True
                if isinstance(n, ast.Compare):
                    sanitised = True
                if isinstance(n, ast.Name) and n.id in tainted and not sanitised:
                    out.append(tainted[n.id])
                for ch in ast.iter_child_nodes(n):
                    rec(ch, sanitised)
            rec(e, False)
            return out
        changed = True
        rounds = 0
        while changed and rounds < 10:
            changed = False
            rounds += 1
            for n in walk(g.node, into_defs=True):
                binds = []
                if isinstance(n, ast.Assign):
                    binds = [(t, n.value) for t in n.targets]
                elif isinstance(n, ast.AugAssign):
                    binds = [(n.target, n.value)]
                elif isinstance(n, (ast.For, ast.comprehension)):
                    binds = [(n.target, n.iter)]
                elif isinstance(n, ast.Call) and isinstance(n.func, ast.Attribute) and n.func.attr in ("append", "extend", "insert", "add") \
                        and isinstance(n.func.value, ast.Name) and n.args:
                    binds = [(n.func.value, a) for a in n.args]
                for tgt, val in binds:
                    hits = lossy_in(val) + tainted_in(val)
                    names = [x.id for x in ast.walk(tgt) if isinstance(x, ast.Name)]
                    for nm in names:
                        if hits and nm not in tainted:
                            tainted[nm] = hits[0]
                            changed = True
                        if expr_raw(val) and nm not in raw and not isinstance(val, ast.Call):
                            raw.add(nm)
                            changed = True
                        elif expr_raw(val) and nm not in raw and isinstance(val, ast.Call) and \
                                call_attr(val) in ("partition", "rpartition", "split", "rsplit", "splitlines", "list", "tuple"):
                            raw.add(nm)
                            changed = True
        if g is sf:
            # adjacent-literal concatenation: whatever is joined (by newlines) between the parentheses must be one
            # string/bytes literal per piece - only repr()/ascii() guarantee that
            for n in walk(g.node, into_defs=True):
                if isinstance(n, ast.Call) and isinstance(n.func, ast.Attribute) and n.func.attr == "join" and n.args and \
                        isinstance(n.args[0], (ast.GeneratorExp, ast.ListComp)):
                    elt = n.args[0].elt
                    okp = isinstance(elt, ast.Call) and isinstance(elt.func, ast.Name) and elt.func.id in ("repr", "ascii")
                    ctx.ob("C11.R4", f"{g.qual}: every piece joined into the parenthesised literal group is rendered by repr()",
                           okp, ctx.w(g, n), f"pieces are rendered by `{norm(elt)}`: a renderer that may itself emit a "
                           f"parenthesised or multi-line group breaks implicit literal concatenation (the text no longer parses)")
        rets = [n for n in walk(g.node) if isinstance(n, ast.Return) and n.value is not None]
        ctx.require(bool(rets), f"C11.R4: {g.qual} has no return")
        for r in rets:
            hits = lossy_in(r.value) + tainted_in(r.value)
            total += 1
            if hits:
                c, why = hits[0]
                ctx.ob("C11.R4", f"{g.qual}: returned text built from `{norm(c)}`", False, ctx.w(g, c),
                       f"{why}; the pieces are re-joined, so distinct values print as the same literal and cannot parse back")
            else:
                ctx.ob("C11.R4", f"{g.qual}: `return {norm(r.value)}` built from separator-preserving pieces", True, ctx.w(g, r))
    ctx.floor("C11.R4", "return statements of the printers", total, 3)


def r6(ctx):
    """Packed (`=|`) values are serialized against their *complete* block (a subfield serializer may consult sibling
    variables that appear on later lines): serialize() runs at a block boundary or after the last line, never in the
    per-line branch; and it does run after the last line."""
    repo = ctx.repo
    ctx.rule("C11.R6", "packed values are serialized only once their block is complete: serializer.serialize() is reached at "
                       "a block boundary / after the line loop, never while the block's remaining lines are still unparsed")
    cg = CallGraph(repo)
    pf = repo.fn("HumanMessageSerializer.from_human_string")
    pfns = _parser_fns(repo, cg, pf)
    looks = [(g, node) for g, node, key in _registry_lookups(repo, pfns)]
    ctx.floor("C11.R6", "subfield serializer lookups in the parser", len(looks), 1)

    # callee functions (within the parser's functions) of a call: self./cls. methods, closures, collaborator methods
    by_name: Dict[str, List[FuncInfo]] = {}
    for g in pfns:
        by_name.setdefault(g.name, []).append(g)

    def callees(g: FuncInfo, c: ast.Call):
        if isinstance(c.func, ast.Attribute) and isinstance(c.func.value, ast.Name):
            recv = c.func.value.id
            if recv in ("self", "cls") or cg.constructed_class(g, recv) is not None:
                return by_name.get(c.func.attr, [])
        return []

    def direct(g: FuncInfo, pred) -> List[ast.AST]:
        return [n for n in walk(g.node, into_defs=True) if pred(g, n)]

    def closure_of(pred) -> Set[str]:
        """functions that (transitively through parser-internal calls) contain a node satisfying pred"""
        have = {g.full for g in pfns if direct(g, pred)}
        grew = True
        while grew:
            grew = False
            for g in pfns:
                if g.full not in have and any(h.full in have for c in calls(g.node, into_defs=True) for h in callees(g, c)):
                    have.add(g.full)
                    grew = True
        return have

    def is_ser(g, n):
        return isinstance(n, ast.Call) and call_attr(n) == "serialize" and n.args and isinstance(n.func, ast.Attribute)

    def is_look(g, n):
        return any(n is node for _, node in looks)

    def is_newblock(g, n):
        return isinstance(n, ast.Assign) and _constructs(repo, cg, g, n.value, "Block")
    ser_fns, look_fns, blk_fns = closure_of(is_ser), closure_of(is_look), closure_of(is_newblock)
    ctx.floor("C11.R6", "serializer.serialize() calls in the parser", sum(len(direct(g, is_ser)) for g in pfns), 1)

    def occurrences(g: FuncInfo, pred, have: Set[str]) -> List[ast.AST]:
        """nodes of g's own body (closures included) where the thing happens: directly, or by calling into `have`;
        a direct occurrence inside a closure counts where the closure is called"""
        out = []
        nested_defs = {d.name: d for d in walk(g.node, into_defs=True) if isinstance(d, FUNC_TYPES) and d is not g.node}
        inner = {dn for dn, d in nested_defs.items()
                 if any(pred(g, n) or (isinstance(n, ast.Call) and any(h.full in have and h is not g for h in callees(g, n)))
                        for n in walk(d, into_defs=True))}
        for n in walk(g.node, into_defs=True):
            in_nested = any(isinstance(a, FUNC_TYPES) and a is not g.node for a in ancestors(n))
            if in_nested:
                continue
            if pred(g, n):
                out.append(n)
            elif isinstance(n, ast.Call):
                if isinstance(n.func, ast.Name) and n.func.id in inner:
                    out.append(n)
                elif any(h.full in have and h is not g for h in callees(g, n)):
                    out.append(n)
        return out

    # the line loop: a loop, in one of the parser's functions, whose body reaches the serializer lookup
    cand = []
    for g in pfns:
        for lp in [n for n in walk(g.node, into_defs=False) if isinstance(n, (ast.While, ast.For))]:
            if any(lp in list(ancestors(o)) for o in occurrences(g, is_look, look_fns)):
                cand.append((g, lp))
    ctx.require(bool(cand), "C11.R6: no loop of the parser reaches the subfield serializer lookup")
    # outermost such loop of the function closest to the entry point
    lf, loop = cand[0]
    for g, lp in cand:
        if g is lf and any(a is lp for a in ancestors(loop)):
            loop = lp
    blk_occ = [o for o in occurrences(lf, is_newblock, blk_fns) if any(a is loop for a in ancestors(o))]
    ctx.require(bool(blk_occ), "C11.R6: the branch of the line loop that starts a new Block was not found")
    # the arm of the line loop that handles a block header: the outermost if-arm around the Block construction that does
    # not also hold the per-variable work (the serializer lookup)
    look_occ = [o for o in occurrences(lf, is_look, look_fns) if any(a is loop for a in ancestors(o))]
    blk_arm = None
    cur = blk_occ[0]
    while cur is not loop and cur is not None:
        p_ = parent(cur)
        if isinstance(p_, ast.If):
            which = "body" if any(cur is x for x in p_.body) else "orelse"
            arm_nodes = getattr(p_, which)
            holds_lookup = any(any(a is st_ for a in list(ancestors(o)) + [o]) for o in look_occ for st_ in arm_nodes)
            if not holds_lookup:
                blk_arm = (p_, which)
        cur = p_
    ctx.require(blk_arm is not None, "C11.R6: a new Block is started unconditionally in the line loop")

    def in_arm(node, arm) -> bool:
        if_node, which = arm
        cur = node
        while cur is not None and cur is not if_node:
            p_ = parent(cur)
            if p_ is if_node:
                return any(cur is x for x in getattr(if_node, which))
            cur = p_
        return False
    sites = occurrences(lf, is_ser, ser_fns)
    ctx.require(bool(sites), "C11.R6: serialize() is not reached from the function that holds the line loop")
    n_after = 0
    for site in sites:
        inside = any(a is loop for a in ancestors(site))
        if not inside:
            st_ = enclosing_stmt(site)
            if st_ is not None and isinstance(parent(st_), FUNC_TYPES) and st_.lineno > loop.lineno:
                n_after += 1
            continue
        ok = in_arm(site, blk_arm)
        ctx.ob("C11.R6", f"from_human_string: `{norm(site)}` inside the line loop runs only where a new block starts", ok,
               ctx.w(lf, site), "serialize() of a packed value runs while later lines of the same block are still unparsed: a "
               "serializer that reads a sibling variable (e.g. ObjectUpdate State needs PCode) sees an incomplete block")
    cfg = CFG(lf.node)
    after_sites = [n for site in sites if not any(a is loop for a in ancestors(site)) for n in cfg.stmt_nodes_containing(site)]
    loop_nodes = cfg.nodes_for(loop)
    escapes = bool(loop_nodes) and cfg.exit in cfg.reachable(loop_nodes, avoid=lambda n: n in after_sites or
                                                           (n.ast is not None and n is not loop_nodes[0] and
                                                            any(a is loop for a in ancestors(n.ast))), exc=False)
    inline_only = all(any(a is loop for a in ancestors(s_)) and not in_arm(s_, blk_arm) for s_ in sites)
    ctx.ob("C11.R6", "from_human_string: packed values still pending after the last line are serialized before returning",
           inline_only or (n_after >= 1 and not escapes), lf.where,
           "no serialize() site on the way from the end of the line loop to the return: the last block's packed values "
           "would stay unserialized")


def r7(ctx):
    """A packed value whose serializer consults a sibling variable of its block needs that sibling's real value in
    place: the sibling is either not a packed variable, or of a serializer kind the parser resolves first, or printed
    (hence queued) earlier in the block."""
    from ..engine import RenamedCtx
    from ..tmplmodel import parse_template
    from . import c09
    repo = ctx.repo
    ctx.rule("C11.R7", "block-level dependencies of packed values: a sibling variable a subfield serializer switches on is "
                       "serialized before it (standalone enum/flag kind the parser resolves first, or earlier in the block)")
    pf = repo.fn("HumanMessageSerializer.from_human_string")
    # serializer classes the parser resolves first: isinstance(<queued serializer>, (A, B)) in a sort key / filter
    standalone: Set[str] = set()
    cg_ = CallGraph(repo)
    for g_ in _parser_fns(repo, cg_, pf):
        for c in calls(g_.node, into_defs=True):
            if isinstance(c.func, ast.Name) and c.func.id == "isinstance" and len(c.args) == 2 and \
                    any(isinstance(a, (ast.Lambda,)) or (isinstance(a, ast.Call) and call_attr(a) in ("sort", "sorted", "filter"))
                        for a in ancestors(c)):
                t = c.args[1]
                for _ in range(3):
                    if isinstance(t, ast.Name):
                        b = [st.value for st in stores(g_.node, into_defs=True) if st.path == t.id and st.value is not None]
                        nxt = b[-1] if b else repo.module_assign(g_.module, t.id)
                    elif isinstance(t, ast.Attribute):
                        nxt = _static_value(repo, g_, t)
                    else:
                        break
                    if nxt is None:
                        break
                    t = nxt
                for e in (t.elts if isinstance(t, (ast.Tuple, ast.List)) else [t]):
                    standalone.add((ap(e) or "").split(".")[-1])
    # the order established by the sort must survive the drain: forward iteration / pop(0) / popleft, not pop() from the end
    for g_ in _parser_fns(repo, cg_, pf):
        for c in calls(g_.node, into_defs=True):
            if isinstance(c.func, ast.Attribute) and c.func.attr == "sort" and any(
                    isinstance(x, ast.Call) and ap(x.func) == "isinstance" for x in ast.walk(c)):
                lst = ap(c.func.value)
                top_g = g_.node
                bad = []
                for n_ in walk(top_g, into_defs=True):
                    if isinstance(n_, ast.For) and isinstance(n_.iter, ast.Call) and ap(n_.iter.func) == "reversed" and \
                            n_.iter.args and ap(n_.iter.args[0]) == lst:
                        bad.append(n_.iter)
                    if isinstance(n_, ast.Call) and isinstance(n_.func, ast.Attribute) and n_.func.attr == "pop" and \
                            ap(n_.func.value) == lst and (not n_.args or (isinstance(n_.args[0], ast.UnaryOp))):
                        bad.append(n_)
                ctx.ob("C11.R7", f"{g_.qual}: the work list {lst} is drained in the order the sort established", not bad,
                       ctx.w(g_, c), "" if not bad else f"`{norm(bad[0])}` takes entries from the end: the serializers sorted "
                       f"to the front (the ones others switch on) are resolved last")
    kind_cls = {"enum": "IntEnumSubfieldSerializer", "flag": "IntFlagSubfieldSerializer"}
    rc = RenamedCtx(ctx, {"C09.R1": "C11.R7", "C09": "C11.R7"})
    regs = c09.registrations(rc)
    tmpl = parse_template(repo.root, repo.overlay)
    by_key = {(r.msg, r.block, r.var): r for r in regs}
    n_dep = 0
    for r in regs:
        if r.kind != "subfield":
            continue
        fields: Set[str] = set()
        names = c09._mro_names(repo, r.cls)
        for base, attr in (("EnumSwitchedSubfieldSerializer", "ENUM_FIELD"), ("FlagSwitchedSubfieldSerializer", "FLAG_FIELD")):
            if base in names:
                node, owner = c09._class_attr_node(repo, r.cls, attr)
                if isinstance(node, ast.Constant) and isinstance(node.value, str):
                    fields.add(node.value)
        anode, aowner = c09._class_attr_node(repo, r.cls, "ADAPTER")
        if isinstance(anode, ast.Call):
            aci = c09._resolve_cls(repo, aowner.module, anode.func)
            if aci is not None:
                fam = c09._mro_names(repo, aci)
                if aci.module.rel == c09.SERMOD and aci.name in ("ContextAdapter", "ContextSwitch"):
                    a0 = anode.args[0] if anode.args else None
                    f_ = c09._field_of_fun(repo, aowner.module, a0)
                    if f_:
                        fields.add(f_)
                elif "ContextAdapter" in fam or "ContextSwitch" in fam:
                    f_, kind = c09._ctx_field_of_class(repo, aci)
                    if f_ and kind == "ctx":
                        fields.add(f_)
        m = tmpl.get(r.msg)
        b = m.block(r.block) if m else None
        if b is None:
            continue
        order = [v.name for v in b.vars]
        for f_ in sorted(fields):
            dep = by_key.get((r.msg, r.block, f_))
            if f_ not in order or r.var not in order:
                continue
            n_dep += 1
            if dep is None:
                ok, why = True, "plain variable"
            else:
                dep_cls = kind_cls.get(dep.kind) or dep.cls.name
                dep_names = {dep_cls} | (set(c09._mro_names(repo, dep.cls)) if dep.kind == "subfield" else set())
                first = bool(dep_names & standalone)
                earlier = order.index(f_) < order.index(r.var)
                ok = first or earlier
                why = f"{f_} is packed through {dep_cls} ({'resolved first' if first else 'not one of ' + str(sorted(standalone))}), " \
                      f"{'before' if earlier else 'after'} {r.var} in the block"
            ctx.ob("C11.R7", f"{r.cls.name} on {r.msg}.{r.block}.{r.var}: sibling {f_} it switches on is in place first", ok,
                   ctx.w(r.mod, r.node), why + ("" if ok else ": its serialize() runs while the sibling still holds the "
                                                "placeholder, so the wrong sub-codec is chosen"))
    ctx.floor("C11.R7", "packed variables that switch on a sibling variable", n_dep, 3)


def r8(ctx):
    """Two-valued adapters (decode = bool(raw)) are lossless only on a one-bit domain."""
    repo = ctx.repo
    ctx.rule("C11.R8", "adapters whose decode is bool(raw) wrap one-bit fields only (a wider wire domain collapses to two values)")
    from . import c09
    smod = repo.module(c09.SERMOD)
    narrowing = []
    for lst in repo.classes.values():
        for ci in lst:
            if ci.module is smod and "decode" in ci.methods and "Adapter" in c09._mro_names(repo, ci):
                d = ci.methods["decode"]
                ps = [a.arg for a in d.node.args.args]
                rets = [n.value for n in walk(d.node) if isinstance(n, ast.Return) and n.value is not None]
                if rets and len(ps) > 1 and all(isinstance(v, ast.Call) and ap(v.func) == "bool" and len(v.args) == 1
                                                and ap(v.args[0]) == ps[1] for v in rets):
                    narrowing.append(ci)
    ctx.floor("C11.R8", "two-valued adapter classes", len(narrowing), 1)
    n_inst = 0
    for mod in repo.modules.values():
        for c in calls(mod.tree, into_defs=True):
            ci = c09._resolve_cls(repo, mod, c.func)
            if ci is None or ci not in narrowing:
                continue
            if any(isinstance(a, FUNC_TYPES) and a.name == "__init__" for a in ancestors(c)):
                continue
            n_inst += 1
            child = c.args[0] if c.args else next((k.value for k in c.keywords if k.arg == "child_spec"), None)
            bits = None
            p_ = parent(c)
            host = parent(p_) if isinstance(p_, ast.keyword) else p_
            if isinstance(host, ast.Call) and call_attr(host) == "bitfield_field":
                bv = next((k.value for k in host.keywords if k.arg == "bits"), host.args[0] if host.args else None)
                bits = ConstEval(repo, mod).ev(bv) if bv is not None else None
            if child is not None and not (isinstance(child, ast.Constant) and child.value is None):
                ok, why = False, f"wraps {norm(child)}, whose wire domain has more than two values"
            else:
                ok, why = bits == 1, f"bit width {bits}"
            ctx.ob("C11.R8", f"{mod.rel}: `{norm(host if isinstance(host, ast.Call) and bits is not None else c)}` two-valued adapter on a one-bit field",
                   ok, ctx.w(mod, c), why + ("" if ok else ": every raw value other than 0/1 prints as True and re-encodes as 1"))
    ctx.floor("C11.R8", "two-valued adapter instances", n_inst, 3)


def r9(ctx):
    """pprint lays out subclasses of builtin containers only while they keep the builtin __repr__; the pretty printer
    neutralises the overrides it knows about."""
    repo = ctx.repo
    ctx.rule("C11.R9", "value classes derived from builtin containers keep a literal repr: a __repr__ override is one the "
                       "pretty printer patches back to the builtin while printing")
    BUILTINS_ = {"list", "dict", "tuple", "set", "frozenset", "List", "Dict", "Tuple", "Set", "MutableMapping"}
    hmod = repo.module(HELPERS)
    patched: Set[str] = set()
    for st in stores(hmod.tree, into_defs=True):
        if st.kind == "assign" and st.path.endswith(".__repr__") and st.value is not None and \
                (ap(st.value) or "").split(".")[0] in ("dict", "list", "tuple", "set"):
            patched.add(st.path.split(".")[0])
    tm = repo.module("hippolyzer/lib/base/templates.py")
    scope = {tm.rel, "hippolyzer/lib/base/serialization.py", "hippolyzer/lib/base/datatypes.py", "hippolyzer/lib/base/multidict.py"}
    for tgt in tm.imports.values():
        for cand in (tgt, tgt.rpartition(".")[0]):
            m2 = repo.by_modname.get(cand)
            if m2 is not None:
                scope.add(m2.rel)
    n = 0
    for lst in repo.classes.values():
        for ci in lst:
            if ci.module.rel not in scope:
                continue
            allb = {b.split("[")[0].split(".")[-1] for k in repo.mro(ci) for b in k.base_names}
            if not allb & BUILTINS_:
                continue
            n += 1
            owner = next((k for k in repo.mro(ci) if "__repr__" in k.methods), None)
            ok = owner is None or owner.name in patched or ci.name in patched
            ctx.ob("C11.R9", f"{ci.name}: builtin-container subclass prints as a literal", ok,
                   ctx.w(ci.module, owner.methods["__repr__"].node if owner else ci.node),
                   "" if ok else f"{owner.name}.__repr__ overrides the builtin repr and HippoPrettyPrinter does not patch it back: "
                   "pprint falls back to that repr, the beautified text is no Python literal and safe-mode parsing rejects it")
    ctx.floor("C11.R9", "builtin-container subclasses among the value classes", n, 2)


def r10(ctx):
    """Optional sections: where the reader's "absent" early-out (guarded by a configuration attribute such as
    self._optional) returns before consuming anything, the writer's early-out under the same attribute must return
    before writing anything - bytes written for an absent value are read back as the next section."""
    repo = ctx.repo
    ctx.rule("C11.R10", "optional-section early-outs are symmetric: a serialize() early return guarded by the attribute that "
                        "guards deserialize()'s read-nothing early return is reached before any write")
    n = 0
    mods = {"hippolyzer/lib/base/templates.py", "hippolyzer/lib/base/serialization.py"}
    for lst in repo.classes.values():
        for ci in lst:
            if ci.module.rel not in mods or "serialize" not in ci.methods or "deserialize" not in ci.methods:
                continue
            sm, dm = ci.methods["serialize"], ci.methods["deserialize"]
            sp = [a.arg for a in sm.node.args.args]
            dp = [a.arg for a in dm.node.args.args]
            wname = next((a for a in sp if "writer" in a), None)
            rname = next((a for a in dp if "reader" in a), None)
            if wname is None or rname is None:
                continue

            def early_outs(fn, stream):
                """(return stmt, self attributes in its dominating conditions) for returns not preceded by stream use"""
                out = []
                cfg = CFG(fn.node)
                uses = set()
                for c in calls(fn.node, into_defs=False):
                    if any(isinstance(x, ast.Name) and x.id == stream for x in ast.walk(c)) and \
                            (ap(c.func) or "").split(".")[0] == stream or any(ap(a_) == stream for a_ in c.args):
                        uses |= set(cfg.stmt_nodes_containing(c))
                for r_ in [x for x in walk(fn.node) if isinstance(x, ast.Return)]:
                    attrs = {ap(x) for e, pol in facts(r_, fn.node) for x in ast.walk(e)
                             if isinstance(x, ast.Attribute) and (ap(x) or "").startswith("self.")}
                    rn = set(cfg.nodes_for(r_))
                    reached_after_use = bool(uses) and bool(cfg.reachable(uses, exc=False) & rn)
                    out.append((r_, attrs, reached_after_use))
                return out
            try:
                d_outs = early_outs(dm, rname)
                s_outs = early_outs(sm, wname)
            except AnalysisError:
                continue
            d_attrs = set().union(*[a for r_, a, after in d_outs if not after and a]) if d_outs else set()
            for r_, attrs, after in s_outs:
                common = attrs & d_attrs
                if not common or (r_.value is not None and not (isinstance(r_.value, ast.Constant) and r_.value.value is None)):
                    continue
                n += 1
                ctx.ob("C11.R10", f"{ci.name}.serialize: early-out under {sorted(common)} returns before anything is written",
                       not after, ctx.w(sm, r_),
                       f"{ci.name}.deserialize returns under {sorted(common)} without reading a byte, but this early-out can be "
                       f"reached after a write to `{wname}`: the bytes written for an absent value are read as the next section")
    ctx.floor("C11.R10", "symmetric optional early-outs", n, 1)


def r11(ctx):
    """Block multiplicity: the text is built from an outer loop over the message's block lists and an inner loop over the
    blocks of each list.  Only the inner loop writes text, an empty list (a Variable block with count 0) leaves no trace,
    and the parser cannot give it back: something must be written per block *list*, outside the per-block loop."""
    repo = ctx.repo
    ctx.rule("C11.R11", "every block list of the message leaves a trace in the text (the loop over msg.blocks writes "
                        "something outside the per-block inner loop), so a zero-count Variable block survives")
    tf = repo.fn("HumanMessageSerializer.to_human_string")
    found = 0
    for g in class_methods_reachable(repo, tf):
        for outer in [n for n in walk(g.node, into_defs=False) if isinstance(n, ast.For)]:
            it = outer.iter
            if not (isinstance(it, ast.Call) and call_attr(it) == "items" and isinstance(it.func, ast.Attribute)
                    and (ap(it.func.value) or "").endswith(".blocks")):
                continue
            found += 1
            tnames = {x.id for x in ast.walk(outer.target) if isinstance(x, ast.Name)}
            inner = [n for n in walk(outer, into_defs=False) if isinstance(n, ast.For) and n is not outer
                     and {x.id for x in ast.walk(n.iter) if isinstance(x, ast.Name)} & tnames]

            def in_inner(n):
                return any(a in inner for a in ancestors(n)) or n in inner

            def list_guarded(n):
                # written only when the list is non-empty: `if block_list:` / `if len(block_list)` around it
                for e, pol in facts(n, g.node):
                    if pol and {x.id for x in ast.walk(e) if isinstance(x, ast.Name)} & tnames and not isinstance(e, ast.Compare):
                        return True
                return False
            writes = []
            for n in walk(outer, into_defs=False):
                if n is outer or in_inner(n):
                    continue
                if isinstance(n, ast.AugAssign) and isinstance(n.op, ast.Add) and not list_guarded(n):
                    writes.append(n)
                elif isinstance(n, ast.Expr) and isinstance(n.value, ast.Call) and isinstance(n.value.func, ast.Attribute) \
                        and n.value.func.attr in ("append", "extend", "write") and not list_guarded(n):
                    writes.append(n)
            ctx.ob("C11.R11", "to_human_string: every block list of the message leaves a trace in the text", bool(writes) and bool(inner),
                   ctx.w(g, outer),
                   "text is written only inside the per-block loop: an empty block list (zero-count Variable block) prints "
                   "nothing, from_human_string never recreates it and the datagram differs or cannot be encoded")
    ctx.floor("C11.R11", "loops over msg.blocks.items() in the formatter", found, 1)
    # ... and the parser gives the zero-count list back: some branch of the block-header handling creates a block *list*
    # without a block (Message.create_block_list), since every `Block(...)` it builds is an entry
    cg = CallGraph(repo)
    pf = repo.fn("HumanMessageSerializer.from_human_string")
    recreates = [c for g in _parser_fns(repo, cg, pf) for c in calls(g.node, into_defs=True) if call_attr(c) == "create_block_list"]
    ctx.ob("C11.R11", "from_human_string recreates a block list that has no entries", bool(recreates), pf.where,
           "the parser only ever adds Block objects: a zero-count Variable block cannot come back from the text "
           "(CoarseLocationUpdate without Location entries then fails to serialize)")


def r12(ctx):
    """Coordinates typed as text (`<x, y, z, w>`) reach the wire through the data packer's coordinate factories as plain
    tuples: the factories' structural clauses (C12.R1: .data() type flow, components handed over unchanged) are C11 clauses
    as well."""
    from ..engine import RenamedCtx
    from . import c12
    c12.r1_factories(RenamedCtx(ctx, {"C12.R1": "C11.R12"}))
    ctx.rule("C11.R12", "coordinate packers hand the components of a parsed `<...>` value over unchanged and treat the result "
                        "of TupleCoord.data() as a tuple (re-runs the factory clauses of C12.R1)")


def r13(ctx):
    """Text variables that are not valid UTF-8 must fail to decode (the formatter then falls back to the exact bytes
    form): a decoder with errors='replace'/'ignore' silently changes the bytes."""
    repo = ctx.repo
    ctx.rule("C11.R13", "text decoders/encoders of the wire codecs are strict (no errors='replace'/'ignore'): undecodable bytes "
                        "must surface so that the exact bytes form is printed")
    LOSSY = {"replace", "ignore", "backslashreplace", "xmlcharrefreplace", "namereplace"}
    scope = [m for m in repo.modules.values() if m.rel in ("hippolyzer/lib/base/serialization.py", "hippolyzer/lib/base/templates.py")
             or m.rel.startswith("hippolyzer/lib/base/message/")]
    n = 0
    for m in scope:
        for c in calls(m.tree, into_defs=True):
            if not (isinstance(c.func, ast.Attribute) and c.func.attr in ("decode", "encode") or ap(c.func) in ("str", "bytes")):
                continue
            err = next((k.value for k in c.keywords if k.arg == "errors"), None)
            if err is None and isinstance(c.func, ast.Attribute) and len(c.args) >= 2 and isinstance(c.args[1], ast.Constant) \
                    and isinstance(c.args[1].value, str):
                err = c.args[1]
            if err is None and ap(c.func) in ("str", "bytes") and len(c.args) >= 3:
                err = c.args[2]
            n += 1
            if err is None:
                continue
            v = ConstEval(repo, m).ev(err)
            owner = next((a.name for a in ancestors(c) if isinstance(a, FUNC_TYPES)), "<module>")
            ctx.ob("C11.R13", f"{m.rel}:{owner}: `{norm(c.func)}(..., errors={norm(err)})` is a strict codec", not (isinstance(v, str) and v in LOSSY),
                   ctx.w(m, c), f"errors={v!r} substitutes undecodable bytes: the value decodes 'successfully' to different text, "
                   f"is printed as a str literal and re-encodes to other bytes")
    ctx.floor("C11.R13", "decode/encode sites in the wire codec modules", n, 5)
    ctx.ob("C11.R13", "wire codec modules: no lossy error handler on any decode/encode", True, "hippolyzer/lib/base/serialization.py")


def r14(ctx):
    """The binary unpackers of the template table hand the unpacked wire value on as it is: a narrowing builtin
    (bool(), round(), abs() ...) around the struct's result makes different wire values print alike."""
    from . import c12
    from .common import as_pair
    repo = ctx.repo
    ctx.rule("C11.R14", "template-table unpackers do not narrow the unpacked wire value (no bool()/round()/abs()/float32 around "
                        "struct.unpack): every wire value prints as itself")
    pmod = repo.module(c12.PACK)
    tci, tnode, trows = c12._spec_rows(ctx, "TemplateDataPacker")
    n = 0
    for mtype, v in sorted(trows.items()):
        unpackers = []
        pair = as_pair(repo, pmod, v)
        if pair is not None:
            unpackers.append((None, pair[0]))
        elif isinstance(v, ast.Call) and isinstance(v.func, ast.Name):
            fac = next((g for g in repo.funcs.get(v.func.id, []) if g.module is pmod and g.cls is None and g.parent_fn is None), None)
            if fac is None:
                continue
            for r_ in [x for x in walk(fac.node) if isinstance(x, ast.Return) and x.value is not None]:
                pr = as_pair(repo, pmod, r_.value)
                if pr is not None:
                    unpackers.append((fac, pr[0]))
        for fac, up in unpackers:
            bodies = []
            if fac is not None:
                for params, rets, d, bound, _ in c12._resolve_callable(repo, fac, up):
                    bodies.extend(rets)
            elif isinstance(up, ast.Lambda):
                bodies.append(up.body)
            for b in bodies:
                n += 1
                bad = [c for c in calls(b, into_defs=True) if (ap(c.func) or "").split(".")[-1] in (NARROWING | {"bool"})
                       and any(call_attr(x) in ("unpack", "unpack_from") for a in c.args for x in calls(a, into_defs=True))]
                ctx.ob("C11.R14", f"TemplateDataPacker.SPECS[{mtype}]: unpacker hands the wire value on unnarrowed", not bad,
                       ctx.w(pmod, b), "" if not bad else f"`{norm(bad[0])}`: wire values that differ (e.g. a BOOL byte of 2..255) "
                       f"decode to the same Python value, print alike and re-encode as another byte")
    ctx.floor("C11.R14", "unpacker bodies of the template table", n, 10)


def r15(ctx):
    """Bit masks a reader applies to the value it returns must be masks the writer applies too: a reader-only clamp
    (`val &= LIMIT`) drops bits the writer can put on the wire."""
    repo = ctx.repo
    ctx.rule("C11.R15", "value masks agree: a constant ANDed into the value a deserialize()/decode() returns is also ANDed into "
                        "what the sibling serialize()/encode() writes")
    n = 0
    for rel in ("hippolyzer/lib/base/templates.py", "hippolyzer/lib/base/serialization.py"):
        mod = repo.module(rel)
        ev = ConstEval(repo, mod)
        for lst in repo.classes.values():
            for ci in lst:
                if ci.module is not mod:
                    continue
                for wname, rname in (("serialize", "deserialize"), ("encode", "decode")):
                    if wname not in ci.methods or rname not in ci.methods:
                        continue

                    def mask_of(o, ci=ci):
                        v = ev.ev(o)
                        if isinstance(v, int) and not isinstance(v, bool):
                            return v
                        if isinstance(o, ast.Attribute) and (ap(o) or "").startswith(("self.", "cls.")):
                            cv = repo.class_attr(ci, o.attr)
                            cvv = ConstEval(repo, ci.module).ev(cv) if cv is not None else None
                            return cvv if isinstance(cvv, int) and not isinstance(cvv, bool) else ap(o)
                        return None

                    def masks(fn, value_only: bool):
                        out = {}
                        # names that flow into a returned value
                        flow = {x.id for r_ in walk(fn.node) if isinstance(r_, ast.Return) and r_.value is not None
                                for x in ast.walk(r_.value) if isinstance(x, ast.Name)}
                        grew = True
                        while grew:
                            grew = False
                            for st_ in walk(fn.node, into_defs=True):
                                tgt, val = None, None
                                if isinstance(st_, ast.Assign) and isinstance(st_.targets[0], ast.Name):
                                    tgt, val = st_.targets[0].id, st_.value
                                elif isinstance(st_, ast.AugAssign) and isinstance(st_.target, ast.Name):
                                    tgt, val = st_.target.id, st_.value
                                if isinstance(st_, ast.Call) and isinstance(st_.func, ast.Attribute) and isinstance(st_.func.value, ast.Name) \
                                        and st_.func.attr in ("append", "extend", "add", "insert"):
                                    tgt, val = st_.func.value.id, ast.Tuple(elts=list(st_.args), ctx=ast.Load())
                                if tgt in flow and val is not None:
                                    srcs = [val]
                                    # control dependence: the tests that decide whether / how often this update happens
                                    srcs += [a.test for a in ancestors(st_) if isinstance(a, (ast.If, ast.While))]
                                    for src_ in srcs:
                                        for x in ast.walk(src_):
                                            if isinstance(x, ast.Name) and x.id not in flow:
                                                flow.add(x.id)
                                                grew = True
                        for st_ in walk(fn.node, into_defs=True):
                            if isinstance(st_, ast.AugAssign) and isinstance(st_.op, ast.BitAnd):
                                m_ = mask_of(st_.value)
                                if m_ is not None and (not value_only or (isinstance(st_.target, ast.Name) and st_.target.id in flow)):
                                    out[m_] = st_
                            elif isinstance(st_, (ast.Assign, ast.AugAssign)):
                                tname = st_.targets[0].id if isinstance(st_, ast.Assign) and isinstance(st_.targets[0], ast.Name) else \
                                    (st_.target.id if isinstance(st_, ast.AugAssign) and isinstance(st_.target, ast.Name) else None)
                                if value_only and tname not in flow:
                                    continue
                                for x in ast.walk(st_.value):
                                    if isinstance(x, ast.BinOp) and isinstance(x.op, ast.BitAnd):
                                        for o in (x.left, x.right):
                                            m_ = mask_of(o)
                                            if m_ is not None:
                                                out[m_] = x
                            elif not value_only:
                                for x in ast.walk(st_) if isinstance(st_, ast.stmt) else []:
                                    if isinstance(x, ast.BinOp) and isinstance(x.op, ast.BitAnd):
                                        for o in (x.left, x.right):
                                            m_ = mask_of(o)
                                            if m_ is not None:
                                                out[m_] = x
                        return out
                    # the reader / writer and the same-class helpers they are split into
                    r_fns = [h for h in class_methods_reachable(repo, ci.methods[rname], depth=3) if h.name not in (wname,)]
                    w_fns = [h for h in class_methods_reachable(repo, ci.methods[wname], depth=3) if h.name not in (rname,)]
                    rm, wm, r_owner = {}, {}, {}
                    for h in r_fns:
                        for k_, v_ in masks(h, True).items():
                            rm.setdefault(k_, v_)
                            r_owner.setdefault(k_, h)
                    for h in w_fns:
                        wm.update(masks(h, False))
                    # bits the writer sets / shifts by are bits the reader may test: every integer constant of a bit operation
                    for x in [y for h in w_fns for y in walk(h.node, into_defs=True)]:
                        ops_ = []
                        if isinstance(x, ast.BinOp) and isinstance(x.op, (ast.BitOr, ast.BitAnd, ast.LShift, ast.RShift, ast.BitXor)):
                            ops_ = [x.left, x.right]
                        elif isinstance(x, ast.AugAssign) and isinstance(x.op, (ast.BitOr, ast.BitAnd, ast.LShift, ast.RShift, ast.BitXor)):
                            ops_ = [x.value]
                        for o in ops_:
                            m_ = mask_of(o)
                            if m_ is not None:
                                wm.setdefault(m_, x)
                    for m_, node in sorted(rm.items(), key=lambda kv: str(kv[0])):
                        n += 1
                        whole_bytes = isinstance(m_, int) and m_ in (0xFF, 0xFFFF, 0xFFFFFFFF, 0xFFFFFFFFFFFFFFFF)
                        ctx.ob("C11.R15", f"{ci.name}.{rname}: value mask {m_ if not isinstance(m_, int) else hex(m_)} is applied by "
                                          f"{wname} too", m_ in wm or whole_bytes, ctx.w(r_owner.get(m_, ci.methods[rname]), node),
                               f"{rname} clears bits of the value it returns with a mask {wname} never applies: wire values that use "
                               f"those bits come back different (and re-encode differently)")
    ctx.floor("C11.R15", "value masks in readers", n, 1)


def r16(ctx):
    """Scalar floats are printed with repr(): the non-finite ones come out as `inf`, `-inf`, `nan`, which are names, not
    literals.  The plain-value parser needs a branch that recognises those spellings and converts them with float()."""
    repo = ctx.repo
    ctx.rule("C11.R16", "the plain-value parser accepts the non-finite float spellings repr() prints (a branch testing for "
                        "'inf'/'nan' that converts with float()), since ast.literal_eval rejects them")
    cg = CallGraph(repo)
    pf = repo.fn("HumanMessageSerializer.from_human_string")
    fns = _parser_fns(repo, cg, pf)

    def mentions_nonfinite(e, g) -> bool:
        texts = []
        docstrings = {id(st_.value) for st_ in ast.walk(e) if isinstance(st_, ast.Expr) and isinstance(st_.value, ast.Constant)}
        for x in ast.walk(e):
            if isinstance(x, ast.Constant) and isinstance(x.value, str):
                if id(x) not in docstrings:
                    texts.append(x.value.lower())
            elif isinstance(x, (ast.Name, ast.Attribute)):
                v = _static_value(repo, g, x)
                for y in ast.walk(v) if v is not None else []:
                    if isinstance(y, ast.Constant) and isinstance(y.value, str):
                        texts.append(y.value.lower())
        joined = " ".join(texts)
        return "inf" in joined and "nan" in joined
    # literal_eval sites: in the parser's functions and in the module-level helpers they call
    fmod = pf.module
    helper_fns = []
    for g in fns:
        for c in calls(g.node, into_defs=True):
            if isinstance(c.func, ast.Name):
                for h in repo.funcs.get(c.func.id, []):
                    if h.module is fmod and h.cls is None and h.parent_fn is None and h not in helper_fns and h not in fns \
                            and any(ap(x.func) == "ast.literal_eval" for x in calls(h.node, into_defs=True)):
                        helper_fns.append(h)

    def rewrites_names(e, g) -> bool:
        """the argument is produced by something that maps the names inf / nan to constants (an ast.NodeTransformer
        or a helper in this module whose source mentions both spellings)"""
        for x in ast.walk(e):
            if isinstance(x, ast.Call):
                nm = (ap(x.func) or "").split("()")[0].split(".")[0]
                for ci_ in repo.classes.get(nm, []):
                    if ci_.module is fmod and mentions_nonfinite(ci_.node, g):
                        return True
                for h in repo.funcs.get(nm, []):
                    if h.module is fmod and mentions_nonfinite(h.node, g):
                        return True
        return False
    lit = [(g, c) for g in fns + helper_fns for c in calls(g.node, into_defs=True) if ap(c.func) == "ast.literal_eval"]
    ctx.floor("C11.R16", "ast.literal_eval calls in the parser and its helpers", len(lit), 1)
    n_sites: Dict[str, int] = {}
    for g in fns + helper_fns:
        for c in calls(g.node, into_defs=True):
            if ap(c.func) != "ast.literal_eval" or not c.args:
                continue
            guarded = any((not cond.polarity) and mentions_nonfinite(cond.test, g) for cond in conditions(c))
            okc = guarded or rewrites_names(c.args[0], g)
            branch = "plain" if guarded else "packed / helper"
            n_sites[branch] = n_sites.get(branch, 0) + 1
            ctx.ob("C11.R16", f"parser: literal_eval on the {branch} path is not handed the bare names inf / nan"
                              + (f" #{n_sites[branch]}" if n_sites[branch] > 1 else ""), okc,
                   ctx.w(g, c), f"({branch} path) pformat()/repr() print non-finite floats as `inf`, `-inf`, `nan`; literal_eval raises "
                   "ValueError on them: `Data =| {'SCALE': (1.0, -inf, 1.0)}` does not parse back")
    ok = False
    for g in fns:
        for c in calls(g.node, into_defs=True):
            if isinstance(c.func, ast.Name) and c.func.id == "float" and c.args:
                for cond in conditions(c):
                    if cond.polarity and mentions_nonfinite(cond.test, g):
                        ok = True
    ctx.ob("C11.R16", "from_human_string: plain values `inf` / `-inf` / `nan` (repr of non-finite floats) are accepted", ok,
           pf.where, "a scalar F32/F64 holding inf or nan prints as `Var = inf`; ast.literal_eval raises ValueError on it, so the "
           "text of such a message does not parse back")


def r17(ctx):
    """repr() prints every NaN as `nan`; the sign bit is part of the wire value (the default NaN of x86 has it set) and
    float('-nan') restores it, so the scalar and the coordinate printers must spell a negative NaN differently."""
    repo = ctx.repo
    ctx.rule("C11.R17", "scalar floats and coordinate components are printed through a renderer that keeps the sign of a NaN "
                        "(a copysign/signbit test yielding '-nan')")
    fv = repo.fn("HumanMessageSerializer._format_var")
    fmod = fv.module

    def sign_aware(h: FuncInfo) -> bool:
        consts = {x.value for x in ast.walk(h.node) if isinstance(x, ast.Constant) and isinstance(x.value, str)}
        tests = any(call_attr(c) in ("copysign", "signbit") for c in calls(h.node, into_defs=True))
        return tests and any("-nan" in c_ for c_ in consts)
    renderers = {h.name for h in repo.all_funcs if h.module is fmod and sign_aware(h)} | \
                {h.name for h in repo.all_funcs if h.module.rel == "hippolyzer/lib/base/datatypes.py" and sign_aware(h)}
    vp = [a.arg for a in fv.node.args.args if any(
        isinstance(c.func, ast.Name) and c.func.id in ("repr", "str") and c.args and ap(c.args[0]) == a.arg for c in calls(fv.node))]
    ctx.require(len(vp) == 1, "C11.R17: cannot identify the value parameter of _format_var")
    v = vp[0]

    def branch_ok(type_names: Set[str]) -> Tuple[bool, bool]:
        """(a branch for the type exists, it renders through a sign-aware function)"""
        seen, good = False, False
        for c in calls(fv.node, into_defs=True):
            for e, pol in facts(c, fv.node):
                if pol and isinstance(e, ast.Call) and ap(e.func) == "isinstance" and len(e.args) == 2 and ap(e.args[0]) == v:
                    ts = e.args[1].elts if isinstance(e.args[1], ast.Tuple) else [e.args[1]]
                    if {(ap(t) or "").split(".")[-1] for t in ts} & type_names:
                        seen = True
                        if call_attr(c) in renderers:
                            good = True
        return seen, good
    # coordinates: either _format_var renders the components itself, or it uses str() and TupleCoord.__str__ is sign-aware
    seen_c, good_c = branch_ok({"TupleCoord", "Vector3", "Vector4", "Quaternion", "Vector2"})
    tc = repo.cls("TupleCoord", "hippolyzer/lib/base/datatypes.py")
    str_m = repo.lookup_method(tc, "__str__")
    good_c = good_c or (str_m is not None and (sign_aware(str_m) or any(call_attr(c) in renderers for c in calls(str_m.node, into_defs=True))))
    ctx.ob("C11.R17", "_format_var: coordinate components keep the sign of a NaN", seen_c and good_c, fv.where,
           "components are printed with repr(): `<1.0, nan, 1.0>` for 00 00 c0 ff, which parses back as 00 00 c0 7f")
    seen_f, good_f = branch_ok({"float"})
    ctx.ob("C11.R17", "_format_var: scalar floats keep the sign of a NaN", seen_f and good_f, fv.where,
           "scalar floats fall into the generic repr() branch: the x86 default NaN (00 00 c0 ff) prints as `nan` and "
           "re-encodes as 00 00 c0 7f")
    # beautified subfields are printed by HippoPrettyPrinter (pprint -> float.__repr__): its per-object hook format()
    # has to know the spelling as well
    pp = repo.cls("HippoPrettyPrinter", HELPERS)
    fm = repo.lookup_method(pp, "format")
    ctx.ob("C11.R17", "HippoPrettyPrinter: floats inside pretty-printed subfields keep the sign of a NaN", fm is not None and sign_aware(fm),
           ctx.w(pp.module, fm.node if fm is not None else pp.node),
           "pprint prints container members through float.__repr__: `Data =| {'POSITION': (nan, 10.0, 20.0)}` for 00 00 c0 ff "
           "parses back as 00 00 c0 7f")
    ctx.note("C11.R17: NaN payload bits are not carried by the text (every quiet NaN prints as nan / -nan): documented limit")


def r18(ctx):
    """Wire readers hand on the value they read: passing it through a precision-limited text form (`float("%.8g" % v)`,
    format(v, ".6f")) makes different wire values decode alike - in the plain-data form the text is printed from."""
    import re as _re
    repo = ctx.repo
    ctx.rule("C11.R18", "wire readers (deserialize / decode in serialization.py, templates.py) do not pass the value they return "
                        "through a precision-limited number format")
    spec = _re.compile(r"%[-+ #0]*\d*\.(\d+)([gGeEfF])")
    fspec = _re.compile(r"\.(\d+)([gGeEfF])")

    def lossy(text: str, pat) -> Optional[str]:
        for m_ in pat.finditer(text):
            prec, kind = int(m_.group(1)), m_.group(2).lower()
            if kind == "f" or (kind == "g" and prec < 17) or (kind == "e" and prec < 16):
                return m_.group(0)
        return None
    n = 0
    for rel in ("hippolyzer/lib/base/serialization.py", "hippolyzer/lib/base/templates.py"):
        mod = repo.module(rel)
        for lst in repo.classes.values():
            for ci in lst:
                if ci.module is not mod:
                    continue
                for mname in ("deserialize", "decode"):
                    m = ci.methods.get(mname)
                    if m is None:
                        continue
                    n += 1
                    bad = None
                    for x in walk(m.node, into_defs=True):
                        if isinstance(x, ast.BinOp) and isinstance(x.op, ast.Mod):
                            texts = []
                            if isinstance(x.left, ast.Constant) and isinstance(x.left.value, str):
                                texts.append(x.left.value)
                            elif isinstance(x.left, ast.Attribute) and (ap(x.left) or "").startswith("self."):
                                # a format kept on the instance: every string constant assigned to that attribute in the class
                                for k in repo.mro(ci):
                                    for meth in k.methods.values():
                                        for st in stores(meth.node, into_defs=False):
                                            if st.path == ap(x.left) and st.value is not None:
                                                texts += [c_.value for c_ in ast.walk(st.value) if isinstance(c_, ast.Constant)
                                                          and isinstance(c_.value, str)]
                                cv = repo.class_attr(ci, x.left.attr)
                                if isinstance(cv, ast.Constant) and isinstance(cv.value, str):
                                    texts.append(cv.value)
                            for t in texts:
                                bad = bad or lossy(t, spec)
                        elif isinstance(x, ast.FormattedValue) and x.format_spec is not None:
                            t = "".join(str(v.value) for v in x.format_spec.values if isinstance(v, ast.Constant))
                            bad = bad or lossy(t, fspec)
                        elif isinstance(x, ast.Call) and ap(x.func) == "format" and len(x.args) > 1 and \
                                isinstance(x.args[1], ast.Constant) and isinstance(x.args[1].value, str):
                            bad = bad or lossy(x.args[1].value, fspec)
                    if bad is not None or mname == "deserialize":
                        ctx.ob("C11.R18", f"{ci.name}.{mname}: the value read is not squeezed through a precision-limited number format",
                               bad is None, m.where, "" if bad is None else
                               f"`{bad}` keeps fewer digits than the wire value has: an F32 needs 9 significant digits, an F64 17 - wire "
                               f"values that differ beyond that decode alike, print alike and re-encode as another value")
    ctx.floor("C11.R18", "deserialize / decode methods of the codec modules", n, 25)


def run(ctx):
    r18(ctx)
    r17(ctx)
    r16(ctx)
    r15(ctx)
    r14(ctx)
    r13(ctx)
    r12(ctx)
    r11(ctx)
    r10(ctx)
    r9(ctx)
    r8(ctx)
    r7(ctx)
    r6(ctx)
    r1(ctx)
    r2(ctx)
    r3(ctx)
    r4(ctx)
    ctx.assume("equality of re-encoded bodies for generated messages (value level) is not decided statically")
