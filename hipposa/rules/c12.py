"""C12 - LLSD forms (DESIGN.md section 4, C12).

R1  LLSDDataPacker table / LLSDMessageSerializer: table keys and decorator, rows agree with the
    binary sibling table (same value domain, same coordinate class), tuple-coordinate factory type
    flow (a name rebound to `TupleCoord.data()` is a tuple), serialize/deserialize both walk
    `_yield_vars` and convert with the template variable's type, and `deserialize` never stores into
    objects reachable from its parameter unless every reaching definition of that parameter is a
    deep copy / a fresh parse (aliasing).
R2  binary tag table: every tag `_format_binary_recurse` emits is dispatched by the parser (the
    third-party `llsd` package is parsed, never imported, plus the Hippo overrides); struct formats
    per tag agree; a length prefix is `len()` of the very bytes that follow; no `isinstance` branch
    for a subclass is shadowed by an earlier branch for its superclass ("same LLSD type").
R3  time-zone lint (shared hipposa.tzlint) on the LLSD codec modules.
R4  newline escaping is on every notation path.
"""
from __future__ import annotations

import ast
import os
import re
import struct
from typing import Dict, List, Optional, Set, Tuple

from ..cfg import CFG
from ..consteval import ConstEval, EnumVal, enum_members
from ..core import (AnalysisError, FuncInfo, FUNC_TYPES, ap, call_attr, calls, enclosing_stmt, facts,
                    find_calls, kw, norm, parent, set_parents, src, stores, walk)
from .. import tzlint
from .common import as_pair, class_methods_reachable

LLSD = "hippolyzer/lib/base/llsd.py"
PACK = "hippolyzer/lib/base/message/data_packer.py"
MSGSER = "hippolyzer/lib/base/message/llsd_msg_serializer.py"
TYPES = "hippolyzer/lib/base/message/msgtypes.py"
LEGACY = "hippolyzer/lib/base/legacy_schema.py"
TP_PKG = "/venv/lib/python3.12/site-packages/llsd"

BUILTIN_TYPES = {"bool", "int", "float", "str", "bytes", "list", "tuple", "dict", "set", "bytearray", "object"}
BUILTIN_SUPER = {"builtins.bool": ["builtins.int"], "datetime.datetime": ["datetime.date"]}


# =========================================================================== third-party package (parsed only)

class ThirdParty:
    def __init__(self, pkg_dir=TP_PKG):
        self.dir = pkg_dir
        self._mods: Dict[str, ast.Module] = {}

    def module(self, name: str) -> ast.Module:
        """name: 'llsd' (the package __init__) or 'llsd.base' / 'llsd.serde_binary' ..."""
        if name not in self._mods:
            rel = "__init__.py" if name == "llsd" else name.split(".", 1)[1] + ".py"
            path = os.path.join(self.dir, rel)
            try:
                with open(path, encoding="utf8") as f:
                    tree = ast.parse(f.read(), filename=path)
            except (OSError, SyntaxError) as e:
                raise AnalysisError(f"cannot parse third-party module {name} at {path}: {e}")
            set_parents(tree)
            self._mods[name] = tree
        return self._mods[name]

    def toplevel(self, name: str) -> List[ast.stmt]:
        """Module-level statements with `if PY2:` resolved to the Python 3 side and try/except flattened."""
        out: List[ast.stmt] = []

        def rec(stmts):
            for s in stmts:
                if isinstance(s, ast.If) and ap(s.test) == "PY2":
                    rec(s.orelse)
                elif isinstance(s, ast.Try):
                    rec(s.body)
                    for h in s.handlers:
                        rec(h.body)
                    rec(s.orelse)
                else:
                    out.append(s)
        rec(self.module(name).body)
        return out

    def lookup(self, modname: str, name: str, depth=0):
        """-> ('class', modname, ClassDef) | ('func', modname, FunctionDef) | ('alias', [exprs], modname) |
        ('ext', dotted) | None"""
        if depth > 6:
            return None
        found = []
        for s in self.toplevel(modname):
            if isinstance(s, ast.ClassDef) and s.name == name:
                return ("class", modname, s)
            if isinstance(s, FUNC_TYPES) and s.name == name:
                return ("func", modname, s)
            if isinstance(s, ast.Assign) and any(isinstance(t, ast.Name) and t.id == name for t in s.targets):
                found.append(s.value)
            if isinstance(s, ast.ImportFrom):
                for a in s.names:
                    if (a.asname or a.name) == name:
                        if s.module and s.module.startswith("llsd"):
                            return self.lookup(s.module, a.name, depth + 1)
                        return ("ext", f"{s.module}.{a.name}")
            if isinstance(s, ast.Import):
                for a in s.names:
                    if (a.asname or a.name.split(".")[0]) == name:
                        return ("ext", a.name)
        if found:
            return ("alias", found, modname)
        return None


class TypeWorld:
    """Canonical type names and a subtype relation over builtins, stdlib names, third-party llsd classes
    and repository classes."""

    def __init__(self, repo, tp: ThirdParty):
        self.repo = repo
        self.tp = tp

    # ---- canonical names
    def tp_types(self, modname: str, e: ast.AST, depth=0) -> Set[str]:
        """Types denoted by expression `e` in third-party module `modname` (unknown parts dropped)."""
        if depth > 8:
            return set()
        if isinstance(e, ast.Tuple):
            return set().union(*[self.tp_types(modname, x, depth + 1) for x in e.elts]) if e.elts else set()
        if isinstance(e, ast.Call):
            fn = ap(e.func)
            if fn == "type" and e.args and isinstance(e.args[0], ast.Constant):
                return {"builtins." + type(e.args[0].value).__name__}
            if fn in ("tuple", "set", "frozenset", "list") and e.args:
                return self.tp_types(modname, e.args[0], depth + 1)
            return set()
        if isinstance(e, ast.Attribute):
            p = ap(e)
            root = p.split(".")[0] if p else None
            r = self.tp.lookup(modname, root) if root else None
            if r and r[0] == "ext":
                return {r[1] + p[len(root):]}
            return set()
        if isinstance(e, ast.Name):
            r = self.tp.lookup(modname, e.id)
            if r is None:
                return {"builtins." + e.id} if e.id in BUILTIN_TYPES else set()
            if r[0] == "class":
                return {f"{r[1]}.{r[2].name}"}
            if r[0] == "alias":
                out = set()
                for v in r[1]:
                    out |= self.tp_types(r[2], v, depth + 1)
                return out
            if r[0] == "ext":
                return {r[1]}
        return set()

    def repo_types(self, mod, e: ast.AST) -> Set[str]:
        """Types denoted by expression `e` in repository module `mod`."""
        if isinstance(e, ast.Tuple):
            return set().union(*[self.repo_types(mod, x) for x in e.elts]) if e.elts else set()
        p = ap(e)
        if p is None:
            return set()
        root = p.split(".")[0]
        if isinstance(e, ast.Attribute):
            tgt = mod.imports.get(root)
            if tgt and tgt not in self.repo.by_modname:
                return {tgt + p[len(root):]}
            ci = self.repo.resolve_class(p, mod)
            return {"repo:" + ci.qual} if ci else set()
        # bare name: own module / explicit import / star imports (later star import wins)
        for c in self.repo.classes.get(root, []):
            if c.module is mod:
                return {"repo:" + c.qual}
        tgt = mod.imports.get(root)
        if tgt:
            modname, _, attr = tgt.rpartition(".")
            if modname in self.repo.by_modname:
                ci = self.repo.resolve_class(attr, self.repo.by_modname[modname])
                return {"repo:" + ci.qual} if ci else set()
            if modname.startswith("llsd"):
                return self.tp_types(modname, ast.Name(id=attr, ctx=ast.Load()))
            return {tgt}
        for star in reversed(mod.star_imports):
            m2 = self.repo.by_modname.get(star)
            if m2 is not None:
                exported = self._repo_all(m2)
                if exported is None or root in exported:
                    for c in self.repo.classes.get(root, []):
                        if c.module is m2:
                            return {"repo:" + c.qual}
            elif star.startswith("llsd"):
                exported = self._tp_all(star)
                if exported is None or root in exported:
                    t = self.tp_types(star, ast.Name(id=root, ctx=ast.Load()))
                    if t:
                        return t
        return {"builtins." + root} if root in BUILTIN_TYPES else set()

    def _repo_all(self, mod) -> Optional[Set[str]]:
        v = self.repo.module_assign(mod, "__all__")
        if isinstance(v, (ast.List, ast.Tuple)):
            return {e.value for e in v.elts if isinstance(e, ast.Constant)}
        return None

    def _tp_all(self, modname) -> Optional[Set[str]]:
        r = self.tp.lookup(modname, "__all__")
        if r and r[0] == "alias" and isinstance(r[1][-1], (ast.List, ast.Tuple)):
            return {e.value for e in r[1][-1].elts if isinstance(e, ast.Constant)}
        return None

    # ---- subtyping
    def supers(self, t: str, depth=0) -> Set[str]:
        out = {t}
        if depth > 8:
            return out
        direct: Set[str] = set(BUILTIN_SUPER.get(t, []))
        if t.startswith("repo:"):
            ci = next((c for lst in self.repo.classes.values() for c in lst if c.qual == t[5:]), None)
            if ci is not None:
                for b in ci.node.bases:
                    direct |= self.repo_types(ci.module, b.value if isinstance(b, ast.Subscript) else b)
        elif t.startswith("llsd"):
            modname, _, cname = t.rpartition(".")
            r = self.tp.lookup(modname, cname)
            if r and r[0] == "class":
                for b in r[2].bases:
                    direct |= self.tp_types(modname, b)
        for d in direct:
            out |= self.supers(d, depth + 1)
        return out

    def is_subtype(self, a: str, b: str) -> bool:
        return b in self.supers(a)


# =========================================================================== R1

def _struct_kind(fmt: str) -> Optional[Tuple[str, int, bool]]:
    """(kind, size, signed) of a single-value struct format, ignoring byte order."""
    body = fmt.lstrip("<>!=@")
    if len(body) != 1:
        return None
    ch = body
    try:
        size = struct.calcsize("<" + ch)
    except struct.error:
        return None
    if ch in "bhilqn":
        return ("int", size, True)
    if ch in "BHILQN":
        return ("int", size, False)
    if ch in "efd":
        return ("float", size, True)
    return (ch, size, False)


def _spec_rows(ctx, cls_name):
    repo = ctx.repo
    ci = repo.cls(cls_name, PACK)
    node = None
    for st in ci.node.body:          # own body only (LLSDDataPacker overrides SPECS)
        if isinstance(st, ast.AnnAssign) and ap(st.target) == "SPECS":
            node = st.value
        elif isinstance(st, ast.Assign) and any(ap(t) == "SPECS" for t in st.targets):
            node = st.value
    ctx.require(isinstance(node, ast.Dict), f"{cls_name}.SPECS is not a dict literal in the class body")
    pmod = repo.module(PACK)
    ev = ConstEval(repo, pmod)
    rows = {}

    def add(d: ast.Dict, depth=0):
        ctx.require(depth < 4, f"{cls_name}.SPECS: dict unpacking nested too deeply")
        for k, v in zip(d.keys, d.values):
            if k is None:
                # `**NAME`: a module-level (or class-level) dict literal merged in; later rows win
                sub = repo.module_assign(pmod, v.id) if isinstance(v, ast.Name) else None
                if sub is None and isinstance(v, ast.Name):
                    sub = repo.class_attr(ci, v.id)
                ctx.require(isinstance(sub, ast.Dict), f"{cls_name}.SPECS merges {src(v)}, which is not a dict literal")
                add(sub, depth + 1)
                continue
            kv = ev.ev(k)
            ctx.require(isinstance(kv, EnumVal) and kv.cls == "MsgType", f"{cls_name}.SPECS key {src(k)} is not a MsgType member")
            # a row may name a module-level (or class-level) constant holding the pair / factory call
            for _ in range(3):
                if isinstance(v, ast.Name):
                    nv = repo.module_assign(pmod, v.id) or repo.class_attr(ci, v.id)
                    if nv is None:
                        break
                    v = nv
                else:
                    break
            rows[kv.name] = v
    add(node)
    return ci, node, rows


def _row_fmt(ev, v: ast.Call) -> Optional[str]:
    for a in list(v.args) + [k.value for k in v.keywords]:
        val = ev.ev(a)
        if isinstance(val, str):
            return val
    return None


def _init_attrs(repo, ci, args: list, kwargs: dict, depth=0) -> Dict[str, ast.AST]:
    """attribute name -> constructor argument expression, for `self.x = <param>` in __init__ and its super().__init__ chain"""
    out: Dict[str, ast.AST] = {}
    init = repo.lookup_method(ci, "__init__")
    if init is None or depth > 4:
        return out
    a = init.node.args
    ps = [x.arg for x in a.args][1:]
    env: Dict[str, ast.AST] = dict(zip(ps, args))
    env.update({k: v for k, v in kwargs.items() if k in ps})
    defaults = dict(zip(reversed(ps), reversed(a.defaults)))
    for p_ in ps:
        env.setdefault(p_, defaults.get(p_))
    for st in stores(init.node, into_defs=False):
        if st.kind == "assign" and st.path.startswith("self.") and st.path.count(".") == 1 and isinstance(st.value, ast.Name) \
                and env.get(st.value.id) is not None:
            out[st.path[5:]] = env[st.value.id]
    for c in calls(init.node):
        if ap(c.func) == "super().__init__" and init.cls is not None:
            bases = repo.mro(init.cls)[1:]
            if bases:
                sub_args = [env.get(x.id) if isinstance(x, ast.Name) and x.id in env else x for x in c.args]
                sub_kw = {k.arg: (env.get(k.value.id) if isinstance(k.value, ast.Name) and k.value.id in env else k.value)
                          for k in c.keywords if k.arg}
                for k_, v_ in _init_attrs(repo, bases[0], sub_args, sub_kw, depth + 1).items():
                    out.setdefault(k_, v_)
    return out


def _resolve_callable(repo, f: FuncInfo, e, depth=0):
    """Function-like things an expression inside factory f may denote:
    [(params: list of names, body_returns: list of exprs, def_node, bound: {param: arg expr}, site)]"""
    out = []
    if depth > 4 or e is None:
        return out
    if isinstance(e, ast.Lambda):
        out.append(([a.arg for a in e.args.args], [e.body], e, {}, e))
    elif isinstance(e, ast.Name):
        nested = [d for d in walk(f.node) if isinstance(d, ast.FunctionDef) and d is not f.node and d.name == e.id]
        for d in nested:
            out.append(([a.arg for a in d.args.args], [n.value for n in walk(d) if isinstance(n, ast.Return) and n.value is not None],
                        d, {}, d))
        if not nested:
            vals = [st.value for st in stores(f.node, into_defs=False) if st.path == e.id and st.kind == "assign" and st.value is not None]
            for v in vals:
                out.extend(_resolve_callable(repo, f, v, depth + 1))
            if not vals:
                for g in repo.funcs.get(e.id, []):
                    if g.module is f.module and g.cls is None and g.parent_fn is None:
                        out.append(([a.arg for a in g.node.args.args],
                                    [n.value for n in walk(g.node) if isinstance(n, ast.Return) and n.value is not None],
                                    g.node, {}, e))
    elif isinstance(e, ast.Call) and isinstance(e.func, ast.Name) and repo.resolve_class(e.func.id, f.module) is not None \
            and repo.lookup_method(repo.resolve_class(e.func.id, f.module), "__call__") is not None:
        # an instance of a callable class used in place of a closure: __call__ is the function, the constructor
        # arguments are the constants it closes over (self.<attr> bound through __init__ / super().__init__)
        ci = repo.resolve_class(e.func.id, f.module)
        m = repo.lookup_method(ci, "__call__")
        bound = {"self." + k: v for k, v in _init_attrs(repo, ci, list(e.args), {k.arg: k.value for k in e.keywords if k.arg}).items()}
        bound["self"] = e
        out.append(([a.arg for a in m.node.args.args], [n.value for n in walk(m.node) if isinstance(n, ast.Return) and n.value is not None],
                    m.node, bound, e))
    elif isinstance(e, ast.Call) and (ap(e.func) or "").split(".")[-1] == "partial" and e.args:
        for params, rets, d, bound, _ in _resolve_callable(repo, f, e.args[0], depth + 1):
            b = dict(bound)
            free = [p for p in params if p not in b]
            for p_, a in zip(free, e.args[1:]):
                b[p_] = a
            for k_ in e.keywords:
                if k_.arg:
                    b[k_.arg] = k_.value
            out.append((params, rets, d, b, e))
    return out


def r1_factories(ctx):
    """Coordinate spec factories (binary and LLSD): unpacker shape, .data() type flow, components handed over unchanged.
    Also run by C11 (text -> tuple -> packer) under its own rule id."""
    repo = ctx.repo
    pmod = repo.module(PACK)
    # ---- factory: shape and type flow
    fac = repo.fn("_make_llsd_tuplecoord_spec", PACK)
    sib = repo.fn("_make_tuplecoord_spec", PACK)
    rets = [n for n in walk(fac.node) if isinstance(n, ast.Return)]
    pair = as_pair(repo, pmod, rets[0].value) if len(rets) == 1 and rets[0].value is not None else None
    ctx.require(pair is not None, "_make_llsd_tuplecoord_spec no longer returns one (unpacker, packer) pair")
    up, pk = pair
    typ_param = fac.node.args.args[0].arg
    ups = _resolve_callable(repo, fac, up)
    ok_up = bool(ups)
    for params, urets, d, bound, _ in ups:
        free = [p_ for p_ in params if p_ not in bound and p_ not in ("self", "cls")]
        for r_ in urets:
            callee = ap(r_.func) if isinstance(r_, ast.Call) else None
            callee_is_typ = callee == typ_param or (callee in bound and ap(bound[callee]) == typ_param)
            ok_up = ok_up and len(free) == 1 and bool(urets) and callee_is_typ and len(r_.args) == 1 and \
                isinstance(r_.args[0], ast.Starred) and ap(r_.args[0].value) == free[0] and not r_.keywords
        ok_up = ok_up and bool(urets)
    ctx.ob("C12.R1", "_make_llsd_tuplecoord_spec unpacker is typ(*array)", ok_up, ctx.w(fac, up),
           "the LLSD array must be splatted into the coordinate class the row names")
    packers = _resolve_callable(repo, fac, pk)
    ctx.floor("C12.R1", "packer functions of _make_llsd_tuplecoord_spec", len(packers), 1)
    # TupleCoord-only attribute names (defined in the TupleCoord hierarchy, not on tuple)
    tc = repo.cls("TupleCoord", "hippolyzer/lib/base/datatypes.py")
    tc_attrs: Set[str] = set()
    for c in [tc] + repo.subclasses(tc, strict=True):
        tc_attrs |= {k.split(".")[0] for k in c.methods}
        for st in c.node.body:
            if isinstance(st, ast.AnnAssign) and isinstance(st.target, ast.Name):
                tc_attrs.add(st.target.id)
    tc_attrs -= set(dir(tuple))
    data_fn = repo.lookup_method(tc, "data")
    ctx.require(data_fn is not None and ap(data_fn.node.returns) == "tuple",
                "TupleCoord.data is no longer annotated `-> tuple`: re-read the type-flow premise of C12.R1")
    for side, f in (("llsd", fac), ("binary", sib)):
        # closures of the factory plus the same-module functions it hands out (directly or through functools.partial)
        cands = [(x, x) for x in walk(f.node) if isinstance(x, ast.FunctionDef) and x is not f.node]
        for n_ in walk(f.node, into_defs=True):
            if isinstance(n_, ast.Name) and isinstance(n_.ctx, ast.Load):
                for g_ in repo.funcs.get(n_.id, []):
                    if g_.module is f.module and g_.cls is None and g_.parent_fn is None and g_ is not f and \
                            not any(c_[0] is g_.node for c_ in cands):
                        cands.append((g_.node, n_))
        labels = {id(d_): d_.name for d_, _ in cands}
        for n_ in walk(f.node, into_defs=True):
            if isinstance(n_, ast.Name) and isinstance(n_.ctx, ast.Load):
                kci = repo.resolve_class(n_.id, f.module)
                if kci is not None and kci.module is f.module and repo.lookup_method(kci, "__call__") is not None:
                    for meth in class_methods_reachable(repo, repo.lookup_method(kci, "__call__"), depth=2):
                        if meth.name != "__init__" and not any(c_[0] is meth.node for c_ in cands):
                            cands.append((meth.node, n_))
                            labels[id(meth.node)] = f"{meth.cls.name}.{meth.name}" if meth.cls else meth.name
        for d, site in cands:
            cfg = CFG(d)
            dname = labels.get(id(d), d.name)
            rebinds = [s for s in stores(d, into_defs=False) if s.kind == "assign" and isinstance(s.target, ast.Name)
                       and isinstance(s.value, ast.Call) and call_attr(s.value) == "data"
                       and isinstance(s.value.func, ast.Attribute)]
            branch = "needed_elems given" if any(
                isinstance(e, ast.Compare) and ap(e.left) == "needed_elems" and pol is False or
                isinstance(e, ast.Compare) and ap(e.left) == "needed_elems" and isinstance(e.ops[0], ast.IsNot) and pol
                for e, pol in facts(site, f.node)) else "all components"
            bad = []
            for s in rebinds:
                nm = s.target.id
                after = cfg.reachable(cfg.nodes_for(s.node))
                for n in walk(d):
                    if isinstance(n, ast.Attribute) and isinstance(n.value, ast.Name) and n.value.id == nm and \
                            n.attr in tc_attrs and not any(x is n for x in ast.walk(s.value)):
                        stn = enclosing_stmt(n)
                        if any(cn in after for cn in cfg.stmt_nodes_containing(n)) or stn is None:
                            bad.append(n)
            key = f"{f.qual}.{dname}[{branch}]: names rebound to .data() are used as tuples"
            ctx.ob("C12.R1", key, not bad, ctx.w(f, d),
                   "" if not bad else f"`{norm(bad[0])}` after `{norm(rebinds[0].node)}`: TupleCoord.data() returns a tuple, "
                   f"which has no attribute {bad[0].attr!r} (AttributeError for every value of this type)")
            # the packer yields the elements themselves
            prets = [n for n in walk(d) if isinstance(n, ast.Return) and n.value is not None]
            ctx.ob("C12.R1", f"{f.qual}.{dname}[{branch}]: packer returns on every path", bool(prets), ctx.w(f, d))
            if prets:
                # the unpacker is a plain typ(*array) (checked above), so the packer must hand the components over
                # unchanged: no arithmetic on elements of the value
                dparams = {a.arg for a in d.args.args}
                if any(call_attr(r_.value) in dparams for r_ in prets if isinstance(r_.value, ast.Call)):
                    continue          # an unpacker-shaped helper (typ(*x)), not a packer
                elems = _derived_names(d, dparams)
                names = dparams | set(elems)
                arith = []
                for n_ in walk(d, into_defs=True):
                    if isinstance(n_, ast.UnaryOp) and isinstance(n_.op, (ast.USub, ast.Invert)) and isinstance(n_.operand, ast.Name) \
                            and n_.operand.id in _comp_vars(d, names) | names:
                        arith.append(n_)
                    elif isinstance(n_, ast.BinOp) and not isinstance(n_.op, (ast.BitAnd, ast.BitOr)) and any(
                            isinstance(o, ast.Name) and o.id in _comp_vars(d, names) for o in (n_.left, n_.right)):
                        from ..core import ancestors as _anc
                        # a scalar summary of the components (sum of squares, a maximum ...) is not a component
                        if not any(isinstance(a_, ast.Call) and (ap(a_.func) or "").split(".")[-1] in
                                   ("sum", "min", "max", "any", "all", "len", "fsum", "hypot", "isclose") for a_ in _anc(n_)):
                            arith.append(n_)
                ctx.ob("C12.R1", f"{f.qual}.{dname}[{branch}]: packer hands the components over unchanged", not arith, ctx.w(f, d),
                       "" if not arith else f"`{norm(arith[0])}` alters component values, but the unpacker rebuilds the coordinate "
                       f"from the array as it is: some value does not come back equal")



def r1(ctx):
    repo = ctx.repo
    ctx.rule("C12.R1", "LLSD packer table agrees with MsgType / the binary sibling table; tuple-coordinate factory type "
                       "flow; serialize/deserialize walk _yield_vars with tmpl_var.type; deserialize does not write "
                       "through to its argument")
    pmod = repo.module(PACK)
    ev = ConstEval(repo, pmod)
    members = enum_members(repo, repo.cls("MsgType", TYPES))
    sizes = ConstEval(repo, repo.module(TYPES)).ev(repo.module_assign(repo.module(TYPES), "TYPE_SIZES"))
    sizes = {k.name: v for k, v in sizes.items()} if isinstance(sizes, dict) else {}
    lci, lnode, lrows = _spec_rows(ctx, "LLSDDataPacker")
    tci, tnode, trows = _spec_rows(ctx, "TemplateDataPacker")
    ctx.floor("C12.R1", "LLSDDataPacker.SPECS rows", len(lrows), 4)
    # coverage: every template type LLSD cannot carry natively needs an LLSD row - coordinate classes (arrays in LLSD
    # have to be rebuilt as the class) and integers outside the S32 range LLSD integers have
    n_need = 0
    for m, tv in trows.items():
        need = None
        if isinstance(tv, ast.Call) and ap(tv.func) == "_make_tuplecoord_spec":
            need = "a coordinate class: the LLSD array has to be turned back into it"
        elif isinstance(tv, ast.Call) and ap(tv.func) == "_make_struct_spec":
            k = _struct_kind(_row_fmt(ev, tv) or "")
            if k is not None and k[0] == "int" and (k[1] > 4 or (k[1] == 4 and not k[2])):
                need = "an integer type wider than LLSD's S32 integers"
        if need:
            n_need += 1
            ctx.ob("C12.R1", f"LLSD SPECS has a row for {m}", m in lrows, ctx.w(pmod, lnode),
                   f"the binary table packs {m} as {norm(tv)} ({need}); without an LLSD row such variables come back from the "
                   f"LLSD form as plain lists / overflow LLSD integers")
    ctx.floor("C12.R1", "template types that need an LLSD row", n_need, 6)
    decos = {ap(d) for d in lci.node.decorator_list}
    ctx.ob("C12.R1", "LLSDDataPacker derives its own PACKERS/UNPACKERS (@_unpack_specs)", "_unpack_specs" in decos,
           ctx.w(pmod, lci.node), "without the decorator pack()/unpack() would dispatch on the inherited binary tables")
    bases_ok = any(c.name == "TemplateDataPacker" for c in repo.mro(lci)[1:])
    ctx.ob("C12.R1", "LLSDDataPacker inherits pack/unpack from TemplateDataPacker", bases_ok and
           "pack" not in lci.methods and "unpack" not in lci.methods or
           all(m in lci.methods for m in ("pack", "unpack")), ctx.w(pmod, lci.node))
    for m, v in lrows.items():
        where = ctx.w(pmod, v)
        ctx.ob("C12.R1", f"LLSD SPECS key {m} is a MsgType member", m in members, where)
        tv = trows.get(m)
        if tv is None:
            ctx.ob("C12.R1", f"LLSD SPECS[{m}] has a binary sibling row", False, where)
            continue
        if isinstance(v, ast.Call) and ap(v.func) == "_make_struct_spec":
            fmt = _row_fmt(ev, v)
            ctx.require(isinstance(fmt, str), f"LLSD SPECS[{m}] format is not a literal")
            k = _struct_kind(fmt)
            tk = _struct_kind(_row_fmt(ev, tv) or "") if isinstance(tv, ast.Call) else None
            ctx.ob("C12.R1", f"LLSD SPECS[{m}] carries the same value domain as the binary row", k is not None and k == tk,
                   where, f"LLSD format {fmt!r} is {k}, binary row {norm(tv)} is {tk}: in-range values would not survive")
            ctx.ob("C12.R1", f"LLSD SPECS[{m}] width == TYPE_SIZES[{m}]", k is not None and k[1] == sizes.get(m), where)
        elif isinstance(v, ast.Call) and ap(v.func) == "_make_llsd_tuplecoord_spec":
            typ = ap(v.args[0]) if v.args else ap(kw(v, "typ"))
            ttyp = (ap(tv.args[0]) if tv.args else ap(kw(tv, "typ"))) if isinstance(tv, ast.Call) else None
            ctx.ob("C12.R1", f"LLSD SPECS[{m}] builds the same coordinate class as the binary row", typ is not None and typ == ttyp,
                   where, f"LLSD row builds {typ}, binary row builds {ttyp}")
            ne = kw(v, "needed_elems") or (v.args[1] if len(v.args) > 1 else None)
            tne = (kw(tv, "needed_elems") or (tv.args[2] if len(tv.args) > 2 else None)) if isinstance(tv, ast.Call) else None
            ci = repo.resolve_class(typ, pmod) if typ else None
            if ci is not None and "__init__" in ci.methods:
                a = ci.methods["__init__"].node.args
                npar = len(a.args) - 1
                nreq = npar - len(a.defaults)
                n = ev.ev(ne) if ne is not None else npar
                ctx.ob("C12.R1", f"LLSD SPECS[{m}] packs a component count {ci.name}() accepts", isinstance(n, int)
                       and nreq <= n <= npar, where, f"packs {n} components, {ci.name}() takes {nreq}..{npar}")
            if (ne is None) != (tne is None) or (ne is not None and ev.ev(ne) != ev.ev(tne)):
                ctx.note(f"C12.R1: LLSD SPECS[{m}] needed_elems={norm(ne) if ne is not None else None} differs from the "
                         f"binary row ({norm(tne) if tne is not None else None}); not a round-trip condition")
        elif as_pair(repo, pmod, v) is not None:
            pv, ptv = as_pair(repo, pmod, v), as_pair(repo, pmod, tv)
            ctx.ob("C12.R1", f"LLSD SPECS[{m}] idiom pair equals the binary row's confirmed inverse pair",
                   ptv is not None and [norm(e) for e in pv] == [norm(e) for e in ptv], where,
                   f"LLSD row {norm(v)} vs binary row {norm(tv)}")
        else:
            raise AnalysisError(f"LLSD SPECS[{m}] has unsupported shape {norm(v)}: read it and extend C12.R1")

    r1_factories(ctx)

    # ---- serializer walk
    ser = repo.fn("LLSDMessageSerializer.serialize")
    des = repo.fn("LLSDMessageSerializer.deserialize")
    yv = repo.fn("LLSDMessageSerializer._yield_vars")
    # every yield is dominated by `<yielded var>.type in LLSDDataPacker.SPECS` (any guard shape: if / continue / filter)
    yields = [n for n in walk(yv.node) if isinstance(n, (ast.Yield, ast.YieldFrom))]
    ctx.floor("C12.R1", "yield statements in _yield_vars", len(yields), 1)

    def _in_specs(e, pol, var):
        if isinstance(e, ast.Compare) and len(e.ops) == 1 and ap(e.comparators[0]) == "LLSDDataPacker.SPECS" \
                and ap(e.left) == f"{var}.type":
            return isinstance(e.ops[0], ast.In) and pol or isinstance(e.ops[0], ast.NotIn) and not pol
        return False
    def _filtered_value(g, v, memo, depth=0, in_cache=False):
        """`v` (in function g) is a sequence of template variables already filtered by `.type in SPECS`."""
        if depth > 4:
            return False
        if isinstance(v, ast.Call) and isinstance(v.func, ast.Name) and v.func.id in ("tuple", "list", "iter") and len(v.args) == 1:
            return _filtered_value(g, v.args[0], memo, depth + 1, in_cache)
        if isinstance(v, (ast.GeneratorExp, ast.ListComp)) and isinstance(v.elt, ast.Name):
            return any(_in_specs(c, True, v.elt.id) or (isinstance(c, ast.UnaryOp) and isinstance(c.op, ast.Not)
                                                        and _in_specs(c.operand, False, v.elt.id))
                       for gen in v.generators for c in gen.ifs)
        if (isinstance(v, ast.Subscript) and (ap(v.value) or "").startswith("self.")) or \
                (isinstance(v, ast.Call) and call_attr(v) == "get" and (ap(v.func.value) or "").startswith("self.")):
            # direct read of a memo table: fine when everything stored there is a filtered list, or a list that is
            # only ever filled with filter-dominated appends
            cache = ap(v.value) if isinstance(v, ast.Subscript) else ap(v.func.value)
            ok = False
            for h in (g.cls.methods.values() if g.cls else [g]):
                for cs in stores(h.node, into_defs=True):
                    if cs.kind == "setitem" and cs.path == cache and isinstance(cs.node, ast.Assign):
                        aliases = {t.id for t in cs.node.targets if isinstance(t, ast.Name)}
                        if isinstance(cs.value, ast.Name):
                            aliases.add(cs.value.id)
                        apps = [c for c in calls(h.node) if isinstance(c.func, ast.Attribute) and c.func.attr == "append"
                                and ap(c.func.value) in aliases and c.args]
                        if cs.value is not None and _filtered_value(h, cs.value, memo, depth + 1, True):
                            ok = True
                        elif apps and all(any(_in_specs(e, pol, ap(c.args[0]) or "") for e, pol in facts(c, h.node)) for c in apps):
                            ok = True
                        else:
                            return False
            return ok
        if isinstance(v, ast.Name):
            vals = [st for st in stores(g.node, into_defs=False) if st.path == v.id]
            if not vals or any(st.kind != "assign" or st.value is None for st in vals):
                return False
            ok = True
            for st in vals:
                val = st.value
                # cache read: self.<attr>.get(K) / self.<attr>[K]
                cache = None
                if isinstance(val, ast.Call) and call_attr(val) == "get" and (ap(val.func.value) or "").startswith("self."):
                    cache = ap(val.func.value)
                elif isinstance(val, ast.Subscript) and (ap(val.value) or "").startswith("self."):
                    cache = ap(val.value)
                if cache is not None and in_cache:
                    continue
                if cache is not None:
                    for h in (g.cls.methods.values() if g.cls else [g]):
                        for cs in stores(h.node, into_defs=True):
                            if cs.kind == "setitem" and cs.path == cache:
                                if not (cs.value is not None and _filtered_value(h, cs.value, memo, depth + 1, True)):
                                    ok = False
                                # memo key must identify every input of the memoised value as a whole object
                                src_val = cs.value
                                if isinstance(src_val, ast.Name):
                                    defs = [x.value for x in stores(h.node, into_defs=False) if x.path == src_val.id
                                            and x.kind == "assign" and x.value is not None
                                            and not (isinstance(x.value, ast.Call) and call_attr(x.value) == "get")]
                                else:
                                    defs = [src_val]
                                hparams = {a.arg for a in h.node.args.args} - {"self", "cls"}
                                inputs = {n.id for d in defs for n in ast.walk(d) if isinstance(n, ast.Name)} & hparams
                                key = cs.target.slice
                                whole = {n.id for n in ast.walk(key) if isinstance(n, ast.Name)
                                         and not isinstance(parent(n), ast.Attribute)}
                                memo.append((h, cs.node, cache, norm(key), sorted(inputs - whole)))
                    continue
                if not _filtered_value(g, val, memo, depth + 1, in_cache):
                    ok = False
            return ok
        return False

    ok_y = True
    memo: list = []
    memo_partial: list = []
    for y in yields:
        v = y.value
        var = ap(v.elts[1]) if isinstance(v, ast.Tuple) and len(v.elts) == 2 else None
        good = var is not None and any(_in_specs(e, pol, var) for e, pol in facts(y, yv.node))
        if not good and var is not None:
            # the variable iterates a sequence that a same-class helper (or a comprehension) already filtered
            from ..core import ancestors
            loops = [a for a in ancestors(y) if isinstance(a, ast.For) and var in {ap(x) for x in ast.walk(a.target)}]
            if loops:
                it = loops[0].iter
                if isinstance(it, ast.Call) and isinstance(it.func, ast.Attribute) and ap(it.func.value) in ("self", "cls") \
                        and yv.cls is not None:
                    g = repo.lookup_method(yv.cls, it.func.attr)
                    if g is not None:
                        rets = [n for n in walk(g.node) if isinstance(n, ast.Return) and n.value is not None]
                        gys = [n for n in walk(g.node) if isinstance(n, (ast.Yield, ast.YieldFrom))]
                        if gys:
                            # generator helper: every yielded variable is filtered; `yield from` only of filtered values
                            good = True
                            for gy in gys:
                                if isinstance(gy, ast.Yield):
                                    vn = ap(gy.value) if gy.value is not None else None
                                    good = good and vn is not None and any(_in_specs(e, pol, vn) for e, pol in facts(gy, g.node))
                                else:
                                    good = good and _filtered_value(g, gy.value, memo)
                            _generator_memo(ctx, g, memo_partial)
                        else:
                            good = bool(rets) and all(_filtered_value(g, r.value, memo) for r in rets)
                else:
                    good = _filtered_value(yv, it, memo)
        ok_y = ok_y and good
    ctx.ob("C12.R1", "_yield_vars selects exactly the variables whose type is in LLSDDataPacker.SPECS", ok_y, yv.where,
           "a yielded (block, tmpl_var) pair is not guarded by `tmpl_var.type in LLSDDataPacker.SPECS`")
    for h, node, what in memo_partial:
        ctx.ob("C12.R1", f"{h.qual}: memo entry {what} is complete before it becomes visible", False, ctx.w(h, node),
               "the list is stored in the memo table and then filled while the generator yields: a consumer that stops "
               "iterating (or an exception) leaves a truncated variable list cached for every later message")
    for h, node, cache, key, missing in memo:
        ctx.ob("C12.R1", f"{h.qual}: memo table {cache} is keyed by every input of the memoised variable list", not missing,
               ctx.w(h, node), f"key `{key}` is only a projection of {missing}: two different template blocks with the same "
               f"projection share one cached variable list (block names repeat across messages)")
    def _param_env(h: FuncInfo, c: ast.Call) -> Dict[str, ast.AST]:
        ps = [a.arg for a in h.node.args.args]
        if ps and ps[0] in ("self", "cls"):
            ps = ps[1:]
        env = {p_: a for p_, a in zip(ps, c.args) if not isinstance(a, ast.Starred)}
        env.update({k.arg: k.value for k in c.keywords if k.arg})
        return env

    for side, f, meth in (("serialize", ser, "pack"), ("deserialize", des, "unpack")):
        # the walk may sit in f itself or in a same-class helper f hands the dict (and the converter) to
        walks = [(f, n, {}, None) for n in walk(f.node) if isinstance(n, ast.For) and isinstance(n.iter, ast.Call)
                 and ap(n.iter.func) == "self._yield_vars"]
        if not walks and f.cls is not None:
            for c in calls(f.node):
                if isinstance(c.func, ast.Attribute) and ap(c.func.value) in ("self", "cls"):
                    h = repo.lookup_method(f.cls, c.func.attr)
                    if h is not None and h is not f:
                        for n in walk(h.node):
                            if isinstance(n, ast.For) and isinstance(n.iter, ast.Call) and ap(n.iter.func) == "self._yield_vars":
                                walks.append((h, n, _param_env(h, c), c))
        ctx.ob("C12.R1", f"{side} iterates self._yield_vars(...)", len(walks) == 1, f.where, f"found {len(walks)} loops")
        for host, lp, env, hcall in walks:
            def _res(e):
                return ap(env[e.id]) if isinstance(e, ast.Name) and e.id in env else ap(e)

            def _loc(e, host=host, lp=lp):
                """access path of e with single-assignment locals of the loop body expanded"""
                for _ in range(3):
                    if isinstance(e, ast.Name):
                        vs = [s_.value for s_ in stores(lp, into_defs=False) if s_.path == e.id and s_.kind == "assign"
                              and s_.value is not None]
                        if len(vs) == 1:
                            e = vs[0]
                            continue
                    break
                return ap(e)
            ok_t = isinstance(lp.target, ast.Tuple) and len(lp.target.elts) == 2
            blk, tv = (ap(lp.target.elts[0]), ap(lp.target.elts[1])) if ok_t else (None, None)
            def _converter(fe, host=host, meth=meth):
                """the callee is LLSDDataPacker.<meth>, or a two-parameter wrapper (method of the serializer class / module
                function) whose returns are `LLSDDataPacker.<meth>(<value param>, <type param>)` or the value param untouched"""
                if _res(fe) == f"LLSDDataPacker.{meth}":
                    return True
                tgt = env[fe.id] if isinstance(fe, ast.Name) and fe.id in env else fe
                w = None
                if isinstance(tgt, ast.Attribute) and host.cls is not None and \
                        ap(tgt.value) in ("self", "cls", host.cls.name):
                    w = repo.lookup_method(host.cls, tgt.attr)
                elif isinstance(tgt, ast.Name):
                    w = next((g_ for g_ in repo.funcs.get(tgt.id, []) if g_.module is host.module and g_.cls is None
                              and g_.parent_fn is None), None)
                if w is None or w is host:
                    return False
                wps = [a.arg for a in w.node.args.args if a.arg not in ("self", "cls")]
                if len(wps) != 2 or any(st_.path in wps for st_ in stores(w.node)):
                    return False
                wrets = [n_ for n_ in walk(w.node) if isinstance(n_, ast.Return)]
                conv = 0
                for r_ in wrets:
                    rv = r_.value
                    if isinstance(rv, ast.Name) and rv.id == wps[0]:
                        continue
                    if isinstance(rv, ast.Call) and ap(rv.func) == f"LLSDDataPacker.{meth}" and len(rv.args) == 2 \
                            and not rv.keywords and [ap(a) for a in rv.args] == wps:
                        conv += 1
                        continue
                    return False
                from ..core import always_exits
                return conv >= 1 and always_exits(w.node.body)
            cs = [c for c in calls(lp) if _converter(c.func)]
            ok = ok_t and len(cs) == 1 and len(cs[0].args) == 2 and ap(cs[0].args[1]) == f"{tv}.type"
            ctx.ob("C12.R1", f"{side} converts with LLSDDataPacker.{meth}(value, tmpl_var.type)", bool(ok), ctx.w(host, lp))
            if not ok:
                continue
            # value read from and written back to block[tmpl_var.name]
            st = [s for s in stores(lp, into_defs=False) if s.kind == "setitem" and s.path == blk
                  and _loc(s.target.slice) == f"{tv}.name"]
            val = cs[0].args[0]
            if isinstance(val, ast.Name):
                vs = [s.value for s in stores(lp, into_defs=False) if s.path == val.id and s.kind == "assign" and s.value is not None]
                val = vs[-1] if vs else val
            ok_rw = len(st) == 1 and any(x is cs[0] for x in ast.walk(st[0].value)) and isinstance(val, ast.Subscript) \
                and ap(val.value) == blk and _loc(val.slice) == f"{tv}.name"
            ctx.ob("C12.R1", f"{side} replaces block[tmpl_var.name] by its converted value", ok_rw, ctx.w(host, lp))
            # the walked dict is the one handed on
            arg = _res(lp.iter.args[0]) if lp.iter.args else None
            # what carries the converted dict in f: the walked object itself, and - when the helper returns the very
            # parameter it walked - the helper call and the names bound to it
            carriers = {arg}
            call_carries = False
            if hcall is not None and lp.iter.args and isinstance(lp.iter.args[0], ast.Name):
                hp = lp.iter.args[0].id
                hrets = [n.value for n in walk(host.node) if isinstance(n, ast.Return) and n.value is not None]
                if hrets and all(ap(r_) == hp for r_ in hrets) and not any(s_.path == hp for s_ in stores(host.node)):
                    call_carries = True
                    carriers |= {s_.path for s_ in stores(f.node, into_defs=False) if s_.kind == "assign" and s_.value is hcall}

            def _carried(e):
                return any(ap(x) in carriers for x in ast.walk(e)) or (call_carries and any(x is hcall for x in ast.walk(e)))
            if side == "serialize":
                outs = [n.value for n in walk(f.node) if isinstance(n, ast.Return) and n.value is not None]
                ok_o = bool(outs) and all(_carried(o) for o in outs)
            else:
                fd = find_calls(f.node, "from_dict")
                ok_o = len(fd) == 1 and fd[0].args and _carried(fd[0].args[0])
            ctx.ob("C12.R1", f"{side} hands on the dict it converted", bool(ok_o), ctx.w(f, lp))

    r1_alias(ctx, des)
    r1_to_dict_fresh(ctx, ser)


def _deep_fresh(ctx, f: FuncInfo, value: ast.AST, at: ast.AST, shared: Set[str], depth=0) -> Tuple[bool, str]:
    """Is `value` (assigned at statement `at`) an object sharing no mutable structure with `shared` names?"""
    repo = ctx.repo
    mentions = {n.id for n in ast.walk(value) if isinstance(n, ast.Name)} & shared
    if not mentions:
        return True, "does not mention the argument"
    if isinstance(value, ast.Call):
        fn = ap(value.func) or ""
        root = fn.split(".")[0]
        tgt = f.module.imports.get(root, "")
        full = (tgt + fn[len(root):]) if tgt else fn
        if full == "copy.deepcopy":
            return True, "copy.deepcopy"
        # receiver must not be shared (x.copy() / x.items() share structure)
        recv_names = {n.id for n in ast.walk(value.func) if isinstance(n, ast.Name)} & shared
        if not recv_names:
            immut = True
            for a in list(value.args) + [k.value for k in value.keywords]:
                for nm in {n.id for n in ast.walk(a) if isinstance(n, ast.Name)} & shared:
                    ok = any(pol and isinstance(e, ast.Call) and ap(e.func) == "isinstance" and len(e.args) == 2
                             and ap(e.args[0]) == nm and {ap(t) for t in (e.args[1].elts if isinstance(e.args[1], ast.Tuple)
                                                                           else [e.args[1]])} <= {"bytes", "str"}
                             for e, pol in facts(at, f.node))
                    immut = immut and ok
            if immut:
                return True, "built from an immutable (bytes/str) argument"
            # same-class helper all of whose returns are deep-fresh w.r.t. its own parameters
            if depth < 2 and isinstance(value.func, ast.Attribute) and isinstance(value.func.value, ast.Name) and \
                    value.func.value.id in ("self", "cls") and f.cls is not None:
                g = repo.lookup_method(f.cls, value.func.attr)
                if g is not None:
                    gparams = {a.arg for a in g.node.args.args[1:]}
                    grets = [n for n in walk(g.node) if isinstance(n, ast.Return) and n.value is not None]
                    if grets and all(_deep_fresh(ctx, g, r.value, r, gparams, depth + 1)[0] for r in grets) and \
                            not any(s.path in gparams for s in stores(g.node)):
                        return True, f"helper {g.qual} returns a deep copy"
    return False, f"`{norm(value)}` may share nested containers with the argument"


def _generator_memo(ctx, g: FuncInfo, out: list):
    """In generator g: a list stored into a self.<memo>[...] entry and appended to after a yield can be observed half built."""
    cfg = CFG(g.node)
    ys = [n for y in walk(g.node) if isinstance(y, (ast.Yield, ast.YieldFrom)) for n in cfg.stmt_nodes_containing(y)]
    for st in stores(g.node, into_defs=False):
        if st.kind == "setitem" and st.path.startswith("self.") and isinstance(st.node, ast.Assign):
            names = {t.id for t in st.node.targets if isinstance(t, ast.Name)}
            if isinstance(st.value, ast.Name):
                names.add(st.value.id)
            s_nodes = cfg.nodes_for(st.node)
            after_store = cfg.reachable(s_nodes, exc=False)
            for c in calls(g.node):
                if isinstance(c.func, ast.Attribute) and c.func.attr in ("append", "extend", "add") and ap(c.func.value) in names:
                    a_nodes = set(cfg.stmt_nodes_containing(c))
                    for y in ys:
                        if y in after_store and a_nodes & cfg.reachable([y], exc=False):
                            if not any(o[1] is st.node for o in out):
                                out.append((g, st.node, st.path))


def _comp_vars(fn_node, sources: Set[str]) -> Set[str]:
    """loop / comprehension variables iterating one of the source names (element variables)"""
    out: Set[str] = set()
    for n in walk(fn_node, into_defs=True):
        if isinstance(n, (ast.For, ast.comprehension)):
            if {x.id for x in ast.walk(n.iter) if isinstance(x, ast.Name)} & sources:
                out |= {x.id for x in ast.walk(n.target) if isinstance(x, ast.Name)}
    return out


def r1_to_dict_fresh(ctx, ser: FuncInfo):
    """serialize() converts the dict it gets from msg.to_dict() in place: every per-block dict in it has to be built by
    to_dict (a fresh dict), not an object that belongs to the message (block.vars)."""
    repo = ctx.repo
    src_calls = [c for c in calls(ser.node) if call_attr(c) == "to_dict" and isinstance(c.func, ast.Attribute)]
    ctx.floor("C12.R1", "to_dict() calls feeding LLSDMessageSerializer.serialize", len(src_calls), 1)
    td0 = repo.fn("Message.to_dict")
    from ..core import ancestors as _anc
    all_elems, bad = [], []
    for td in class_methods_reachable(repo, td0, depth=3):
        loops = [n for n in walk(td.node) if isinstance(n, (ast.For, ast.comprehension))
                 and any((ap(x) or "").endswith(".blocks") or (ap(x) or "") == "self.blocks" for x in ast.walk(n.iter))]
        block_vars: Set[str] = {x.id for lp in loops for x in ast.walk(lp.target) if isinstance(x, ast.Name)}
        grew = True
        while grew:
            grew = False
            for n in walk(td.node):
                if isinstance(n, (ast.For, ast.comprehension)) and \
                        {x.id for x in ast.walk(n.iter) if isinstance(x, ast.Name)} & block_vars:
                    for x in ast.walk(n.target):
                        if isinstance(x, ast.Name) and x.id not in block_vars:
                            block_vars.add(x.id)
                            grew = True
        if not block_vars:
            continue

        def fresh(e, depth=0, td=td) -> bool:
            if depth > 4:
                return False
            if isinstance(e, (ast.Dict, ast.DictComp)):
                return True
            if isinstance(e, ast.Call):
                fn = ap(e.func) or ""
                return fn in ("dict", "copy.copy", "copy.deepcopy", "OrderedDict") or fn.endswith(".copy") or fn.endswith(".to_dict")
            if isinstance(e, ast.Name):
                vals = [st.value for st in stores(td.node, into_defs=False) if st.path == e.id and st.kind == "assign"]
                return bool(vals) and all(v is not None and fresh(v, depth + 1) for v in vals)
            return False
        elems = []
        for n in walk(td.node):
            if isinstance(n, ast.Call) and isinstance(n.func, ast.Attribute) and n.func.attr == "append" and n.args and \
                    any(isinstance(a, ast.For) and ({x.id for x in ast.walk(a.iter) if isinstance(x, ast.Name)} & block_vars or a in loops)
                        for a in _anc(n)):
                elems.append(n.args[0])
            elif isinstance(n, (ast.ListComp, ast.GeneratorExp)) and any(
                    {x.id for x in ast.walk(g_.iter) if isinstance(x, ast.Name)} & block_vars for g_ in n.generators):
                elems.append(n.elt)
        elems = [e for e in elems if {x.id for x in ast.walk(e) if isinstance(x, ast.Name)} & block_vars or isinstance(e, ast.Name)]
        all_elems.extend(elems)
        bad.extend(e for e in elems if not fresh(e))
    td = td0
    elems = all_elems
    ctx.floor("C12.R1", "per-block elements Message.to_dict puts into the body", len(elems), 1)
    ctx.ob("C12.R1", "Message.to_dict builds a private dict per block (serialize converts its values in place)", not bad, td.where,
           "" if not bad else f"`{norm(bad[0])}` is an object of the message itself: LLSDMessageSerializer.serialize overwrites "
           f"block[tmpl_var.name] in the dict it got, i.e. in the message - a second serialize() packs already packed values")


def _derived_names(fn_node, roots: Set[str]) -> Dict[str, ast.AST]:
    """names bound (for-targets / assignments) from expressions mentioning a root or another derived name"""
    derived: Dict[str, ast.AST] = {}
    changed = True
    while changed:
        changed = False
        for n in walk(fn_node):
            binds = []
            if isinstance(n, ast.For):
                binds = [(n.target, n.iter, n)]
            elif isinstance(n, ast.Assign):
                binds = [(t, n.value, n) for t in n.targets]
            for tgt, val, stmt in binds:
                srcn = {x.id for x in ast.walk(val) if isinstance(x, ast.Name)}
                if srcn & (roots | set(derived)):
                    for x in ast.walk(tgt):
                        if isinstance(x, ast.Name) and x.id not in roots and x.id not in derived:
                            derived[x.id] = stmt
                            changed = True
    return derived


def _mutating_stores(fn_node, roots: Set[str], derived: Dict[str, ast.AST]):
    out = []
    for s in stores(fn_node, into_defs=False):
        root = s.path.split(".")[0].replace("[]", "")
        if s.kind in ("setitem", "augsetitem", "delitem", "mutcall") or (s.kind in ("assign", "augassign") and "." in s.path):
            if root in derived or root in roots:
                out.append((s, root))
    return out


def _mutated_params(repo, h: FuncInfo, depth=0) -> Set[str]:
    """Parameters of helper h into whose (transitively reachable) objects h stores."""
    ps = {a.arg for a in h.node.args.args} - {"self", "cls"}
    out = set()
    for p_ in ps:
        d = _derived_names(h.node, {p_})
        if _mutating_stores(h.node, {p_}, d):
            out.add(p_)
    return out


def r1_alias(ctx, des: FuncInfo):
    """deserialize(llsd_val): every store into an object obtained from the parameter - in deserialize itself or in a
    same-class helper the object is handed to - must be preceded, on every path, by rebinding the parameter to a
    deep copy / fresh parse."""
    repo = ctx.repo
    params = [a.arg for a in des.node.args.args if a.arg not in ("self", "cls")]
    ctx.require(len(params) >= 1, "LLSDMessageSerializer.deserialize lost its parameter")
    P = params[0]
    cfg = CFG(des.node)
    derived = _derived_names(des.node, {P})
    defs = [s for s in stores(des.node, into_defs=False) if s.path == P and s.kind == "assign"]
    def_nodes = {}
    for s in defs:
        for cn in cfg.nodes_for(s.node):
            def_nodes[cn] = s
    # (origin statement, construct text, where-node)
    sites = []
    for s, root in _mutating_stores(des.node, {P}, derived):
        origin = derived[root] if root in derived else (s.node if isinstance(s.node, ast.stmt) else enclosing_stmt(s.node))
        sites.append((origin, f"store `{norm(s.target)}`", s.node))
    if des.cls is not None:
        for c in calls(des.node):
            if isinstance(c.func, ast.Attribute) and ap(c.func.value) in ("self", "cls"):
                h = repo.lookup_method(des.cls, c.func.attr)
                if h is None or h is des:
                    continue
                hp = [a.arg for a in h.node.args.args]
                hp = hp[1:] if hp and hp[0] in ("self", "cls") else hp
                bound = dict(zip(hp, c.args))
                bound.update({k.arg: k.value for k in c.keywords if k.arg})
                for p_ in _mutated_params(repo, h):
                    a = bound.get(p_)
                    if a is not None and {x.id for x in ast.walk(a) if isinstance(x, ast.Name)} & ({P} | set(derived)):
                        root = next(x.id for x in ast.walk(a) if isinstance(x, ast.Name) and x.id in ({P} | set(derived)))
                        origin = derived[root] if root in derived else enclosing_stmt(c)
                        sites.append((origin, f"{h.name}() stores into its argument `{norm(a)}`", c))
    ctx.floor("C12.R1", "stores into the converted LLSD structure in deserialize", len(sites), 1)
    for origin, what, where_node in sites:
        o_nodes = cfg.nodes_for(origin)
        ctx.require(bool(o_nodes), "C12.R1 aliasing: binding statement not in the CFG")
        problems = []
        # reaching definitions of P at the origin
        for start, d in [(cfg.entry, None)] + [(cn, d) for cn, d in def_nodes.items()]:
            reach = cfg.reachable([start], avoid=lambda n: n in def_nodes and n is not start)
            if not any(o in reach for o in o_nodes):
                continue
            if d is None:
                problems.append(f"the caller's object itself reaches `{norm(origin)[:60]}` (parameter never rebound on some path)")
            else:
                ok, why = _deep_fresh(ctx, des, d.value, d.node, {P} | set(derived))
                if not ok:
                    problems.append(why)
        inst = f"LLSDMessageSerializer.deserialize: {what} reaches only a private copy of `{P}`"
        ctx.ob("C12.R1", inst, not problems, ctx.w(des, where_node),
               "" if not problems else "deserialize writes converted values into the caller's LLSD form: " + "; ".join(problems))


# =========================================================================== R2

def _chain(fn_node) -> List[Tuple[Optional[ast.AST], List[ast.stmt]]]:
    """The top-level if/elif/else chain of a function body as [(test | None, body)]."""
    top = [s for s in fn_node.body if isinstance(s, ast.If)]
    if len(top) != 1:
        raise AnalysisError(f"expected one top-level if/elif chain in {fn_node.name}, found {len(top)}")
    out = []
    cur = top[0]
    while True:
        out.append((cur.test, cur.body))
        if len(cur.orelse) == 1 and isinstance(cur.orelse[0], ast.If):
            cur = cur.orelse[0]
        else:
            if cur.orelse:
                out.append((None, cur.orelse))
            break
    return out


def _norm_fmt(f: str) -> str:
    return ("!" + f[1:]) if f[:1] == ">" else f


def _pack_fmt(n: ast.Call, consts: Optional[Dict[str, str]]) -> Optional[str]:
    """struct format of `struct.pack(<fmt>, ...)` or `<precompiled Struct constant>.pack(...)`"""
    if ap(n.func) == "struct.pack" and n.args and isinstance(n.args[0], ast.Constant) and isinstance(n.args[0].value, str):
        return n.args[0].value
    if isinstance(n.func, ast.Attribute) and n.func.attr == "pack" and consts and ap(n.func.value) in consts:
        return consts[ap(n.func.value)]
    return None


def _emissions(stmts, consts: Optional[Dict[str, str]] = None) -> Tuple[Set[bytes], Set[str], List[Tuple[ast.AST, ast.AST, ast.AST]]]:
    """(1-byte tags emitted, struct formats packed, length-prefix triples (pack call, len arg, payload expr))."""
    tags: Set[bytes] = set()
    fmts: Set[str] = set()
    prefixes = []
    holder = ast.Module(body=list(stmts), type_ignores=[])
    for n in walk(holder, into_defs=False):
        if isinstance(n, ast.Constant) and isinstance(n.value, bytes) and len(n.value) == 1:
            p = parent(n)
            leftmost = isinstance(p, ast.BinOp) and isinstance(p.op, ast.Add) and p.left is n
            whole = isinstance(p, (ast.Return, ast.List, ast.Tuple)) or (isinstance(p, ast.Call) and call_attr(p) in ("append", "write")
                                                              and any(a is n for a in p.args))
            if leftmost or whole:
                tags.add(n.value)
        if isinstance(n, ast.Call) and _pack_fmt(n, consts) is not None:
            fmts.add(_norm_fmt(_pack_fmt(n, consts)))
            vargs = n.args[1:] if ap(n.func) == "struct.pack" else n.args
            if len(vargs) == 1 and isinstance(vargs[0], ast.Call) and ap(vargs[0].func) == "len" and vargs[0].args:
                # header = the `+` chain that ends with this pack call; payload = what is added to the header,
                # in the same expression or after the header was bound to a local name
                top = n
                while isinstance(parent(top), ast.BinOp) and isinstance(parent(top).op, ast.Add) and parent(top).right is top:
                    top = parent(top)
                payload = None
                pp = parent(top)
                if isinstance(pp, ast.BinOp) and isinstance(pp.op, ast.Add) and pp.left is top:
                    payload = pp.right
                elif isinstance(pp, ast.Assign) and len(pp.targets) == 1 and isinstance(pp.targets[0], ast.Name):
                    hname = pp.targets[0].id
                    for u in walk(holder, into_defs=False):
                        if isinstance(u, ast.BinOp) and isinstance(u.op, ast.Add) and isinstance(u.left, ast.Name) \
                                and u.left.id == hname:
                            payload = u.right
                if payload is not None:
                    prefixes.append((n, vargs[0].args[0], payload))
    return tags, fmts, prefixes


class ParserModel:
    """Dispatch table of HippoLLSDBinaryParser = third-party LLSDBinaryParser.__init__ + Hippo overrides."""

    def __init__(self, ctx, tp: ThirdParty):
        repo = ctx.repo
        self.ctx = ctx
        self.hippo = repo.cls("HippoLLSDBinaryParser", LLSD)
        base = self.hippo.base_names[0] if self.hippo.base_names else ""
        ctx.require(base.endswith("serde_binary.LLSDBinaryParser") or base.endswith("LLSDBinaryParser"),
                    f"HippoLLSDBinaryParser base is {base!r}: re-read C12.R2")
        root = base.split(".")[0]
        tgt = self.hippo.module.imports.get(root, "")
        ctx.require(tgt == "llsd" or tgt.startswith("llsd."), f"HippoLLSDBinaryParser base {base!r} is not the third-party llsd parser")
        self.tp = tp
        self.tp_classes: List[ast.ClassDef] = []
        r = tp.lookup("llsd.serde_binary", "LLSDBinaryParser")
        ctx.require(r is not None and r[0] == "class", "third-party llsd.serde_binary.LLSDBinaryParser not found")
        cur, curmod = r[2], r[1]
        seen = 0
        while cur is not None and seen < 5:
            self.tp_classes.append((curmod, cur))
            nxt = None
            for b in cur.bases:
                if isinstance(b, ast.Name):
                    rr = tp.lookup(curmod, b.id)
                    if rr and rr[0] == "class":
                        nxt = (rr[1], rr[2])
            cur, curmod = (nxt[1], nxt[0]) if nxt else (None, None)
            seen += 1
        self.dispatch: Dict[bytes, Tuple[str, ast.AST]] = {}
        init = self._tp_method("__init__")
        ctx.require(init is not None, "third-party LLSDBinaryParser.__init__ not found")
        for n in ast.walk(init[1]):
            if isinstance(n, ast.Assign) and isinstance(n.value, ast.Dict) and n.value.keys and \
                    all(isinstance(k, ast.Constant) and isinstance(k.value, bytes) for k in n.value.keys):
                for k, v in zip(n.value.keys, n.value.values):
                    self.dispatch[k.value] = ("third-party", v)
        ctx.floor("C12.R2", "third-party binary dispatch entries", len(self.dispatch), 12)
        self.overrides: Set[bytes] = set()
        hinit = self.hippo.methods.get("__init__")
        if hinit is not None:
            for st in stores(hinit.node, into_defs=False):
                if st.kind == "setitem" and st.path == "self._dispatch" and isinstance(st.target, ast.Subscript):
                    for env in self._loop_rows(st.node, hinit.node):
                        sl = self._subst(st.target.slice, env)
                        val = self._subst(st.value, env)
                        key = None
                        arg = self._subst(sl.args[0], env) if isinstance(sl, ast.Call) and ap(sl.func) == "ord" and sl.args else None
                        if isinstance(arg, ast.Constant) and isinstance(arg.value, (str, bytes)) and len(arg.value) == 1:
                            v = arg.value
                            key = v.encode("latin-1") if isinstance(v, str) else v
                        elif isinstance(sl, ast.Constant) and isinstance(sl.value, int):
                            key = bytes([sl.value])
                        ctx.require(key is not None, f"unsupported dispatch override key {norm(st.target.slice)}")
                        self.dispatch[key] = ("hippo", val)
                        self.overrides.add(key)
        # structural tokens compared by the container parsers
        self.structural: Set[bytes] = set()
        for nm in ("_parse_map", "_parse_array"):
            m = self.method(nm)
            ctx.require(m is not None, f"parser method {nm} not found")
            for n in ast.walk(m[1]):
                if isinstance(n, ast.Compare):
                    for x in ast.walk(n):
                        if isinstance(x, ast.Constant) and isinstance(x.value, bytes) and len(x.value) == 1:
                            self.structural.add(x.value)

    @staticmethod
    def _subst(e, env):
        return env.get(e.id, e) if isinstance(e, ast.Name) else e

    @staticmethod
    def _loop_rows(stmt, fn_node) -> List[Dict[str, ast.AST]]:
        """Bindings of the loop variables for a statement inside `for a, b in (<literal rows>)`; [{}] outside loops."""
        from ..core import ancestors
        rows: List[Dict[str, ast.AST]] = [{}]
        for loop in [a for a in ancestors(stmt) if isinstance(a, ast.For)]:
            if not isinstance(loop.iter, (ast.Tuple, ast.List)):
                raise AnalysisError(f"dispatch override inside a loop over a non-literal sequence: {norm(loop.iter)}")
            new_rows = []
            for row in loop.iter.elts:
                env: Dict[str, ast.AST] = {}
                if isinstance(loop.target, ast.Name):
                    env[loop.target.id] = row
                elif isinstance(loop.target, ast.Tuple) and isinstance(row, (ast.Tuple, ast.List)) \
                        and len(row.elts) == len(loop.target.elts) and all(isinstance(t, ast.Name) for t in loop.target.elts):
                    env = {t.id: v for t, v in zip(loop.target.elts, row.elts)}
                else:
                    raise AnalysisError(f"unsupported loop target over dispatch rows: {norm(loop.target)}")
                new_rows.extend({**r, **env} for r in rows)
            rows = new_rows
        return rows

    def handler_ctor(self, tag) -> Tuple[str, List[ast.AST]]:
        """(origin, callee names of the constructor calls the handler returns) for lambda / method handlers."""
        origin, h = self.dispatch[tag]
        vals = []
        if isinstance(h, ast.Lambda):
            vals = [h.body]
        elif isinstance(h, ast.Attribute) and ap(h.value) == "self":
            m = self.method(h.attr)
            if m is not None:
                origin = "hippo" if m[0] == "hippo" else "third-party"
                vals = [n.value for n in ast.walk(m[1]) if isinstance(n, ast.Return) and n.value is not None]
        ctors = [v.func for v in vals if isinstance(v, ast.Call) and isinstance(v.func, ast.Name)]
        return origin, (ctors if vals and len(ctors) == len(vals) else [])

    def _tp_method(self, name):
        for modname, c in self.tp_classes:
            for st in c.body:
                if isinstance(st, FUNC_TYPES) and st.name == name:
                    return (modname, st)
        return None

    def method(self, name):
        """('hippo'|modname, FunctionDef) following Hippo overrides first."""
        if name in self.hippo.methods:
            return ("hippo", self.hippo.methods[name].node)
        return self._tp_method(name)

    def handler_closure(self, tag: bytes) -> List[Tuple[str, ast.AST]]:
        origin, h = self.dispatch[tag]
        nodes: List[Tuple[str, ast.AST]] = []
        seen: Set[str] = set()
        work = []
        if isinstance(h, ast.Lambda):
            nodes.append((origin, h))
            work.append(h)
        elif isinstance(h, ast.Attribute) and ap(h.value) == "self":
            m = self.method(h.attr)
            self.ctx.require(m is not None, f"dispatch handler self.{h.attr} not found")
            nodes.append(m)
            work.append(m[1])
            seen.add(h.attr)
        else:
            raise AnalysisError(f"unsupported dispatch handler {norm(h)} for tag {tag!r}")
        while work:
            n = work.pop()
            for c in ast.walk(n):
                if isinstance(c, ast.Call) and isinstance(c.func, ast.Attribute) and ap(c.func.value) == "self":
                    nm = c.func.attr
                    if nm in ("_parse", "_error", "_getc", "_peek") or nm in seen:
                        continue
                    seen.add(nm)
                    m = self.method(nm)
                    if m is not None:
                        nodes.append(m)
                        work.append(m[1])
        return nodes

    def handler_formats(self, tag) -> Tuple[Set[str], List[Tuple[str, int, ast.AST]], Set[int]]:
        fmts, pairs, getcs = set(), [], set()
        for origin, n in self.handler_closure(tag):
            for c in ast.walk(n):
                if isinstance(c, ast.Call) and ap(c.func) == "struct.unpack" and c.args and isinstance(c.args[0], ast.Constant):
                    f = _norm_fmt(c.args[0].value)
                    fmts.add(f)
                    if len(c.args) > 1 and isinstance(c.args[1], ast.Call) and ap(c.args[1].func) == "self._getc" and \
                            c.args[1].args and isinstance(c.args[1].args[0], ast.Constant):
                        pairs.append((f, c.args[1].args[0].value, c))
                elif isinstance(c, ast.Call) and ap(c.func) == "self._getc" and c.args and isinstance(c.args[0], ast.Constant):
                    getcs.add(c.args[0].value)
        return fmts, pairs, getcs


def _tp_predicate_types(tw: TypeWorld, tp: ThirdParty, mod, name: str) -> Optional[Set[str]]:
    """Types accepted by a third-party predicate `def p(o): return isinstance(o, T)` imported into `mod`."""
    tgt = mod.imports.get(name)
    if not tgt:
        return None
    modname, _, attr = tgt.rpartition(".")
    if not modname.startswith("llsd"):
        return None
    r = tp.lookup(modname, attr)
    if not r or r[0] != "func":
        return None
    rets = [n for n in ast.walk(r[2]) if isinstance(n, ast.Return)]
    if len(rets) != 1 or not (isinstance(rets[0].value, ast.Call) and ap(rets[0].value.func) == "isinstance"
                              and len(rets[0].value.args) == 2):
        return None
    return tw.tp_types(r[1], rets[0].value.args[1])


def r2(ctx):
    repo = ctx.repo
    ctx.rule("C12.R2", "binary tags emitted by _format_binary_recurse are dispatched by the parser with the same struct "
                       "formats; length prefixes measure the bytes that follow; no type branch is shadowed by an earlier "
                       "branch for a supertype")
    tp = ThirdParty()
    tw = TypeWorld(repo, tp)
    wf = repo.fn("_format_binary_recurse", LLSD)
    mod = wf.module
    pm = ParserModel(ctx, tp)
    params = [a.arg for a in wf.node.args.args]
    subj = params[0]
    chain = _chain(wf.node)
    ctx.floor("C12.R2", "branches of the binary formatter's type dispatch", len(chain), 12)
    # helpers: nested defs and same-module functions called from a branch (followed transitively)
    helper_defs: Dict[str, ast.AST] = {d.name: d for d in wf.node.body if isinstance(d, FUNC_TYPES)}
    for g in repo.all_funcs:
        if g.module is mod and g.cls is None and g.parent_fn is None and g is not wf and g.name not in helper_defs:
            helper_defs[g.name] = g.node
    _em_cache: Dict[str, tuple] = {}
    # precompiled struct.Struct constants of the module
    sconsts: Dict[str, str] = {}
    for st_ in mod.tree.body:
        if isinstance(st_, ast.Assign) and isinstance(st_.value, ast.Call) and ap(st_.value.func) == "struct.Struct" \
                and st_.value.args and isinstance(st_.value.args[0], ast.Constant):
            for t_ in st_.targets:
                if isinstance(t_, ast.Name):
                    sconsts[t_.id] = st_.value.args[0].value

    def tag_params(name) -> List[int]:
        """positions of helper parameters that are written as the leading tag byte"""
        d = helper_defs[name]
        ps = [a.arg for a in d.args.args]
        out = []
        for n_ in walk(d, into_defs=False):
            if isinstance(n_, ast.Name) and n_.id in ps and isinstance(n_.ctx, ast.Load):
                p_ = parent(n_)
                if (isinstance(p_, ast.BinOp) and isinstance(p_.op, ast.Add) and p_.left is n_
                        and not isinstance(parent(p_), ast.BinOp)) or \
                        (isinstance(p_, ast.BinOp) and isinstance(p_.op, ast.Add) and p_.left is n_ and
                         isinstance(parent(p_), ast.BinOp) and parent(p_).left is p_):
                    # leftmost operand of the chain
                    top = p_
                    while isinstance(parent(top), ast.BinOp) and parent(top).left is top:
                        top = parent(top)
                    leftmost = top
                    while isinstance(leftmost, ast.BinOp):
                        leftmost = leftmost.left
                    if leftmost is n_ and ps.index(n_.id) not in out:
                        out.append(ps.index(n_.id))
        return out

    def call_tags(c: ast.Call) -> Set[bytes]:
        out: Set[bytes] = set()
        if isinstance(c.func, ast.Name) and c.func.id in helper_defs:
            for i in tag_params(c.func.id):
                if i < len(c.args) and isinstance(c.args[i], ast.Constant) and isinstance(c.args[i].value, bytes) \
                        and len(c.args[i].value) == 1:
                    out.add(c.args[i].value)
        return out

    def helper_emissions(name, seen=()):
        if name in _em_cache:
            return _em_cache[name]
        d = helper_defs[name]
        t, f, pfx = _emissions(d.body, sconsts)
        for c in calls(d):
            t = t | call_tags(c)
        for c in calls(d):
            if isinstance(c.func, ast.Name) and c.func.id in helper_defs and c.func.id not in seen and c.func.id != name:
                t2, f2, p2 = helper_emissions(c.func.id, seen + (name,))
                t, f, pfx = t | t2, f | f2, pfx + p2
        _em_cache[name] = (t, f, pfx)
        return _em_cache[name]

    branches = []       # (label, types, test, body)
    for test, body in chain:
        types: Optional[Set[str]] = None
        label = "else"
        if test is not None:
            label = norm(test)
            if isinstance(test, ast.Compare) and len(test.ops) == 1 and isinstance(test.ops[0], ast.Is) and \
                    isinstance(test.comparators[0], ast.Constant) and test.comparators[0].value is None and ap(test.left) == subj:
                types = {"builtins.NoneType"}
            elif isinstance(test, ast.Call) and ap(test.func) == "isinstance" and len(test.args) == 2 and ap(test.args[0]) == subj:
                types = tw.repo_types(mod, test.args[1])
                ctx.require(bool(types), f"C12.R2: cannot resolve the type in `{label}`")
            elif isinstance(test, ast.Call) and len(test.args) == 1 and ap(test.args[0]) == subj and isinstance(test.func, ast.Name):
                types = _tp_predicate_types(tw, tp, mod, test.func.id)
                ctx.require(types is not None and bool(types), f"C12.R2: cannot resolve the type predicate `{label}`")
            else:
                ctx.note(f"C12.R2: branch `{label}` of _format_binary_recurse is not a type test; not part of the shadowing check")
        if types:
            # construct key by accepted types (stable under renaming of the parameter / predicate aliasing)
            label = "|".join(sorted(t.replace("builtins.", "").replace("repo:", "").split("::")[-1] for t in types
                                    if not t.startswith("future.")))
        branches.append((label, types, test, body))
    labels = [b[0] for b in branches]
    for i, lb in enumerate(labels):
        if labels.count(lb) > 1:
            k = labels[:i].count(lb) + 1
            branches[i] = (f"{lb} #{k}",) + branches[i][1:]
    typed = [b for b in branches if b[1]]
    ctx.floor("C12.R2", "typed branches", len(typed), 10)

    # ---- shadowing
    shadowed: Set[str] = set()
    for j, (label, types, test, body) in enumerate(branches):
        if not types:
            continue
        culprit = None
        for i in range(j):
            li, ti = branches[i][0], branches[i][1]
            if not ti:
                continue
            # branch j is dead for type t if an earlier branch accepts a supertype of t
            dead = [t for t in types if any(tw.is_subtype(t, u) for u in ti)]
            if dead and len(dead) == len(types):
                culprit = (li, dead)
                break
        if culprit:
            shadowed.add(label)
        ctx.ob("C12.R2", f"_format_binary_recurse: branch for {label} is reachable (not shadowed by an earlier supertype branch)",
               culprit is None, ctx.w(wf, test),
               "" if culprit is None else
               f"every value of {sorted(culprit[1])} is already taken by the earlier branch for {culprit[0]}: this branch "
               f"(`{norm(test)}`) is dead code, so its LLSD type tag is never written and the value comes back as the "
               f"earlier branch's LLSD type")

    # ---- tags, formats, length prefixes
    n_tags = 0
    for label, types, test, body in branches:
        tags, fmts, prefixes = _emissions(body, sconsts)
        for c in calls(ast.Module(body=list(body), type_ignores=[])):
            tags = tags | call_tags(c)
            if isinstance(c.func, ast.Name) and c.func.id in helper_defs:
                t2, f2, p2 = helper_emissions(c.func.id)
                tags, fmts, prefixes = tags | t2, fmts | f2, prefixes + p2
        dead = label in shadowed
        for tag in sorted(tags):
            n_tags += 1
            where = ctx.w(wf, test if test is not None else body[0])
            known = tag in pm.dispatch or tag in pm.structural
            ctx.ob("C12.R2", f"tag {tag!r} (branch `{label}`) is understood by the parser", known, where,
                   "neither in the parser's dispatch table nor a container delimiter it tests for")
            if tag not in pm.dispatch:
                continue
            pf, pairs, getcs = pm.handler_formats(tag)
            origin = pm.dispatch[tag][0]
            if fmts or pf:
                ctx.ob("C12.R2", f"tag {tag!r} (branch `{label}`): struct formats agree with the {origin} handler",
                       fmts == pf, where, f"writer packs {sorted(fmts)}, parser unpacks {sorted(pf)}")
            for f, n, c in pairs:
                if origin == "hippo":
                    ctx.ob("C12.R2", f"tag {tag!r}: parser reads calcsize({f!r}) bytes", struct.calcsize(f) == n, f"{LLSD}:{c.lineno}",
                           f"reads {n} bytes for format {f!r} ({struct.calcsize(f)} bytes)")
            # raw 16-byte payloads (UUID.bytes)
            raw_bytes = [n for n in walk(ast.Module(body=list(body), type_ignores=[])) if isinstance(n, ast.Attribute)
                         and n.attr == "bytes" and ap(n.value) == subj]
            if raw_bytes and not fmts:
                ctx.ob("C12.R2", f"tag {tag!r} (branch `{label}`): 16 raw UUID bytes are what the parser consumes", getcs == {16}, where,
                       f"parser handler consumes {sorted(getcs)} bytes")
            # 'same LLSD type': a wrapper class written under its own tag is rebuilt as that class
            h_origin, ctors = pm.handler_ctor(tag)
            if ctors and types and not any(t.startswith("builtins.") for t in types):
                built: Set[str] = set()
                for fn_name in ctors:
                    built |= tw.repo_types(mod, fn_name) if h_origin == "hippo" else tw.tp_types("llsd.serde_binary", fn_name)
                okb = bool(built) and all(any(tw.is_subtype(b, t) for t in types) for b in built)
                ctx.ob("C12.R2", f"tag {tag!r} (branch `{label}`): parser rebuilds the class the branch accepts", okb, where,
                       f"branch accepts {sorted(types)}, handler builds {sorted(built)}")
        for pack_call, len_arg, payload in prefixes:
            same = ap(len_arg) is not None and ap(len_arg) == ap(payload)
            def _k(e):
                class _R(ast.NodeTransformer):
                    def visit_Name(self, node):
                        return ast.Name(id="<value>", ctx=node.ctx) if node.id == subj else node
                return norm(_R().visit(ast.parse(ast.unparse(e), mode="eval").body))
            inst = f"_format_binary_recurse: branch `{label}`: length prefix len({_k(len_arg)}) measures the payload `{_k(payload)}`"
            if same or not dead:
                ctx.ob("C12.R2", inst, same, ctx.w(wf, pack_call),
                       "" if same else "the prefix counts something other than the bytes written after it (e.g. characters of a "
                       "str whose UTF-8 encoding follows): the parser reads the prefix as a byte count")
            else:
                ctx.note(f"C12.R2: {inst}: does NOT hold, but the branch is dead code today (shadowed); it becomes a "
                         f"live defect for non-ASCII values as soon as the branch order is fixed")
    ctx.floor("C12.R2", "tags emitted by the binary formatter", n_tags, 14)
    # memo tables of the formatter module: a cached wire form that depends on the *type* of the key (isinstance test of a
    # str / int subclass) cannot be keyed by the value alone - dict lookup conflates `uri('x')` with `'x'`, True with 1
    CONFLATING = {"builtins.str", "builtins.int", "builtins.float", "builtins.bytes", "builtins.tuple", "builtins.frozenset"}
    for g in repo.all_funcs:
        if g.module is not mod or g.cls is not None or g.parent_fn is not None:
            continue
        gps = [a.arg for a in g.node.args.args]
        reads = [c for c in calls(g.node) if isinstance(c.func, ast.Attribute) and c.func.attr == "get" and c.args
                 and isinstance(c.args[0], ast.Name) and c.args[0].id in gps and isinstance(c.func.value, ast.Name)
                 and isinstance(repo.module_assign(mod, c.func.value.id), (ast.Dict, ast.Call))]
        reads += [n_ for n_ in walk(g.node) if isinstance(n_, ast.Subscript) and isinstance(n_.ctx, ast.Load)
                  and isinstance(n_.value, ast.Name) and isinstance(n_.slice, ast.Name) and n_.slice.id in gps
                  and isinstance(repo.module_assign(mod, n_.value.id), (ast.Dict,))]
        for rd in reads:
            keyp = rd.args[0].id if isinstance(rd, ast.Call) else rd.slice.id
            tests = [c for c in calls(g.node) if ap(c.func) == "isinstance" and len(c.args) == 2 and ap(c.args[0]) == keyp]
            culprit = None
            for t in tests:
                for ty in tw.repo_types(mod, t.args[1]):
                    sup = tw.supers(ty) - {ty}
                    if sup & CONFLATING or ty in ("builtins.bool",):
                        culprit = (t, ty)
            cache = rd.func.value.id if isinstance(rd, ast.Call) else rd.value.id
            ctx.ob("C12.R2", f"{g.qual}: memo {cache} keyed by `{keyp}` does not depend on the key's subclass", culprit is None,
                   ctx.w(g, rd), "" if culprit is None else
                   f"the cached bytes depend on `{norm(culprit[0])}` but `{culprit[1]}` instances hash and compare equal to plain "
                   f"values of their base type: whichever is formatted first decides the tag for both")
    # stream-backed subclasses (own _getc): the base _parse_array steps over the closing token with index arithmetic that
    # means nothing on a stream, so the subclass must read that one byte itself on every normal path
    base_arr = pm._tp_method("_parse_array")
    steps_index = base_arr is not None and any(isinstance(n, ast.AugAssign) and ap(n.target) == "self._index"
                                               for n in ast.walk(base_arr[1]))
    n_stream = 0
    for k in repo.subclasses(pm.hippo, strict=True):
        if "_getc" not in k.methods or not steps_index:
            continue
        n_stream += 1
        m = k.methods.get("_parse_array")
        if m is None:
            ctx.ob("C12.R2", f"{k.name}: stream-backed parser consumes the array close token", False, ctx.w(k.module, k.node),
                   "overrides _getc but inherits _parse_array, whose `self._index += 1` does not advance the stream")
            continue
        cfg = CFG(m.node)
        one_byte = []
        for c in calls(m.node):
            if ap(c.func) == "self._getc" and (not c.args and not c.keywords or len(c.args) == 1 and
                                                isinstance(c.args[0], ast.Constant) and c.args[0].value == 1):
                one_byte.extend(cfg.stmt_nodes_containing(c))
        escapes = cfg.exit in cfg.reachable([cfg.entry], avoid=lambda n: n in one_byte, exc=False)
        ctx.ob("C12.R2", f"{k.name}._parse_array reads the one-byte close token on every normal path", bool(one_byte) and not escapes,
               m.where, "a path returns without consuming the `]` the formatter always writes: the next token is read from it "
               "(empty arrays / early returns)")
    ctx.floor("C12.R2", "stream-backed binary parser subclasses", n_stream, 1)
    # map keys: tag written for keys is accepted by _parse_map
    # (covered by the structural set: b'k')


# =========================================================================== R3

def r3(ctx):
    repo = ctx.repo
    ctx.rule("C12.R3", "LLSD date codecs never consult the process time zone (tzlint: naive fromtimestamp/timestamp/"
                       "astimezone, time.mktime/localtime)")
    # the LLSD codec may be split over modules: follow the binary writer and parser to wherever they live
    wf = repo.fn("_format_binary_recurse", LLSD)
    pcls = repo.cls("HippoLLSDBinaryParser", LLSD)
    codec = [LLSD] + [m for m in (wf.module.rel, pcls.module.rel) if m != LLSD]
    rels = list(dict.fromkeys(codec + [LEGACY, MSGSER, PACK]))
    sites = tzlint.tz_sites(repo, rels)
    in_llsd = [s for s in sites if (s[0].module.rel if s[0] is not None else "") in codec]
    ctx.floor("C12.R3", "date conversion sites in the LLSD codec modules", len(in_llsd), 2)
    counts: Dict[str, int] = {}
    for fi, node, kind, ok, msg in sites:
        key = tzlint.site_key(fi, node, kind)
        counts[key] = counts.get(key, 0) + 1
        if counts[key] > 1:
            key += f" #{counts[key]}"
        mod = fi.module if fi is not None else repo.module(rels[0])
        ctx.ob("C12.R3", key, ok, ctx.w(mod, node), msg)
    # the binary date writer must have a datetime branch that converts through one of the checked sites
    conv = [s for s in in_llsd if s[0] is not None and s[0].qual == wf.qual]
    ctx.ob("C12.R3", "_format_binary_recurse converts dates through lint-visible calls", len(conv) >= 2, wf.where,
           f"found {len(conv)} conversion sites (datetime and date branches)")


# =========================================================================== R4

def r4(ctx):
    repo = ctx.repo
    ctx.rule("C12.R4", "every notation formatting path goes through hippolyzer.lib.base.llsd.format_notation, whose "
                       "formatter's STRING override replaces raw newlines in the base formatter's output")
    HIPPO_LLSD = "hippolyzer.lib.base.llsd"
    lmod = repo.module(LLSD)
    # (a) call sites
    n_sites = 0
    for f in repo.all_funcs:
        if f.parent_fn is not None:
            continue
        for c in calls(f.node, into_defs=True):
            name = call_attr(c)
            if name not in ("format_notation", "as_notation"):
                continue
            if f.module is lmod and f.qual == "format_notation":
                continue
            n_sites += 1
            fn = c.func
            ok, why = False, ""
            if name == "as_notation":
                why = "LLSD.as_notation is the third-party formatter (no newline escaping)"
            elif isinstance(fn, ast.Attribute):
                base = ap(fn.value) or ""
                tgt = f.module.imports.get(base.split(".")[0], "")
                full = tgt + base[len(base.split(".")[0]):]
                ok = full == HIPPO_LLSD
                why = f"receiver resolves to {full or base!r}"
            elif isinstance(fn, ast.Name):
                tgt = f.module.imports.get(fn.id, "")
                ok = tgt == HIPPO_LLSD + ".format_notation" or (f.module is lmod and not tgt)
                why = f"name resolves to {tgt!r}"
            ctx.ob("C12.R4", f"{f.qual}: {norm(c.func)}(...) is the Hippo formatter", ok, ctx.w(f, c),
                   f"{why}: strings with newlines would be written raw")
    ctx.floor("C12.R4", "format_notation call sites", n_sites, 3)
    # (b) no direct use of the third-party notation formatter class outside llsd.py
    for m in repo.modules.values():
        if m is lmod:
            continue
        for n in ast.walk(m.tree):
            if isinstance(n, ast.Attribute) and n.attr in ("LLSDNotationFormatter", "serde_notation") or \
                    isinstance(n, ast.Name) and n.id == "LLSDNotationFormatter":
                ctx.ob("C12.R4", f"{m.rel}: uses the third-party notation formatter `{norm(n)}` directly", False, ctx.w(m, n))
    # (c) format_notation instantiates a repo formatter class and calls format
    fn_ = repo.fn("format_notation", LLSD)
    rets = [n for n in walk(fn_.node) if isinstance(n, ast.Return) and n.value is not None]
    cls_name = None
    if len(rets) == 1 and isinstance(rets[0].value, ast.Call) and call_attr(rets[0].value) == "format" and \
            isinstance(rets[0].value.func, ast.Attribute) and isinstance(rets[0].value.func.value, ast.Call):
        cls_name = ap(rets[0].value.func.value.func)
    ci = repo.resolve_class(cls_name, lmod) if cls_name else None
    ctx.ob("C12.R4", "format_notation returns <Hippo formatter>().format(val)", ci is not None and ci.module is lmod, fn_.where,
           f"returns {norm(rets[0].value) if rets else None}")
    if ci is None:
        return
    # (d) STRING override wins in the MRO: defined on the class itself, or on a repo base listed before any third-party base
    tp = ThirdParty()
    owner = None
    third_party_first = False
    if "STRING" in ci.methods:
        owner = ci
    else:
        for b in ci.base_names:
            rc = repo.resolve_class(b, lmod)
            if rc is None:
                third_party_first = True
                break
            m = repo.lookup_method(rc, "STRING")
            if m is not None:
                owner = m.cls
                break
    ctx.ob("C12.R4", f"{ci.name}.STRING resolves to a Hippo override ahead of the third-party formatter", owner is not None
           and not third_party_first, ctx.w(lmod, ci.node),
           "the third-party LLSDNotationFormatter.STRING (which leaves newlines raw) would be used")
    # third-party dispatch really goes through self.STRING for str
    r = tp.lookup("llsd.base", "LLSDBaseFormatter")
    ok_tm = False
    if r and r[0] == "class":
        for n in ast.walk(r[2]):
            if isinstance(n, ast.Dict):
                for k, v in zip(n.keys, n.values):
                    if ap(k) == "str" and ap(v) == "self.STRING":
                        ok_tm = True
    ctx.ob("C12.R4", "third-party type_map dispatches str through self.STRING (bound, so the override is used)", ok_tm,
           f"{TP_PKG}/base.py")
    third_base = any(repo.resolve_class(b, lmod) is None and b.endswith("LLSDNotationFormatter") for b in ci.base_names)
    ctx.ob("C12.R4", f"{ci.name} extends the third-party LLSDNotationFormatter", third_base, ctx.w(lmod, ci.node))
    if owner is None:
        return
    sm = owner.methods["STRING"]
    srets = [n for n in walk(sm.node) if isinstance(n, ast.Return) and n.value is not None]
    ok_all = bool(srets)
    detail = ""
    for rt in srets:
        # peel .replace(...) calls (also inside same-class helpers applied to the value) down to the base formatter's result
        cur = rt.value
        repl = []
        for _ in range(12):
            if isinstance(cur, ast.Call) and isinstance(cur.func, ast.Attribute) and cur.func.attr == "replace":
                repl.append(cur)
                cur = cur.func.value
                continue
            wrapped = _wrapper_replaces(repo, sm, cur) if isinstance(cur, ast.Call) and isinstance(cur.func, ast.Name) else None
            if wrapped is not None:
                repl.extend(wrapped[1])
                cur = wrapped[0]
                continue
            if isinstance(cur, ast.Call) and isinstance(cur.func, ast.Attribute) and len(cur.args) == 1 and not cur.keywords \
                    and ap(cur.func.value) in ("self", "cls", owner.name):
                hm = repo.lookup_method(owner, cur.func.attr)
                if hm is not None and hm is not sm:
                    hps = [a.arg for a in hm.node.args.args if a.arg not in ("self", "cls")]
                    hrets = [n for n in walk(hm.node) if isinstance(n, ast.Return) and n.value is not None]
                    if len(hps) == 1 and len(hrets) == 1 and not any(st.path == hps[0] for st in stores(hm.node)):
                        inner, chain = hrets[0].value, []
                        while isinstance(inner, ast.Call) and isinstance(inner.func, ast.Attribute) and inner.func.attr == "replace":
                            chain.append(inner)
                            inner = inner.func.value
                        if ap(inner) == hps[0]:
                            repl.extend(chain)
                            cur = cur.args[0]
                            continue
            break
        base_ok = isinstance(cur, ast.Call) and isinstance(cur.func, ast.Attribute) and cur.func.attr == "STRING" and \
            isinstance(cur.func.value, ast.Call) and ap(cur.func.value.func) == "super"
        nl = [c for c in repl if len(c.args) >= 2 and isinstance(c.args[0], ast.Constant) and c.args[0].value in (b"\n", "\n")
              and isinstance(c.args[1], ast.Constant) and isinstance(c.args[1].value, type(c.args[0].value))
              and c.args[0].value not in c.args[1].value and len(c.args) == 2]
        reintro = [c for c in repl if len(c.args) >= 2 and isinstance(c.args[1], ast.Constant)
                   and isinstance(c.args[1].value, (bytes, str)) and (b"\n" if isinstance(c.args[1].value, bytes) else "\n") in c.args[1].value]
        if not (base_ok and nl and not reintro):
            ok_all = False
            detail = f"`return {norm(rt.value)}`: base result {'ok' if base_ok else 'not super().STRING(v)'}, " \
                     f"{len(nl)} newline replacement(s), {len(reintro)} replacement(s) writing a newline"
    ctx.ob("C12.R4", f"{owner.name}.STRING returns super().STRING(v) with raw newlines replaced", ok_all, sm.where, detail)
    ctx.note("C12.R4: map keys and llsd.uri values are formatted by the third-party MAP/URI handlers without newline "
             "escaping; the property text speaks of string values only, so this is not armed")


def r5(ctx):
    """parse_binary may drop an optional header only from the *start* of the document: every rebinding of the payload
    to a part of itself is dominated by a startswith() test of the payload (headerless documents may contain the
    header bytes inside a binary/string value)."""
    repo = ctx.repo
    ctx.rule("C12.R5", "parse_binary strips the optional header only when the document starts with it (prefix removal "
                       "dominated by a startswith test, directly or through a same-module predicate)")
    f = repo.fn("parse_binary", LLSD)
    params = [a.arg for a in f.node.args.args]
    ctx.require(bool(params), "parse_binary lost its parameter")
    P = params[0]

    def anchor_test(e, subject: str, mod, depth=0) -> bool:
        if depth > 3 or not isinstance(e, ast.Call):
            return False
        if isinstance(e.func, ast.Attribute) and e.func.attr == "startswith" and ap(e.func.value) == subject:
            return True
        if ap(e.func) in ("any", "all") and len(e.args) == 1 and isinstance(e.args[0], (ast.GeneratorExp, ast.ListComp)):
            return ap(e.func) == "any" and anchor_test(e.args[0].elt, subject, mod, depth + 1)
        if isinstance(e.func, ast.Name) and len(e.args) == 1 and ap(e.args[0]) == subject:
            for g in repo.funcs.get(e.func.id, []):
                if g.module is mod and g.cls is None and g.parent_fn is None and g.node.args.args:
                    gp = g.node.args.args[0].arg
                    rets = [n.value for n in walk(g.node) if isinstance(n, ast.Return) and n.value is not None]
                    if rets and all(anchor_test(r, gp, mod, depth + 1) for r in rets) and \
                            not any(st.path == gp for st in stores(g.node)):
                        return True
        return False

    # names holding parts of the payload
    derived: Set[str] = set()
    changed = True
    while changed:
        changed = False
        for n in walk(f.node):
            if isinstance(n, ast.Assign):
                srcn = {x.id for x in ast.walk(n.value) if isinstance(x, ast.Name)}
                if srcn & ({P} | derived):
                    for t in n.targets:
                        for x in ast.walk(t):
                            if isinstance(x, ast.Name) and x.id != P and x.id not in derived:
                                derived.add(x.id)
                                changed = True
    n_sites = 0
    for st in stores(f.node, into_defs=False):
        if st.path != P or st.kind != "assign" or st.value is None:
            continue
        srcn = {x.id for x in ast.walk(st.value) if isinstance(x, ast.Name)}
        if not (srcn & ({P} | derived)):
            continue
        n_sites += 1
        ok = any(pol and anchor_test(e, P, f.module) for e, pol in facts(st.node, f.node))
        if not ok and isinstance(st.value, ast.Call) and isinstance(st.value.func, ast.Name) and len(st.value.args) == 1 \
                and ap(st.value.args[0]) == P:
            # `data = _strip_header(data)`: every return of the helper is its parameter itself, or a part of it
            # returned under a startswith() test of that parameter
            for h in repo.funcs.get(st.value.func.id, []):
                if h.module is f.module and h.cls is None and h.parent_fn is None and h.node.args.args:
                    hp = h.node.args.args[0].arg
                    hrets = [n_ for n_ in walk(h.node) if isinstance(n_, ast.Return) and n_.value is not None]
                    if hrets and not any(s_.path == hp for s_ in stores(h.node)) and all(
                            ap(r_.value) == hp or any(pol and anchor_test(e, hp, h.module) for e, pol in facts(r_, h.node))
                            for r_ in hrets):
                        ok = True
        ctx.ob("C12.R5", f"parse_binary: `{norm(st.node)}` keeps a part of the document only after a startswith() test", ok,
               ctx.w(f, st.node), "the header bytes are searched anywhere in the document: a headerless document whose "
               "binary/string value embeds a headered LLSD document is cut at the embedded header")
    # binary LLSD is length-prefixed: every trailing byte is payload.  Whatever reaches parse_binary / the parser
    # may have lost a prefix, never a suffix.
    SUFFIX_LOSSY = {"strip", "rstrip", "removesuffix", "replace", "translate", "splitlines", "expandtabs", "lower", "upper"}
    for g, target in ((f, "parse"), (repo.fn("parse", LLSD), "parse_binary")):
        gp = g.node.args.args[0].arg if g.node.args.args else None
        hand = [c for c in calls(g.node) if call_attr(c) == target and c.args and gp is not None
                and gp in {x.id for x in ast.walk(c.args[0]) if isinstance(x, ast.Name)}]
        if g is not f:
            ctx.floor("C12.R5", "hand-over of the sniffed document to parse_binary", len(hand), 1)
        bad = []
        for st in stores(g.node, into_defs=False):
            if st.path == gp and st.value is not None:
                for x in ast.walk(st.value):
                    if isinstance(x, ast.Call) and isinstance(x.func, ast.Attribute) and x.func.attr in SUFFIX_LOSSY and \
                            gp in {y.id for y in ast.walk(x.func.value) if isinstance(y, ast.Name)}:
                        bad.append(x)
                    if isinstance(x, ast.Subscript) and isinstance(x.slice, ast.Slice) and x.slice.upper is not None and ap(x.value) == gp:
                        bad.append(x)
        for c in hand:
            for x in ast.walk(c.args[0]):
                if isinstance(x, ast.Call) and isinstance(x.func, ast.Attribute) and x.func.attr in SUFFIX_LOSSY:
                    bad.append(x)
        # only rebindings that can reach the hand-over matter
        ctx.ob("C12.R5", f"{g.qual}: the document reaches the binary parser with its tail intact", not bad or not hand, ctx.w(g, g.node),
               "" if not bad else f"`{norm(bad[0])}` can remove trailing bytes; in binary LLSD they belong to the last value "
               f"(an integer 32, a string ending in a newline, a UUID ending in 0x20)")
    pcs = [c for c in calls(f.node) if call_attr(c) == "parse" and c.args]
    ctx.ob("C12.R5", "parse_binary hands the document to HippoLLSDBinaryParser().parse", len(pcs) == 1 and
           ({x.id for x in ast.walk(pcs[0].args[0]) if isinstance(x, ast.Name)} <= {P} | derived), f.where)
    ctx.stats["C12.R5.header removal sites"] = n_sites


def r6(ctx):
    """The third-party XML formatter dispatches on the exact type and has no fallback: every coordinate class of
    datatypes.py must be registered in HippoLLSDBaseFormatter's type_map with the coordinate handler."""
    repo = ctx.repo
    ctx.rule("C12.R6", "every TupleCoord subclass is registered in the Hippo formatters' type_map with the coordinate handler")
    fci = repo.cls("HippoLLSDBaseFormatter", LLSD)
    init = fci.methods.get("__init__")
    ctx.require(init is not None, "HippoLLSDBaseFormatter.__init__ vanished")
    lmod = repo.module(LLSD)
    registered: Dict[str, str] = {}
    from ..core import ancestors
    for st in stores(init.node, into_defs=False):
        if not (st.kind == "setitem" and st.path == "self.type_map" and isinstance(st.target, ast.Subscript)):
            continue
        rows: List[Dict[str, ast.AST]] = [{}]
        for loop in [a for a in ancestors(st.node) if isinstance(a, ast.For)]:
            it = loop.iter
            if isinstance(it, (ast.Name, ast.Attribute)):
                nm = ap(it) or ""
                v = repo.class_attr(fci, nm.split(".")[-1]) if nm.startswith(("self.", "cls.")) else repo.module_assign(lmod, nm)
                it = v if v is not None else it
            if not isinstance(it, (ast.Tuple, ast.List)) or not isinstance(loop.target, ast.Name):
                raise AnalysisError(f"C12.R6: type_map registration loop over {norm(loop.iter)} is not a literal sequence of classes")
            rows = [{**r, loop.target.id: e} for r in rows for e in it.elts]
        for env in rows:
            k = st.target.slice
            k = env.get(k.id, k) if isinstance(k, ast.Name) else k
            registered[ap(k) or norm(k)] = ap(st.value) or norm(st.value)
    # the third-party type_map (type -> handler name), plus the Hippo registrations above
    tp = ThirdParty()
    tw = TypeWorld(repo, tp)
    base_map: Dict[str, str] = {}
    r_ = tp.lookup("llsd.base", "LLSDBaseFormatter")
    if r_ and r_[0] == "class":
        for n_ in ast.walk(r_[2]):
            if isinstance(n_, ast.Dict):
                for k_, v_ in zip(n_.keys, n_.values):
                    if k_ is not None and (ap(v_) or "").startswith("self."):
                        for t_ in tw.tp_types("llsd.base", k_):
                            base_map[t_] = ap(v_)[5:]
    for k_, h_ in registered.items():
        for t_ in tw.repo_types(lmod, ast.parse(k_, mode="eval").body):
            base_map[t_] = h_.split(".")[-1]
    ctx.floor("C12.R6", "third-party type_map entries", len(base_map), 10)
    for lst in repo.classes.values():
        for ci in lst:
            m = ci.methods.get("typeof") if ci.module is lmod else None
            if m is None:
                continue
            listed: List[str] = []
            for loop in [n_ for n_ in walk(m.node) if isinstance(n_, ast.For)]:
                it = loop.iter
                if isinstance(it, (ast.Name, ast.Attribute)):
                    nm = ap(it) or ""
                    v = repo.class_attr(ci, nm.split(".")[-1]) if nm.startswith(("self.", "cls.")) else repo.module_assign(lmod, nm)
                    it = v if v is not None else it
                if isinstance(it, (ast.Tuple, ast.List)) and any(ap(c_.func) == "isinstance" for c_ in calls(loop)):
                    for e_ in it.elts:
                        listed.extend(sorted(tw.repo_types(lmod, e_)))
            for c_ in calls(m.node):
                if ap(c_.func) == "isinstance" and len(c_.args) == 2 and not isinstance(c_.args[1], ast.Name):
                    listed.extend(sorted(tw.repo_types(lmod, c_.args[1])))
            if not listed:
                raise AnalysisError(f"C12.R6: {ci.name}.typeof does not test a literal sequence of types: read it")
            for t_, h_ in sorted(base_map.items()):
                first = next((s_ for s_ in listed if tw.is_subtype(t_, s_)), None)
                collapsed = first is not None and first != t_
                hs = base_map.get(first) if first else None
                ctx.ob("C12.R6", f"{ci.name}.typeof keeps {t_} on its own handler", not collapsed or hs == h_, m.where,
                       "" if not collapsed or hs == h_ else
                       f"{t_} (handler {h_}) is a subclass of the listed {first} and is reported as that type (handler {hs}): the value is "
                       f"written as the wrong LLSD type")
    # bytes subclasses of datatypes.py (what the UDP deserializer hands out) are LLSD binary: the XML formatter has no
    # fallback for an unregistered exact type, the notation formatter would write an array of integers
    dmod = repo.module("hippolyzer/lib/base/datatypes.py")
    bsubs = [c for lst_ in repo.classes.values() for c in lst_ if c.module is dmod
             and any(b.split("[")[0].split(".")[-1] == "bytes" for k in repo.mro(c) for b in k.base_names)]
    ctx.floor("C12.R6", "bytes subclasses in datatypes.py", len(bsubs), 2)
    for c in bsubs:
        keys = [k for k in registered if repo.resolve_class(k, lmod) == c]
        ok = bool(keys) and all(registered[k].split(".")[-1] == "BINARY" for k in keys)
        ctx.ob("C12.R6", f"{c.name} (bytes subclass) is registered in HippoLLSDBaseFormatter.type_map as BINARY", ok,
               ctx.w(init, init.node), f"registered: {sorted(registered)}; format_xml raises 'Cannot serialize unknown type' for a "
               f"{c.name} (e.g. TeleportFinish.Info.SeedCapability parsed off the wire) and format_notation writes an array of integers")
    tc = repo.cls("TupleCoord", "hippolyzer/lib/base/datatypes.py")
    subs = [c for c in repo.subclasses(tc, strict=True) if c.module is tc.module]
    ctx.floor("C12.R6", "coordinate classes", len(subs), 4)
    handlers = {registered[k] for k in registered if repo.resolve_class(k, lmod) in subs}
    for c in subs:
        keys = [k for k in registered if repo.resolve_class(k, lmod) == c]
        ok = bool(keys) and len(handlers) == 1
        ctx.ob("C12.R6", f"{c.name} is registered in HippoLLSDBaseFormatter.type_map", ok, ctx.w(init, init.node),
               f"registered classes: {sorted(registered)}; the XML formatter raises 'Cannot serialize unknown type' for an "
               f"unregistered coordinate class")


def r7(ctx):
    """The binary parser keeps the document and its cursor on the instance (parse() stores self._buffer/_index): an
    instance shared between calls (module / class level, or cached on an object or in a global) is shared scratch
    state - two overlapping parses corrupt each other."""
    repo = ctx.repo
    ctx.rule("C12.R7", "stateful binary parser objects are built per parse: no module-level, class-level or cached instance")
    tp = ThirdParty()
    pm = ParserModel(ctx, tp)
    pmeth = pm.method("parse")
    ctx.require(pmeth is not None, "C12.R7: parse() of the binary parser not found")
    state = sorted({ap(t) for n in ast.walk(pmeth[1]) if isinstance(n, ast.Assign) for t in n.targets
                    if (ap(t) or "").startswith("self.")})
    ctx.ob("C12.R7", "control: parse() keeps per-document state on the parser instance", bool(state), f"{TP_PKG}/serde_binary.py",
           "parse() no longer stores the document on self: re-read the premise of C12.R7")
    classes = [pm.hippo] + repo.subclasses(pm.hippo, strict=True)
    names = {c.name for c in classes}
    n = 0
    class _TP:
        def __init__(self, name):
            self.name = name

    def tp_stateful(mod, func) -> Optional[str]:
        """name of a third-party llsd parser class (its parse() stores on self) constructed by `func(...)`"""
        p_ = ap(func) or ""
        if not p_ or "(" in p_ or "[" in p_:
            return None
        root = p_.split(".")[0]
        tgt = mod.imports.get(root, "")
        full = tgt + p_[len(root):] if tgt else ""
        if not full.startswith("llsd"):
            return None
        modname, _, cname = full.rpartition(".")
        if modname != "llsd" and not os.path.exists(os.path.join(TP_PKG, modname.split(".", 1)[-1] + ".py")):
            return None
        r_ = tp.lookup(modname, cname) if modname == "llsd" or modname.startswith("llsd.") else None
        seen_ = 0
        while r_ and r_[0] == "class" and seen_ < 5:
            for st_ in r_[2].body:
                if isinstance(st_, FUNC_TYPES) and st_.name == "parse":
                    if any(isinstance(n_, ast.Assign) and any((ap(t_) or "").startswith("self.") for t_ in n_.targets)
                           for n_ in ast.walk(st_)):
                        return cname
                    return None
            nxt = None
            for b_ in r_[2].bases:
                if isinstance(b_, ast.Name):
                    nxt = tp.lookup(r_[1], b_.id)
            r_ = nxt
            seen_ += 1
        return None
    for mod in repo.modules.values():
        for c in calls(mod.tree, into_defs=True):
            if not isinstance(c.func, (ast.Name, ast.Attribute)):
                continue
            fexpr = c.func
            if isinstance(fexpr, ast.Attribute) and ap(fexpr.value) in ("self", "cls"):
                # `cls.PARSER_CLS()`: a class attribute naming the class to build
                from ..core import ancestors as _anc
                kdef = next((a for a in _anc(c) if isinstance(a, ast.ClassDef)), None)
                kci = repo.resolve_class(kdef.name, mod) if kdef is not None else None
                cav = repo.class_attr(kci, fexpr.attr) if kci is not None else None
                if isinstance(cav, (ast.Name, ast.Attribute)):
                    fexpr = cav
            tpn = tp_stateful(mod, fexpr)
            if tpn is None and (ap(fexpr) or "").split(".")[-1] not in names:
                continue
            ci = repo.resolve_class((ap(fexpr) or "").split(".")[-1], mod) if tpn is None else _TP(tpn)
            if tpn is None and ci not in classes:
                continue
            n += 1
            from ..core import ancestors
            encl = [a for a in ancestors(c) if isinstance(a, FUNC_TYPES + (ast.Lambda,))]
            st = enclosing_stmt(c)
            problem = ""
            if not encl:
                problem = "constructed at module / class level"
            elif isinstance(st, (ast.Assign, ast.AnnAssign)) and (st.value is c):
                tgts = st.targets if isinstance(st, ast.Assign) else [st.target]
                fn_node = encl[0]
                globs = {nm for g_ in ast.walk(fn_node) if isinstance(g_, (ast.Global, ast.Nonlocal)) for nm in g_.names}
                for t in tgts:
                    if isinstance(t, (ast.Attribute, ast.Subscript)) or (isinstance(t, ast.Name) and t.id in globs):
                        problem = f"kept in `{norm(t)}` beyond the call that built it"
            elif any(isinstance(a, ast.arguments) for a in ancestors(c)):
                problem = "constructed once as a default argument"
            where = ctx.w(mod, c)
            owner = encl[0].name if encl and hasattr(encl[0], "name") else "<module>"
            ctx.ob("C12.R7", f"{mod.rel}:{owner}: {ci.name}() is built for one parse only", not problem, where,
                   "" if not problem else f"{problem}: parse() stores {state} on the instance, so overlapping parses "
                   f"(threads, a parse started while another document is still being read) share one cursor")
    ctx.floor("C12.R7", "binary parser construction sites", n, 2)


def r8(ctx):
    """Hippo overrides of the third-party formatter's type handlers must print the value in full: a precision-limited
    number format (`%.15g`, `{v:.6f}`, round()) cannot give every double back."""
    import re as _re
    repo = ctx.repo
    ctx.rule("C12.R8", "formatter handler overrides print numbers at full precision (no %.Ng with N < 17, no fixed-point "
                       "format, no round()) so every real survives the XML / notation form")
    lmod_rels = {LLSD, repo.cls("HippoLLSDBaseFormatter", LLSD).module.rel}
    n = 0

    def lossy_spec(text: str, is_format_spec: bool) -> Optional[str]:
        pats = [_re.compile(r"\.(\d+)([gGeEfF])")] if is_format_spec else [_re.compile(r"%[-+ #0]*\d*\.(\d+)([gGeEfF])")]
        for pat in pats:
            for m_ in pat.finditer(text):
                prec, kind = int(m_.group(1)), m_.group(2).lower()
                if kind == "f" or (kind == "g" and prec < 17) or (kind == "e" and prec < 16):
                    return m_.group(0)
        return None
    for lst in repo.classes.values():
        for ci in lst:
            if ci.module.rel not in lmod_rels:
                continue
            for name, m in ci.methods.items():
                if not (name.isupper() and len(m.node.args.args) >= 2):
                    continue
                n += 1
                vparam = m.node.args.args[1].arg
                bad = None
                for x in walk(m.node, into_defs=True):
                    if isinstance(x, ast.BinOp) and isinstance(x.op, ast.Mod) and isinstance(x.left, ast.Constant) and \
                            isinstance(x.left.value, (str, bytes)) and any(isinstance(y, ast.Name) and y.id == vparam for y in ast.walk(x.right)):
                        t = x.left.value if isinstance(x.left.value, str) else x.left.value.decode("latin-1")
                        bad = bad or lossy_spec(t, False)
                    elif isinstance(x, ast.FormattedValue) and x.format_spec is not None and \
                            any(isinstance(y, ast.Name) and y.id == vparam for y in ast.walk(x.value)):
                        t = "".join(str(v.value) for v in x.format_spec.values if isinstance(v, ast.Constant))
                        bad = bad or lossy_spec(t, True)
                    elif isinstance(x, ast.Call) and ap(x.func) in ("format", "round") and x.args and \
                            any(isinstance(y, ast.Name) and y.id == vparam for y in ast.walk(x.args[0])):
                        if ap(x.func) == "round":
                            bad = bad or "round()"
                        elif len(x.args) > 1 and isinstance(x.args[1], ast.Constant) and isinstance(x.args[1].value, str):
                            bad = bad or lossy_spec(x.args[1].value, True)
                ctx.ob("C12.R8", f"{ci.name}.{name}: the value is printed at full precision", bad is None, m.where,
                       "" if bad is None else f"`{bad}` drops digits: doubles that differ beyond that precision print alike and do "
                       f"not come back (17 significant digits are needed)")
    ctx.floor("C12.R8", "formatter handler overrides", n, 2)


def r9(ctx):
    """The third-party XML / notation formatters write dates as isoformat() + 'Z', which is only a valid LLSD date for a
    naive (UTC) datetime; the XML / notation parsers return naive UTC datetimes.  A binary date handler that returns an
    aware datetime hands the other two formatters a value they cannot write: either it returns naive UTC as well, or
    every Hippo formatter overrides DATE."""
    repo = ctx.repo
    ctx.rule("C12.R9", "dates parsed from binary can be written by the XML / notation formatters: the binary date handler "
                       "returns a naive UTC datetime like the other parsers (or every Hippo formatter overrides DATE)")
    tp = ThirdParty()
    pm = ParserModel(ctx, tp)
    origin, h = pm.dispatch[b'd']
    m = pm.method(h.attr) if isinstance(h, ast.Attribute) else None
    ctx.require(m is not None, "C12.R9: date handler of the binary parser not found")
    rets = [n.value for n in ast.walk(m[1]) if isinstance(n, ast.Return) and n.value is not None]
    ctx.require(bool(rets), "C12.R9: the date handler returns nothing")

    def aware(e) -> bool:
        if isinstance(e, ast.Call) and isinstance(e.func, ast.Attribute):
            a = e.func.attr
            if a == "replace":
                v = kw(e, "tzinfo")
                if v is not None:
                    return not (isinstance(v, ast.Constant) and v.value is None)
                return aware(e.func.value)
            if a == "fromtimestamp":
                v = kw(e, "tz") or (e.args[1] if len(e.args) > 1 else None)
                return v is not None and not (isinstance(v, ast.Constant) and v.value is None)
            if a in ("astimezone", "now"):
                return a == "astimezone" or bool(e.args or e.keywords)
        return False
    is_aware = any(aware(r_) for r_ in rets)
    # formatter side: DATE resolved to a repository method on each Hippo formatter class
    fmts = [c for c in repo.subclasses(repo.cls("HippoLLSDBaseFormatter", LLSD), strict=True)]
    overrides = all(repo.lookup_method(c, "DATE") is not None for c in fmts) and bool(fmts)
    ctx.ob("C12.R9", "binary date handler returns what the XML / notation formatters can write", (not is_aware) or overrides,
           f"{LLSD}:{getattr(m[1], 'lineno', 0)}" if m[0] == "hippo" else f"{TP_PKG}/serde_binary.py",
           "the handler returns a tz-aware datetime; the third-party formatters write isoformat() + 'Z' = "
           "'...+00:00Z', which their own parsers reject: a date read from binary LLSD cannot be re-written as XML / notation")


def r9_formatters(ctx):
    """The same clause seen from the formatter: a tz-aware datetime handed to format_xml / format_notation must be turned
    into naive UTC before the third-party DATE handler (isoformat() + 'Z') sees it."""
    repo = ctx.repo
    fci = repo.cls("HippoLLSDBaseFormatter", LLSD)
    lmod = fci.module
    cands: List[FuncInfo] = []
    init = repo.lookup_method(fci, "__init__")
    for st in stores(init.node, into_defs=False) if init is not None else []:
        if st.kind == "setitem" and st.path == "self.type_map" and isinstance(st.target, ast.Subscript) and \
                (ap(st.target.slice) or "").endswith("datetime.datetime") and (ap(st.value) or "").startswith("self."):
            m = repo.lookup_method(fci, ap(st.value)[5:])
            if m is not None:
                cands.append(m)
    fmts = repo.subclasses(fci, strict=True)
    date_overrides = [repo.lookup_method(c, "DATE") for c in fmts]
    if fmts and all(m is not None for m in date_overrides):
        cands.extend(date_overrides)

    def normalises(m: FuncInfo) -> bool:
        for c in calls(m.node):
            if call_attr(c) == "replace" and any(k.arg == "tzinfo" and isinstance(k.value, ast.Constant) and k.value.value is None
                                                  for k in c.keywords):
                return True
            if call_attr(c) in ("utctimetuple", "timegm"):
                return True
        return False
    ok = bool(cands) and all(normalises(m) for m in cands)
    ctx.ob("C12.R9", "Hippo formatters turn tz-aware datetimes into naive UTC before the date is written", ok, ctx.w(lmod, fci.node),
           "no handler between type_map[datetime.datetime] and the third-party DATE strips the tzinfo: "
           "format_notation(datetime.now(timezone.utc)) writes '...+00:00Z', which every LLSD parser rejects")


def _wrapper_replaces(repo, m: FuncInfo, e):
    """`helper(x)` / `self.helper(x)` where the helper's single return is `<param>.replace(..)...`: (x, [replace calls])"""
    if not (isinstance(e, ast.Call) and len(e.args) == 1 and not e.keywords):
        return None
    h = None
    if isinstance(e.func, ast.Name):
        h = next((g for g in repo.funcs.get(e.func.id, []) if g.module is m.module and g.cls is None and g.parent_fn is None), None)
    elif isinstance(e.func, ast.Attribute) and ap(e.func.value) in ("self", "cls") and m.cls is not None:
        h = repo.lookup_method(m.cls, e.func.attr)
    if h is None or h is m:
        return None
    hps = [a.arg for a in h.node.args.args if a.arg not in ("self", "cls")]
    hrets = [n for n in walk(h.node) if isinstance(n, ast.Return) and n.value is not None]
    if len(hps) != 1 or len(hrets) != 1 or any(st.path == hps[0] for st in stores(h.node)):
        return None
    inner, chain = hrets[0].value, []
    while isinstance(inner, ast.Call) and isinstance(inner.func, ast.Attribute) and inner.func.attr == "replace":
        chain.append(inner)
        inner = inner.func.value
    if ap(inner) != hps[0] or not chain:
        return None
    return e.args[0], chain


def r10(ctx):
    """XML end-of-line handling: a parser turns a literal CR / CRLF into LF, only a character reference survives."""
    repo = ctx.repo
    ctx.rule("C12.R10", "the Hippo XML formatters write a carriage return as a character reference (xml_esc override replacing "
                        "b'\\r'), since XML parsers normalise a literal CR to LF")
    fci = repo.cls("HippoLLSDBaseFormatter", LLSD)
    lmod = fci.module
    n = 0
    for c in repo.subclasses(fci, strict=True):
        if not any("serde_xml" in b or "XMLFormatter" in b or "XMLPrettyFormatter" in b for b in c.base_names):
            continue
        n += 1
        m = repo.lookup_method(c, "xml_esc")
        ok = False
        if m is not None:
            mev = ConstEval(repo, m.module)

            def _local(e, m=m):
                # single-assignment local alias of the method
                for _ in range(3):
                    if isinstance(e, ast.Name):
                        vs = [st_.value for st_ in stores(m.node, into_defs=False) if st_.path == e.id and st_.kind == "assign"
                              and st_.value is not None]
                        if len(vs) == 1:
                            e = vs[0]
                            continue
                    break
                return e
            for rt in [x.value for x in walk(m.node) if isinstance(x, ast.Return) and x.value is not None]:
                cur, repl = _local(rt), []
                for _ in range(12):
                    if isinstance(cur, ast.Call) and isinstance(cur.func, ast.Attribute) and cur.func.attr == "replace":
                        repl.append(cur)
                        cur = _local(cur.func.value)
                        continue
                    # a one-argument helper (module function or method of the class) that returns a replace chain on its parameter
                    wrapped = _wrapper_replaces(repo, m, cur)
                    if wrapped is not None:
                        repl.extend(wrapped[1])
                        cur = _local(wrapped[0])
                        continue
                    break
                base_ok = isinstance(cur, ast.Call) and isinstance(cur.func, ast.Attribute) and cur.func.attr == "xml_esc" and \
                    isinstance(cur.func.value, ast.Call) and ap(cur.func.value.func) == "super"
                cr = []
                for r_ in repl:
                    if len(r_.args) != 2:
                        continue
                    a0, a1 = mev.ev(r_.args[0]), mev.ev(r_.args[1])
                    if a0 in (b"\r", "\r") and isinstance(a1, type(a0)):
                        # what takes its place must be a character reference to U+000D (anything else reads back as other text)
                        t1 = a1.decode("latin-1") if isinstance(a1, bytes) else a1
                        if re.fullmatch(r"&#(0*13|[xX]0*[dD]);", t1):
                            cr.append(r_)
                ok = base_ok and bool(cr)
        ctx.ob("C12.R10", f"{c.name}: carriage returns are written as a character reference", ok, ctx.w(lmod, c.node),
               "the inherited xml_esc writes U+000D raw: 'a\\r\\nb' in a message string comes back as 'a\\nb' through the XML form "
               "(the dict form keeps it)")
    ctx.floor("C12.R10", "Hippo XML formatter classes", n, 2)
    # map keys: a vendored map handler that writes its keys through _elt(b'key', ...) without xml_esc() leaves them raw
    # unless the Hippo class overrides that handler or escapes keys in _elt
    tp = ThirdParty()
    for c in repo.subclasses(fci, strict=True):
        for b in c.base_names:
            cname = b.split(".")[-1]
            r_ = tp.lookup("llsd.serde_xml", cname) if "XML" in cname else None
            if not (r_ and r_[0] == "class"):
                continue
            for meth in [m_ for m_ in r_[2].body if isinstance(m_, FUNC_TYPES) and m_.name.endswith("MAP")]:
                raw_keys = [x for x in ast.walk(meth) if isinstance(x, ast.Call) and ap(x.func) == "self._elt" and x.args
                            and isinstance(x.args[0], ast.Constant) and x.args[0].value == b"key"
                            and not any(isinstance(y, ast.Call) and call_attr(y) == "xml_esc" for y in ast.walk(x))]
                if not raw_keys:
                    continue
                own = c.methods.get(meth.name)
                ok = own is not None and any(call_attr(y) == "xml_esc" for y in calls(own.node))
                elt = c.methods.get("_elt")
                if not ok and elt is not None:
                    for y in calls(elt.node):
                        if call_attr(y) == "xml_esc" and any(
                                pol and isinstance(e, ast.Compare) and any(isinstance(k_, ast.Constant) and k_.value == b"key"
                                                                          for k_ in ast.walk(e))
                                for e, pol in facts(y, elt.node)):
                            ok = True
                ctx.ob("C12.R10", f"{c.name}: map keys written by {meth.name} are escaped", ok, ctx.w(lmod, c.node),
                       f"the vendored {cname}.{meth.name} writes keys with _elt(b'key', ...) and no xml_esc(): a key containing '&' or "
                       f"'<' gives XML that parse_xml rejects, a CR in a key is normalised to LF")


def r11(ctx):
    """Dates carry microseconds: the text forms are exact, the parser must be too."""
    repo = ctx.repo
    ctx.rule("C12.R11", "notation / XML date parsing keeps the microsecond field exact (no int(float * 1e6) truncation on the "
                        "path hippolyzer's parse_notation / parse_xml use)")
    tp = ThirdParty()
    r_ = tp.lookup("llsd.base", "_parse_datestr")
    ctx.require(r_ is not None and r_[0] == "func", "third-party llsd.base._parse_datestr not found")
    trunc = [c for c in ast.walk(r_[2]) if isinstance(c, ast.Call) and ap(c.func) == "int" and c.args
             and isinstance(c.args[0], ast.BinOp) and isinstance(c.args[0].op, ast.Mult)
             and any(isinstance(x, ast.Call) and ap(x.func) == "float" for x in ast.walk(c.args[0]))]
    for name in ("parse_notation", "parse_xml"):
        f = repo.fn(name, LLSD)
        delegates = any((ap(c.func) or "").split(".")[0] in {k for k, v in f.module.imports.items() if v == "llsd" or v.startswith("llsd.")}
                        for c in calls(f.node))
        ctx.ob("C12.R11", f"{name}: dates keep their microseconds", not (trunc and delegates), f.where,
               "delegates to the third-party parser, whose _parse_datestr computes int(float('0.000249') * 1e6) = 248: "
               "datetime(2020, 1, 1, 0, 0, 0, 249) comes back one microsecond early (11549 of the 10^6 microsecond values), "
               "while the binary form is exact")


def run(ctx):
    # when re-run as a dependency clause of another property only the requested rules are evaluated (an analysis
    # error of a rule the dependent property does not need must not become its analysis error)
    wanted = getattr(ctx, "_rules", None) if getattr(ctx, "_dep", None) == "C12" else None
    for name, fn in (("R1", r1), ("R2", r2), ("R3", r3), ("R4", r4), ("R5", r5), ("R6", r6), ("R7", r7), ("R8", r8), ("R9", r9), ("R9", r9_formatters), ("R10", r10), ("R11", r11)):
        if wanted is None or name in wanted:
            fn(ctx)
    ctx.assume("third-party llsd package sources under /venv/lib/python3.12/site-packages/llsd are parsed, never imported; "
               "`if PY2:` is resolved to the Python 3 side")
    ctx.assume("value/type preservation of generated LLSD trees is not decided statically")
