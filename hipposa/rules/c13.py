"""C13 - static translation validation: FastObjectUpdateCompressedDataDeserializer.read versus
ObjectUpdateCompressedDataSerializer.TEMPLATE (DESIGN.md §4 C13).

Both programs are abstracted to an ordered list of fields (output key, gate, wire signature).
Template side: the dict literal.  Fast side: abstract interpretation of the straight-line body of
`read` over a stream-position domain (each read consumes the next positions; values remember which
positions they came from, through tuple unpacking, constructors, adapters and the returned dict).
"""
from __future__ import annotations

import ast
import re
import struct
from dataclasses import dataclass, field
from typing import Any, Dict, List, Optional, Tuple

from ..consteval import ConstEval, EnumVal, StructVal, enum_members, record_fields
from ..core import AnalysisError, ap, atoms, calls, clone_ast, conditions, kw, norm, src, walk, FUNC_TYPES

OBJ = "hippolyzer/lib/base/objects.py"
TMPL = "hippolyzer/lib/base/templates.py"
SER = "hippolyzer/lib/base/serialization.py"

PRIM = {"U8": "B", "S8": "b", "U16": "H", "S16": "h", "U32": "I", "S32": "i", "U64": "Q", "S64": "q",
        "F32": "f", "F64": "d"}


def strip_mod(text: str) -> str:
    """Normalise module prefixes in a spec expression: se./tmpls./cls. removed."""
    return re.sub(r"\b(se|tmpls|templates|serialization)\.", "", text)


# ------------------------------------------------------------------ template side

def spec_sig(repo, mod, node, _depth=0) -> Tuple[str, List[str]]:
    """(signature, adapter names) of a spec expression in templates.py."""
    text = strip_mod(src(node))
    if isinstance(node, ast.Attribute) or isinstance(node, ast.Name):
        name = text
        if name in PRIM:
            return PRIM[name], []
        if name == "UUID":
            return "16s", ["UUID"]
        m = re.fullmatch(r"Vector([234])", name)
        if m:
            return f"{m.group(1)}f", [name]
        # a module-level alias of a primitive / adapter expression (COMPRESSED_FLAGS_SPEC = se.IntFlag(...)) is
        # looked through; shared sub-templates stay symbolic (both decoders name the same object)
        if isinstance(node, ast.Name) and _depth < 4:
            target = repo.module_assign(mod, node.id)
            if target is not None:
                s2, ad2 = spec_sig(repo, mod, target, _depth + 1)
                if not s2.startswith("ref("):
                    return s2, ad2
        return f"ref({name})", []
    if isinstance(node, ast.Call):
        fname = strip_mod(ap(node.func) or src(node.func))
        args = node.args
        if fname in ("IntEnum", "IntFlag") and len(args) == 2:
            s, ad = spec_sig(repo, mod, args[1])
            return s, ad + [strip_mod(src(args[0]))]
        if fname == "PackedQuat" and len(args) == 1:
            s, ad = spec_sig(repo, mod, args[0])
            return s, ad + ["Quaternion"]
        if fname == "CStr" and not args and not node.keywords:
            return "cstr", []
        if fname == "ByteArray" and len(args) == 1:
            s, _ = spec_sig(repo, mod, args[0])
            return f"lenprefixed({s})", []
        if fname == "BytesFixed" and len(args) == 1 and isinstance(args[0], ast.Constant):
            return f"{args[0].value}s", []
        # adapter classes defined in the repo: child spec = explicit first arg, else super().__init__(spec)
        ci = repo.resolve_class(fname, mod) or repo.resolve_class(fname, repo.module(SER))
        if ci is not None and any(c.name in ("Adapter", "ContextAdapter") for c in repo.mro(ci)):
            names = [fname] + sorted({n.id for n in ast.walk(ci.node) if isinstance(n, ast.Name)}
                                     | {n.attr for n in ast.walk(ci.node) if isinstance(n, ast.Attribute)})
            if args and not (isinstance(args[0], ast.Constant) and args[0].value is None):
                s, ad = spec_sig(repo, mod, args[0])
                return s, ad + names
            init = ci.methods.get("__init__")
            if init is not None:
                for c in calls(init.node):
                    if isinstance(c.func, ast.Attribute) and c.func.attr == "__init__" and c.args:
                        cand = c.args[-1] if len(c.args) == 1 else c.args[0]
                        # ContextAdapter: (key_fn, child_spec, choices); Adapter: (child_spec)
                        for a in c.args:
                            if isinstance(a, (ast.Call, ast.Attribute)) and not isinstance(a, ast.Lambda):
                                s, ad = spec_sig(repo, ci.module, a)
                                if not s.startswith("ref("):
                                    return s, ad + names
            return f"ref({text})", names
        return f"ref({text})", []
    return f"ref({text})", []


def template_fields(ctx):
    repo = ctx.repo
    ci = repo.cls("ObjectUpdateCompressedDataSerializer", TMPL)
    tnode = repo.class_attr(ci, "TEMPLATE")
    ctx.require(isinstance(tnode, ast.Call) and tnode.args and isinstance(tnode.args[0], ast.Dict),
                "ObjectUpdateCompressedDataSerializer.TEMPLATE is not se.Template({...})")
    d = tnode.args[0]
    mod = ci.module

    def flatten(dnode, depth=0):
        """(key node, value node) pairs of a dict literal, expanding `**NAME` of module-level dict literals in order"""
        pairs = []
        for k, v in zip(dnode.keys, dnode.values):
            if k is None:
                sub = v
                if isinstance(sub, ast.Name):
                    sub = repo.module_assign(mod, sub.id)
                if isinstance(sub, ast.Call) and sub.args and isinstance(sub.args[0], ast.Dict):
                    sub = sub.args[0]
                if not isinstance(sub, ast.Dict) or depth > 4:
                    raise AnalysisError(f"C13: TEMPLATE unpacks {src(v)}, which is not a module-level dict literal")
                pairs.extend(flatten(sub, depth + 1))
            else:
                pairs.append((k, v))
        return pairs
    pairs = flatten(d)
    opt = repo.cls("CompressedOption", TMPL)
    # CompressedOption(flag, spec) -> OptionalFlagged("Flags", IntFlag(CompressedFlags, U32), flag, spec)
    init = opt.methods["__init__"]
    sup = [c for c in calls(init.node) if isinstance(c.func, ast.Attribute) and c.func.attr == "__init__"]
    ctx.require(len(sup) == 1 and len(sup[0].args) == 4, "CompressedOption.__init__ shape changed")
    flag_field = sup[0].args[0].value if isinstance(sup[0].args[0], ast.Constant) else None
    params = [a.arg for a in init.node.args.args][1:]
    ctx.require(ap(sup[0].args[2]) == params[0] and ap(sup[0].args[3]) == params[1],
                "CompressedOption no longer forwards (flag_val, spec) in order")
    fields = []
    for k, v in pairs:
        ctx.require(isinstance(k, ast.Constant) and isinstance(k.value, str), "TEMPLATE key is not a string literal")
        gate = None
        spec = v
        if isinstance(v, ast.Call) and strip_mod(ap(v.func) or "") == "CompressedOption":
            ctx.require(len(v.args) >= 2, f"CompressedOption arity for {k.value}")
            gate = (strip_mod(src(v.args[0])).replace("CompressedFlags.", ""),)
            # any further argument changes when the section is present: it is part of the gate the fast reader must match
            gate += tuple(f"arg{i + 2}={strip_mod(src(a))}" for i, a in enumerate(v.args[2:]))
            gate += tuple(sorted(f"{kw_.arg or '**'}={strip_mod(src(kw_.value))}" for kw_ in v.keywords))
            spec = v.args[1]
        sig, adapters = spec_sig(repo, mod, spec)
        fields.append({"key": k.value, "gate": gate, "sig": sig, "adapters": adapters, "node": v})
    return fields, flag_field, ci


# ------------------------------------------------------------------ fast side

@dataclass
class Val:
    toks: List[Tuple[int, str]]            # (stream position, token)
    gate: Optional[tuple] = None
    adapters: List[str] = field(default_factory=list)
    none: bool = False
    covers: Optional[set] = None

    def positions(self):
        return set(self.covers) if self.covers is not None else {p for p, _ in self.toks}


class Rec(dict):
    """values read from the stream, held by field name (a NamedTuple built from a struct read)"""


class FastInterp:
    def __init__(self, ctx, fi, cls_info):
        self.lenient_wraps = set()
        self.ctx = ctx
        self.repo = ctx.repo
        self.fi = fi
        self.ci = cls_info
        self.ev = ConstEval(ctx.repo, fi.module)
        self.pos = 0
        self.env: Dict[str, Any] = {}
        self.gate: Optional[tuple] = None
        self.reader = None
        self.ret: Optional[ast.Dict] = None
        self.decodes: List[ast.Call] = []
        self.endians = set()
        self.cond_adapters = []
        self.closures: Dict[str, Any] = {}

    def cls_attr(self, name):
        v = self.repo.class_attr(self.ci, name)
        if v is None:
            raise AnalysisError(f"C13: class attribute {name} not found on {self.ci.name}")
        return v

    def struct_fmt(self, node) -> str:
        p = ap(node)
        if p and p.startswith("cls."):
            node = self.cls_attr(p[4:])
        v = self.ev.ev(node)
        if not isinstance(v, StructVal):
            raise AnalysisError(f"C13: {src(node)} is not a literal struct.Struct")
        return v.fmt

    def new(self, tok, adapters=()):
        v = Val([(self.pos, tok)], self.gate, list(adapters))
        self.pos += 1
        return v

    def read_struct(self, node) -> List[Val]:
        fmt = self.struct_fmt(node)
        self.endians.add(fmt[0] if fmt[0] in "<>!=@" else "@")
        out = []
        for cnt, ch in re.findall(r"(\d*)([a-zA-Z?])", fmt.lstrip("<>!=@")):
            if ch in "sp":
                out.append(self.new(f"{cnt or 1}s"))
            elif ch == "x":
                raise AnalysisError("C13: pad bytes in struct not supported")
            else:
                for _ in range(int(cnt) if cnt else 1):
                    out.append(self.new(ch))
        return out

    def spec_ref(self, node) -> str:
        p = ap(node)
        if p and p.startswith("cls."):
            node = self.cls_attr(p[4:])
        return f"ref({strip_mod(src(node))})"

    def expr(self, n):
        if isinstance(n, ast.Constant) and n.value is None:
            return Val([], self.gate, none=True)
        if isinstance(n, ast.Name):
            if n.id not in self.env:
                raise AnalysisError(f"C13: unknown name {n.id} in fast reader")
            return self.env[n.id]
        if isinstance(n, ast.Tuple):
            return [self.expr(e) for e in n.elts]
        if isinstance(n, ast.Attribute) and isinstance(n.value, ast.Name) and isinstance(self.env.get(n.value.id), Rec):
            rec = self.env[n.value.id]
            if n.attr not in rec:
                raise AnalysisError(f"C13: record {n.value.id} has no field {n.attr}")
            return rec[n.attr]
        if isinstance(n, ast.Subscript) and isinstance(n.slice, ast.Constant) and isinstance(n.slice.value, int):
            base = self.expr(n.value)
            if isinstance(base, list):
                return base[n.slice.value]
            raise AnalysisError(f"C13: subscript of non-tuple {src(n)}")
        if isinstance(n, ast.Call):
            fname = ap(n.func) or ""
            last = fname.split(".")[-1]
            recv = ap(n.func.value) if isinstance(n.func, ast.Attribute) else None
            if recv == self.reader:
                if last == "read_struct":
                    return self.read_struct(n.args[0])
                if last == "read_bytes_null_term":
                    return self.new("cstr")
                if last == "read_bytes":
                    a = n.args[0]
                    if isinstance(a, ast.Constant) and isinstance(a.value, int):
                        return self.new(f"{a.value}s")
                    ln = self.expr(a)
                    if isinstance(ln, Val) and len(ln.toks) == 1:
                        # length prefix consumed immediately before the payload
                        v = Val([(ln.toks[0][0], f"lenprefixed({ln.toks[0][1]})")], self.gate)
                        return v
                    raise AnalysisError(f"C13: read_bytes length {src(a)} not analysable")
                if last == "read":
                    return self.new(self.spec_ref(n.args[0]))
                raise AnalysisError(f"C13: unsupported reader call {src(n)}")
            # dict(zip(<constant tuple of names>, <values read>)): a record of the values, by key
            if fname == "dict" and len(n.args) == 1 and isinstance(n.args[0], ast.Call) and ap(n.args[0].func) == "zip" \
                    and len(n.args[0].args) == 2:
                kn, vn = n.args[0].args
                kp = ap(kn) or ""
                knode = self.cls_attr(kp[4:]) if kp.startswith("cls.") or kp.startswith("self.") else kn
                keys = self.ev.ev(knode)
                vals = self.expr(vn)
                if isinstance(keys, (tuple, list)) and all(isinstance(k_, str) for k_ in keys) and isinstance(vals, list):
                    if len(keys) != len(vals):
                        raise AnalysisError(f"C13: {src(n)}: {len(vals)} values for {len(keys)} keys")
                    return Rec(zip(keys, vals))
                raise AnalysisError(f"C13: {src(n)}: key table is not a constant tuple of names")
            # NamedTuple._make(<values read>) / NamedTuple(*<values read>): a record of the values, by field name
            rci = self.repo.resolve_class(fname[:-len("._make")] if last == "_make" else fname, self.fi.module) if fname else None
            if rci is not None and record_fields(self.repo, rci) is not None and n.args:
                fields = record_fields(self.repo, rci)
                a0 = n.args[0]
                vals = self.expr(a0.value if isinstance(a0, ast.Starred) else a0) if (last == "_make" or isinstance(a0, ast.Starred)) \
                    and len(n.args) == 1 else [self.expr(a) for a in n.args]
                if not isinstance(vals, list) or len(vals) != len(fields):
                    raise AnalysisError(f"C13: {src(n)}: {len(vals) if isinstance(vals, list) else '?'} values for "
                                        f"{len(fields)} record fields")
                return Rec(zip(fields, vals))
            if last == "decode" and isinstance(n.func, ast.Attribute):
                inner = self.expr(n.func.value) if not (ap(n.func.value) or "").startswith("cls.") else None
                if inner is None:
                    # adapter.decode(value, ctx)
                    ad_node = self.cls_attr(ap(n.func.value)[4:])
                    v = self.expr(n.args[0])
                    names = {x.id for x in ast.walk(ad_node) if isinstance(x, ast.Name)} | \
                            {x.attr for x in ast.walk(ad_node) if isinstance(x, ast.Attribute)}
                    return Val(v.toks, v.gate, v.adapters + sorted(names), covers=v.covers)
                self.decodes.append(n)
                return inner
            # constructors / adapters around already-read values
            args = []
            for a in n.args:
                if isinstance(a, ast.Starred):
                    sub = self.expr(a.value)
                    args.extend(sub if isinstance(sub, list) else [sub])
                else:
                    args.append(self.expr(a))
            for k in n.keywords:
                args.append(self.expr(k.value))
            if args and all(isinstance(a, Val) for a in args):
                toks = [t for a in args for t in a.toks]
                positions = [p for p, _ in toks]
                if positions != list(range(positions[0], positions[0] + len(positions))):
                    raise AnalysisError(f"C13: {src(n)} combines non-consecutive stream values")
                covers = set().union(*[a.positions() for a in args])
                if len(toks) > 1 and len({t for _, t in toks}) == 1 and len(toks[0][1]) == 1:
                    toks = [(positions[0], f"{len(toks)}{toks[0][1]}")]
                gates = {a.gate for a in args}
                if len(gates) != 1:
                    raise AnalysisError(f"C13: {src(n)} mixes gates")
                return Val(toks, gates.pop(), sum((a.adapters for a in args), []) + [strip_mod(last)], covers=covers)
            raise AnalysisError(f"C13: unsupported call {src(n)} in fast reader")
        raise AnalysisError(f"C13: unsupported expression {src(n)} in fast reader")

    def assign(self, target, value):
        if isinstance(target, ast.Name):
            if isinstance(value, Val) and value.none and target.id in self.env and isinstance(self.env[target.id], Val) \
                    and not self.env[target.id].none \
                    and self.gate is not None:
                raise AnalysisError("C13: gated reset to None not supported")
            self.env[target.id] = value
        elif isinstance(target, ast.Tuple):
            if not isinstance(value, list) or len(value) != len(target.elts):
                raise AnalysisError(f"C13: tuple unpack arity mismatch at line {target.lineno}: "
                                    f"{len(target.elts)} targets for {len(value) if isinstance(value, list) else '?'} values")
            for t, v in zip(target.elts, value):
                self.assign(t, v)
        else:
            raise AnalysisError(f"C13: unsupported assignment target {src(target)}")

    def gate_of(self, test) -> Optional[tuple]:
        """flags & CompressedFlags.X(.value) -> ('X',)"""
        if isinstance(test, ast.Call) and isinstance(test.func, ast.Name) and test.func.id in self.closures:
            params, body = self.closures[test.func.id]
            import copy as _copy
            mapping = dict(zip(params, test.args))

            class _Sub(ast.NodeTransformer):
                def visit_Name(self, node):
                    if node.id in mapping:
                        return clone_ast(mapping[node.id])
                    return node
            return self.gate_of(_Sub().visit(clone_ast(body)))
        if isinstance(test, ast.BinOp) and isinstance(test.op, ast.BitAnd):
            for a, b in ((test.left, test.right), (test.right, test.left)):
                pa = ap(a)
                pb = strip_mod(ap(b) or "")
                if pa and pa in self.env and pb.startswith("CompressedFlags."):
                    return (pb.replace("CompressedFlags.", "").replace(".value", ""),)
        return None

    def block(self, stmts):
        for st in stmts:
            if isinstance(st, ast.Assign) and len(st.targets) == 1:
                tgt = st.targets[0]
                if isinstance(st.value, ast.Call) and (ap(st.value.func) or "").split(".")[-1] == "SimpleStructReader":
                    self.reader = tgt.id
                    e = st.value.args[0]
                    if isinstance(e, ast.Constant):
                        self.endians.add(e.value)
                    continue
                inl = self._inline_rewrap_helper(tgt, st.value)
                if inl is not None:
                    self.block(inl)
                    continue
                self.assign(tgt, self.expr(st.value))
            elif isinstance(st, ast.If):
                g = self.gate_of(st.test)
                reads = [c for c in calls(st) if isinstance(c.func, ast.Attribute) and ap(c.func.value) == self.reader]
                if g is None:
                    if reads:
                        # reads under a non-flag condition: give them a gate the template cannot match
                        g = ("cond:" + norm(st.test),)
                    else:
                        self._adapter_if(st)
                        continue
                if self.gate is not None:
                    raise AnalysisError("C13: nested gates not supported")
                if st.orelse and any(isinstance(c, ast.Call) for s in st.orelse for c in calls(s)
                                     if isinstance(c.func, ast.Attribute) and ap(c.func.value) == self.reader):
                    # else/elif branch that reads: gate is the negation + its own test
                    self.gate = g
                    self.block(st.body)
                    self.gate = None
                    sub = st.orelse
                    if len(sub) == 1 and isinstance(sub[0], ast.If):
                        g2 = self.gate_of(sub[0].test) or ("cond:" + norm(sub[0].test),)
                        self.gate = ("not " + g[0],) + g2
                        self.block(sub[0].body)
                        self.gate = None
                        if sub[0].orelse:
                            raise AnalysisError("C13: deep elif chain with reads not supported")
                    else:
                        self.gate = ("not " + g[0],)
                        self.block(sub)
                        self.gate = None
                    continue
                self.gate = g
                self.block(st.body)
                self.gate = None
                if st.orelse:
                    self.block(st.orelse)
            elif isinstance(st, ast.Try) and not st.finalbody and not st.orelse and st.handlers and len(st.body) == 1 and \
                    isinstance(st.body[0], ast.Assign) and len(st.body[0].targets) == 1 and isinstance(st.body[0].value, ast.Call) and \
                    all(len(h.body) == 1 and (isinstance(h.body[0], ast.Pass) or (
                        # `except ValueError: x = <the wrapped call's own argument>`: keeps the raw value
                        isinstance(h.body[0], ast.Assign) and len(h.body[0].targets) == 1 and
                        norm(h.body[0].targets[0]) == norm(st.body[0].targets[0]) and st.body[0].value.args and
                        norm(h.body[0].value) == norm(st.body[0].value.args[0]))) for h in st.handlers):
                # `try: x = Enum(x) except ValueError: pass`: a wrap that keeps the raw value when the class rejects it
                for c in [c for s_ in st.body for c in calls(s_)]:
                    nm = strip_mod(ap(c.func) or "")
                    if nm[:1].isupper():
                        self.lenient_wraps.add(nm)
                self.block(st.body)
            elif isinstance(st, ast.Return):
                if isinstance(st.value, ast.Dict):
                    self.ret = st.value
                else:
                    raise AnalysisError("C13: fast reader no longer returns a dict literal")
            elif isinstance(st, ast.Expr):
                continue
            elif isinstance(st, ast.FunctionDef):
                # local predicate helper, e.g. has_section(flag): return flags & flag.value
                body = [x for x in st.body if not (isinstance(x, ast.Expr) and isinstance(x.value, ast.Constant))]
                if len(body) == 1 and isinstance(body[0], ast.Return) and body[0].value is not None:
                    self.closures[st.name] = ([a.arg for a in st.args.args], body[0].value)
                else:
                    raise AnalysisError(f"C13: unsupported local function {st.name} in fast reader")
            else:
                raise AnalysisError(f"C13: unsupported statement {type(st).__name__} in fast reader (line {st.lineno})")

    def _inline_rewrap_helper(self, tgt, call):
        """`x = cls._helper(a, b)` where the helper is a chain of `if <test>: return <wrap(value)>` ending in
        `return <value>`: the same conditional re-wrapping written inline (`x = b; if ..: x = wrap(x) elif ..`)."""
        if not (isinstance(tgt, ast.Name) and isinstance(call, ast.Call) and isinstance(call.func, ast.Attribute)
                and isinstance(call.func.value, ast.Name) and call.func.value.id in ("cls", "self")):
            return None
        m = self.repo.lookup_method(self.ci, call.func.attr)
        if m is None or call.keywords:
            return None
        body = [x for x in m.node.body if not (isinstance(x, ast.Expr) and isinstance(x.value, ast.Constant))]
        if len(body) < 2 or not isinstance(body[-1], ast.Return) or body[-1].value is None:
            return None
        arms = []
        for x in body[:-1]:
            if not (isinstance(x, ast.If) and not x.orelse and len(x.body) == 1 and isinstance(x.body[0], ast.Return)
                    and x.body[0].value is not None):
                return None
            arms.append((x.test, x.body[0].value))
        params = [a.arg for a in m.node.args.args]
        if any((ap(d) or "") == "staticmethod" for d in m.node.decorator_list):
            recv = None
        else:
            recv, params = params[0], params[1:]
        if len(params) != len(call.args):
            return None
        rets = [e for _, e in arms] + [body[-1].value]
        value_params = [p_ for p_ in params if all(any(isinstance(n_, ast.Name) and n_.id == p_ for n_ in ast.walk(e)) for e in rets)]
        if len(value_params) != 1 or not (isinstance(body[-1].value, ast.Name) and body[-1].value.id == value_params[0]):
            return None
        vp = value_params[0]
        mapping = {p_: a for p_, a in zip(params, call.args)}

        def sub(e):
            e = clone_ast(e)

            class _S(ast.NodeTransformer):
                def visit_Name(self_, node):
                    if node.id == vp:
                        return ast.copy_location(ast.Name(id=tgt.id, ctx=node.ctx), node)
                    if node.id in mapping:
                        return clone_ast(mapping[node.id])
                    if recv is not None and node.id == recv:
                        return ast.copy_location(ast.Name(id="cls", ctx=node.ctx), node)
                    return node
            return ast.fix_missing_locations(_S().visit(e))
        first = ast.copy_location(ast.Assign(targets=[ast.Name(id=tgt.id, ctx=ast.Store())], value=clone_ast(mapping[vp])), call)
        chain = []
        for test, e in reversed(arms):
            node = ast.If(test=sub(test), body=[ast.Assign(targets=[ast.Name(id=tgt.id, ctx=ast.Store())], value=sub(e))], orelse=chain)
            chain = [ast.copy_location(node, call)]
        out = [first] + chain
        for o in out:
            ast.fix_missing_locations(o)
        from ..core import set_parents
        for o in out:
            set_parents(o)
        return out

    def _adapter_if(self, st):
        """if/elif on already-read values that only re-wraps values (State adapters)."""
        for sub in (st.body, st.orelse):
            for s in sub:
                if isinstance(s, ast.If):
                    self._adapter_if(s)
                elif isinstance(s, ast.Assign) and len(s.targets) == 1 and isinstance(s.targets[0], ast.Name):
                    v = self.expr(s.value)
                    old = self.env.get(s.targets[0].id)
                    if isinstance(v, Val) and isinstance(old, Val) and v.toks == old.toks:
                        self.cond_adapters.append((st.test, s.targets[0].id, [a for a in v.adapters if a not in old.adapters], s))
                        self.env[s.targets[0].id] = Val(old.toks, old.gate, sorted(set(old.adapters + v.adapters)), covers=old.covers)
                    else:
                        raise AnalysisError(f"C13: conditional assignment {src(s)} changes stream origin")
                elif isinstance(s, (ast.Expr, ast.Pass)):
                    continue
                else:
                    raise AnalysisError(f"C13: unsupported statement under condition {norm(st.test)}")


def run(ctx):
    r4(ctx)
    r5(ctx)
    r6(ctx)
    r7(ctx)
    r8(ctx)
    repo = ctx.repo
    ctx.rule("C13.R1", "field-by-field agreement of the hand-written reader with the template: same output keys "
                       "in the same wire order, same gate flag, same wire signature")
    ctx.rule("C13.R2", "adapters/constructors applied by the fast path are the ones the template names for that "
                       "field; text decoding is strict on both sides; byte order equal; gate flags are "
                       "CompressedFlags members tested against the Flags field")
    tfields, flag_field, tci = template_fields(ctx)
    ctx.floor("C13.R1", "template fields", len(tfields), 40)
    fci = repo.cls("FastObjectUpdateCompressedDataDeserializer", OBJ)
    fi = fci.methods.get("read")
    ctx.require(fi is not None, "FastObjectUpdateCompressedDataDeserializer.read vanished")
    interp = FastInterp(ctx, fi, fci)
    interp.block(fi.node.body)
    ctx.require(interp.ret is not None, "fast reader has no returned dict")
    where = fi.where
    # output keys -> values
    fast = []
    ret_items = []
    for k, v in zip(interp.ret.keys, interp.ret.values):
        rec_name = None
        if k is None and isinstance(v, ast.Call) and isinstance(v.func, ast.Attribute) and v.func.attr == "_asdict" \
                and isinstance(v.func.value, ast.Name):
            rec_name = v.func.value.id
        elif k is None and isinstance(v, ast.Name):
            rec_name = v.id
        if rec_name is not None and isinstance(interp.env.get(rec_name), Rec):
            for fname_, fval in interp.env[rec_name].items():
                ret_items.append((ast.copy_location(ast.Constant(value=fname_), v), fval, v))
            continue
        ret_items.append((k, None, v))
    for k, pre, v in ret_items:
        ctx.require(isinstance(k, ast.Constant), "fast reader dict key is not a literal")
        val = pre if pre is not None else interp.expr(v)
        ctx.require(isinstance(val, Val), f"fast reader value for {k.value} not analysable")
        fast.append({"key": k.value, "val": val, "node": v})
    ctx.floor("C13.R1", "fast reader keys", len(fast), 40)
    tkeys = [f["key"] for f in tfields]
    fkeys = [f["key"] for f in fast]
    for k in tkeys:
        ctx.ob("C13.R1", f"key {k} produced by the fast reader", k in fkeys, where,
               "template field has no counterpart in the hand-written reader")
    for k in fkeys:
        ctx.ob("C13.R1", f"key {k} declared by the template", k in tkeys, where,
               "hand-written reader emits a field the template does not declare")
    # every key backed by exactly the stream values, in template order
    by_key = {f["key"]: f for f in fast}
    order = sorted((f for f in fast if f["val"].toks), key=lambda f: f["val"].toks[0][0])
    t_order = [f["key"] for f in tfields]
    f_order = [f["key"] for f in order]
    ctx.ob("C13.R1", "wire order of fields equal", f_order == [k for k in t_order if k in f_order] and
           len(f_order) == len([k for k in t_order if k in by_key]), where,
           f"first difference: {next(((a, b) for a, b in zip(t_order, f_order) if a != b), None)}")
    used_positions = []
    for tf in tfields:
        ff = by_key.get(tf["key"])
        if ff is None:
            continue
        v: Val = ff["val"]
        sig = "+".join(t for _, t in v.toks) if v.toks else "none"
        ctx.ob("C13.R1", f"{tf['key']}: wire signature", sig == tf["sig"], ctx.w(fi, ff["node"]),
               f"template {tf['sig']} vs fast reader {sig}")
        ctx.ob("C13.R1", f"{tf['key']}: gate", v.gate == tf["gate"], ctx.w(fi, ff["node"]),
               f"template gate {tf['gate']} vs fast reader gate {v.gate}")
        used_positions.extend(sorted(v.positions()))
        # R2 adapters
        allowed = set(tf["adapters"]) | {"UUID", "Vector3", "Vector4", "Quaternion"} | \
            {n.id for n in ast.walk(tf["node"]) if isinstance(n, ast.Name)} | \
            {n.attr for n in ast.walk(tf["node"]) if isinstance(n, ast.Attribute)}
        extra = [a for a in v.adapters if a not in allowed and a[:1].isupper()]
        ctx.ob("C13.R2", f"{tf['key']}: fast-path adapters named by the template", not extra, ctx.w(fi, ff["node"]),
               f"fast path applies {extra}, template field is {norm(tf['node'])}")
    # enum-adapted rows: the template's se.IntEnum rejects an unknown wire value only in strict mode; the fast reader
    # rejects one only where it calls the enum class on the value.  The template may not reject what the fast path accepts.
    ie = repo.cls("IntEnum", SER)
    ie_init = ie.methods.get("__init__")
    ctx.require(ie_init is not None, "C13.R2: serialization.IntEnum.__init__ vanished")
    ia = ie_init.node.args
    pos_params = [a.arg for a in ia.args][1:]
    defaults = dict(zip([a.arg for a in ia.args][len(ia.args) - len(ia.defaults):], ia.defaults))
    defaults.update({k.arg: d for k, d in zip(ia.kwonlyargs, ia.kw_defaults) if d is not None})
    evs = ConstEval(repo, repo.module(SER))
    n_enum_rows = 0
    for tf in tfields:
        for c in [n for n in ast.walk(tf["node"]) if isinstance(n, ast.Call) and strip_mod(ap(n.func) or "") == "IntEnum"]:
            n_enum_rows += 1
            strict_node = kw(c, "strict")
            if strict_node is None and "strict" in pos_params and len(c.args) > pos_params.index("strict"):
                strict_node = c.args[pos_params.index("strict")]
            if strict_node is None:
                strict_node = defaults.get("strict")
            strict = evs.ev(strict_node) if strict_node is not None else None
            ff = by_key.get(tf["key"])
            enum_name = strip_mod(src(c.args[0])) if c.args else "?"
            fast_wraps = ff is not None and enum_name in ff["val"].adapters
            fast_rejects = fast_wraps and enum_name not in interp.lenient_wraps
            ctx.ob("C13.R2", f"{tf['key']}: template enum adapter rejects no wire value the fast reader accepts",
                   strict is False or (strict is True and fast_rejects), ctx.w(tci.module, c),
                   f"se.IntEnum({enum_name}) is strict={strict!r} here (explicit argument or the constructor's default) while "
                   f"the fast reader {'wraps' if fast_rejects else 'keeps the raw value of'} {tf['key']}")
            # ... and the other way round (D53): a value the lenient template keeps as a number may not make the fast reader raise
            ctx.ob("C13.R2", f"{tf['key']}: fast reader rejects no wire value the template enum adapter accepts",
                   strict is True or not fast_rejects, ctx.w(fi, ff["node"]) if ff is not None else ctx.w(tci.module, c),
                   f"the fast reader calls {enum_name}(value) outside a `try ... except ValueError: pass`, which raises for every "
                   f"wire value without a member, while se.IntEnum({enum_name}) is strict={strict!r} and keeps such values as numbers")
            # ... and where it wraps, the constructor call must be the member lookup the adapter does (`val in iter(enum)`):
            # an enum with its own `_missing_` / `__new__` turns non-member wire values into members, se.IntEnum does not
            eci = repo.resolve_class(enum_name, tci.module)
            if fast_wraps and eci is not None:
                custom = [(k, m_) for k in repo.mro(eci) if k.module.rel.startswith("hippolyzer/")
                          for m_ in ("_missing_", "__new__") if m_ in k.methods]
                ctx.ob("C13.R2", f"{tf['key']}: {enum_name}(value) is plain member lookup (no _missing_ / __new__)", not custom,
                       ctx.w(custom[0][0].methods[custom[0][1]], custom[0][0].methods[custom[0][1]].node) if custom
                       else ctx.w(tci.module, c),
                       f"{custom[0][0].name}.{custom[0][1]} customises what {enum_name}(value) returns for a value without a member: "
                       f"the fast reader calls the class, the template's se.IntEnum only tests membership and keeps the number - "
                       f"the two decoders then disagree on such a wire value (and on every field switched on it)" if custom else "")
    ctx.floor("C13.R2", "se.IntEnum rows in the compressed template", n_enum_rows, 2)
    # every stream position read is delivered to some key (nothing silently skipped -> offsets agree)
    consumed = set(range(interp.pos))
    lost = sorted(consumed - set(used_positions))
    ctx.ob("C13.R1", "every value read reaches an output key", not lost, where,
           f"{len(lost)} stream value(s) read but not returned (positions {lost[:5]})")
    dup = sorted({p for p in used_positions if used_positions.count(p) > 1})
    ctx.ob("C13.R1", "no stream value feeds two keys", not dup, where, f"positions {dup[:5]}")
    # R2: gates are members of CompressedFlags and the template option switches on the Flags field
    members = enum_members(repo, repo.cls("CompressedFlags", TMPL))
    ctx.floor("C13.R2", "CompressedFlags members", len(members), 11)
    gates_t = {f["gate"][0] for f in tfields if f["gate"]}
    for g in sorted(gates_t):
        ctx.ob("C13.R2", f"gate {g} is a CompressedFlags member", g in members, tci.module.rel)
    vals = [v for v in members.values()]
    ctx.ob("C13.R2", "CompressedFlags bits distinct powers of two",
           len(set(vals)) == len(vals) and all(isinstance(v, int) and v > 0 and v & (v - 1) == 0 for v in vals),
           tci.module.rel)
    ctx.ob("C13.R2", "CompressedOption switches on the field the fast reader tests",
           flag_field == "Flags" and "Flags" in by_key and by_key["Flags"]["val"].toks ==
           interp.env.get("flags", Val([])).toks, where)
    # the fast reader's NUL-terminated read scans to the terminator without a length bound: the template's CStr /
    # BytesTerminated has none, so a bound here rejects (or cuts) strings the template decodes
    rnt = repo.lookup_method(repo.cls("SimpleStructReader", OBJ), "read_bytes_null_term")
    ctx.require(rnt is not None, "SimpleStructReader.read_bytes_null_term vanished")
    bounded = []
    for c in calls(rnt.node):
        if isinstance(c.func, ast.Attribute) and c.func.attr in ("find", "index", "rfind", "rindex") and \
                (len(c.args) >= 3 or any(k_.arg in ("end", "__end") for k_ in c.keywords)):
            bounded.append(norm(c))
        if isinstance(c.func, ast.Attribute) and c.func.attr in ("split", "partition") and len(c.args) >= 2:
            bounded.append(norm(c))
    for w in [n for n in walk(rnt.node) if isinstance(n, ast.While)]:
        ats = atoms(w.test, True)
        extra_t = [norm(e) for e, _ in ats if not (isinstance(e, ast.Compare) and isinstance(e.comparators[0], ast.Constant)
                                                 and e.comparators[0].value in (0, b"\x00"))]
        if extra_t:
            bounded.append("while " + norm(w.test))
    for n_ in walk(rnt.node):
        if isinstance(n_, ast.Subscript) and isinstance(n_.slice, ast.Slice) and n_.slice.upper is not None and \
                isinstance(getattr(n_, "_parent", None), ast.Attribute) and n_._parent.attr in ("find", "index"):
            bounded.append(norm(n_))
    ctx.ob("C13.R2", "fast reader's NUL-terminated read has no length bound (the template's CStr has none)", not bounded,
           rnt.where, f"the terminator search is limited by {bounded}: a longer string is decoded by the template and "
           f"rejected or cut by the fast reader")
    # strict text decoding on both sides
    cstr = repo.cls("CStr", SER)
    des = cstr.methods.get("deserialize")
    ser = cstr.methods.get("serialize")
    ctx.require(des is not None and ser is not None, "se.CStr.serialize/deserialize vanished")
    from .common import class_methods_reachable as _cmr
    # the text codec call may sit in a helper of the class or of a shared base (TextSpecBase._decode_text)
    t_dec = [c for g in _cmr(repo, des, depth=2) for c in calls(g.node) if isinstance(c.func, ast.Attribute) and c.func.attr == "decode"
             and not (isinstance(c.func.value, ast.Name) and c.func.value.id in ("self", "cls"))]
    t_enc = [c for g in _cmr(repo, ser, depth=2) for c in calls(g.node) if isinstance(c.func, ast.Attribute) and c.func.attr == "encode"
             and not (isinstance(c.func.value, ast.Name) and c.func.value.id in ("self", "cls"))]
    ctx.ob("C13.R2", "CStr decodes/encodes once each", len(t_dec) == 1 and len(t_enc) == 1, des.where)

    def strictness(c):
        mode = "strict"
        if len(c.args) > 1:
            mode = src(c.args[1])
        for k in c.keywords:
            if k.arg == "errors":
                mode = src(k.value)
        return mode.strip("'\"")
    for c in t_dec + t_enc:
        ctx.ob("C13.R2", f"CStr.{'deserialize' if c in t_dec else 'serialize'} text codec is strict",
               strictness(c) == "strict", ctx.w(des, c),
               f"errors={strictness(c)}: lenient on one side changes bytes on re-encode and disagrees with the strict fast reader")
    for c in interp.decodes:
        ctx.ob("C13.R2", f"fast reader text decode strict: {norm(c)}", strictness(c) == "strict", ctx.w(fi, c))
        enc = c.args[0].value if c.args and isinstance(c.args[0], ast.Constant) else None
        # template CStr() default encoding
        init = cstr.methods["__init__"].node
        defaults = dict(zip([a.arg for a in init.args.args][-len(init.args.defaults):], init.args.defaults))
        tenc = defaults.get("encoding")
        ctx.ob("C13.R2", f"fast reader text encoding equals CStr default: {norm(c)}",
               isinstance(tenc, ast.Constant) and enc is not None and
               enc.replace("-", "").lower() == str(tenc.value).replace("-", "").lower(), ctx.w(fi, c))
    # conditional adapter dispatch (State): same selector and same choices as the template's ContextAdapter
    by_tkey = {f["key"]: f for f in tfields}
    for test, var, added, stmt in interp.cond_adapters:
        keys_for_var = [f["key"] for f in fast if isinstance(f["node"], ast.Name) and f["node"].id == var]
        tf = by_tkey.get(keys_for_var[0]) if keys_for_var else None
        inst = f"conditional adapter on {keys_for_var[0] if keys_for_var else var} under `{norm(test)}`"
        if tf is None:
            ctx.ob("C13.R2", inst + ": field declared by template", False, ctx.w(fi, stmt))
            continue
        tnode = tf["node"]
        cname = strip_mod(ap(tnode.func) or "") if isinstance(tnode, ast.Call) else ""
        aci = repo.resolve_class(cname, repo.module(TMPL))
        choices = None
        selector = None
        parts = _ctx_adapter_parts(repo, aci) if aci is not None else None
        if parts is not None:
            key_body, pn, choices = parts
            # the field of the context the choice is made on: every use of the parameter reads that one field
            attrs = {x.attr for x in ast.walk(key_body) if isinstance(x, ast.Attribute)
                     and isinstance(x.value, ast.Name) and x.value.id == pn}
            if len(attrs) == 1:
                selector = next(iter(attrs))
        if choices is None or selector is None:
            raise AnalysisError(f"C13.R2: template adapter {cname} for {tf['key']} has no analysable choice table")
        # the fast path must test exactly `<selector value> == <Enum>.<K>`
        ok_test = isinstance(test, ast.Compare) and len(test.ops) == 1 and isinstance(test.ops[0], ast.Eq)
        sel_ok = False
        kname = None
        if ok_test:
            lv = interp.env.get(ap(test.left) or "")
            sel_field = by_key.get(selector)
            sel_ok = isinstance(lv, Val) and sel_field is not None and lv.toks == sel_field["val"].toks
            kname = strip_mod(ap(test.comparators[0]) or "")
        ctx.ob("C13.R2", inst + f": dispatches on the template's selector ({selector}) alone", bool(ok_test and sel_ok),
               ctx.w(fi, stmt), "template switches on ctx." + selector + " only; an extra/other condition makes the decoders disagree")
        tchoice = None
        for k, v in zip(choices.keys, choices.values):
            if strip_mod(ap(k) or "") == kname:
                tchoice = v
        names = set()
        if tchoice is not None:
            names = {n.id for n in ast.walk(tchoice) if isinstance(n, ast.Name)} | \
                    {n.attr for n in ast.walk(tchoice) if isinstance(n, ast.Attribute)}
        # adapter names applied under this branch must be the ones the template's choice names
        applied = {a for a in added if a[:1].isupper()}
        # decode through a class-level adapter instance: names were expanded from its constructor expression
        ctx.ob("C13.R2", inst + f": applies the template's choice for {kname}", tchoice is not None and bool(applied & names),
               ctx.w(fi, stmt), f"fast path applies {sorted(applied)[:6]}, template choice is {norm(tchoice) if tchoice is not None else None}")
    # every non-default template choice is handled by the fast path
    for tf in tfields:
        tnode = tf["node"]
        if isinstance(tnode, ast.Call):
            aci = repo.resolve_class(strip_mod(ap(tnode.func) or ""), repo.module(TMPL))
            if aci is not None and any(c.name == "ContextAdapter" for c in repo.mro(aci)) and "__init__" in aci.methods:
                for c in calls(aci.methods["__init__"].node):
                    if isinstance(c.func, ast.Attribute) and c.func.attr == "__init__":
                        for a in c.args:
                            if isinstance(a, ast.Dict):
                                for k, v in zip(a.keys, a.values):
                                    kn = strip_mod(ap(k) or "")
                                    if kn.endswith("MISSING") or "IdentityAdapter" in src(v):
                                        continue
                                    handled = any(isinstance(t, ast.Compare) and strip_mod(ap(t.comparators[0]) or "") == kn
                                                  for t, _, _, _ in interp.cond_adapters)
                                    ctx.ob("C13.R2", f"{tf['key']}: template choice {kn} handled by the fast reader",
                                           handled, where, f"template decodes {tf['key']} through {norm(v)} for {kn}")
    # the packed rotation adapter shared by both decoders must be a pure projection on encode
    pq = repo.cls("PackedQuat", SER)
    enc = pq.methods.get("encode")
    ctx.require(enc is not None, "se.PackedQuat.encode vanished")
    arith = [n for n in walk(enc.node) if isinstance(n, (ast.BinOp, ast.AugAssign))] + \
            [c for c in calls(enc.node) if (ap(c.func) or "").startswith(("math.", "np.", "numpy."))
             or (ap(c.func) or "") in ("sum", "abs", "round", "pow")]
    ctx.ob("C13.R2", "PackedQuat.encode is arithmetic-free (drops W, never rescales components)", not arith,
           ctx.w(enc, arith[0]) if arith else enc.where,
           "decode rebuilds W from the three wire components; any arithmetic on them in encode changes the re-encoded bytes")
    # R3: the shared normaliser works in place - it must only ever do so on a fresh fast-reader result
    ctx.rule("C13.R3", "normalize_object_update_compressed_data mutates (del/pop/store) only a dict freshly produced by "
                       "the hand-written reader (or an explicit copy) - never its argument or a cached template result")
    from ..core import stores as _stores
    nf = repo.fn("normalize_object_update_compressed_data", OBJ)
    mutated = {}
    for st in _stores(nf.node, into_defs=False):
        if st.kind in ("delitem", "setitem", "augsetitem") or (st.kind == "mutcall" and st.method in ("pop", "update", "clear", "setdefault", "popitem")):
            if "." not in st.path:
                mutated.setdefault(st.path, st)
    ctx.require(bool(mutated), "normalize_object_update_compressed_data no longer normalises in place (re-read)")
    params = {a.arg for a in nf.node.args.args}
    for name, st in mutated.items():
        srcs = [s.value for s in _stores(nf.node, into_defs=False) if s.path == name and s.kind == "assign" and s.value is not None]
        def fresh(v):
            if isinstance(v, ast.Call):
                fn = ap(v.func) or ""
                if fn.endswith("FastObjectUpdateCompressedDataDeserializer.read") or fn.split(".")[-1] in ("dict", "copy", "deepcopy"):
                    return True
            if isinstance(v, ast.Dict):
                return True
            return False
        ok = name not in params and bool(srcs) and all(fresh(v) for v in srcs)
        ctx.ob("C13.R3", f"normalize_object_update_compressed_data: `{name}` (mutated in place) is always a fresh reader result",
               ok, ctx.w(nf, st.node), f"assigned from {[norm(v) for v in srcs] or 'a parameter'}: normalising a shared dict in place "
               f"corrupts the template result cached on the block")
    callers = [c for f2 in repo.all_funcs if f2.parent_fn is None for c in calls(f2.node, into_defs=True)
               if (ap(c.func) or "").split(".")[-1] == "normalize_object_update_compressed_data"]
    for c in callers:
        a0 = c.args[0] if c.args else None
        bad = a0 is not None and "_ser_cache" in src(a0) or (a0 is not None and any(isinstance(x, ast.Call) and (ap(x.func) or "").endswith("deserialize_var") for x in ast.walk(a0)))
        ctx.ob("C13.R3", f"caller passes the raw payload: {norm(c)}", not bad, f"{OBJ}:{c.lineno}",
               "the normaliser must decode the payload bytes itself (fast reader), not reuse a deserialised template value")
    r2(ctx)
    # endianness
    base = repo.cls("BaseSubfieldSerializer", SER)
    e_node = repo.class_attr(tci, "ENDIANNESS")
    endian = e_node.value if isinstance(e_node, ast.Constant) else None
    ctx.ob("C13.R2", "byte order equal", interp.endians == {endian}, where,
           f"fast reader {sorted(interp.endians)} vs template serializer {endian!r}")
    # the object tracker really uses the fast reader and the template is registered for the same variable
    ctx.level = "translation_validation"
    ctx.extra_cov = {"programs": 2, "disagreements_checked": len(ctx.obligations),
                     "trusted_base": ["CPython ast", "struct format semantics", "hipposa C13 abstract interpreter"]}
    ctx.stats["fields"] = len(tfields)
    ctx.stats["stream_values"] = interp.pos
    ctx.assume("ref(...) sub-templates are shared objects on both sides (identical by construction)")
    ctx.assume("malformed payloads and value equality inside sub-templates are not decided")


def r4(ctx):
    """Cache-file framing: RegionViewerObjectCache.from_file walks `[header][payload of header.size bytes]` records.
    An iteration that has read a header may leave without reading the payload only for a reason stated by the size
    field itself (nothing to read / size declared invalid) or at end of data; any other skip in front of the payload
    read leaves the cursor inside the payload and every later entry is parsed from the wrong offset."""
    repo = ctx.repo
    ctx.rule("C13.R4", "viewer object cache framing: in RegionViewerObjectCache.from_file every entry whose header was "
                       "read has its payload consumed before the loop moves on, unless the size field itself rules it out")
    f0 = repo.fn("RegionViewerObjectCache.from_file")
    from .common import class_methods_reachable
    hosts = []
    for g in class_methods_reachable(repo, f0, depth=2):
        for c in calls(g.node):
            if isinstance(c.func, ast.Attribute) and c.func.attr == "read_bytes" and c.args:
                hosts.append((g, c))
    ctx.require(len(hosts) == 1, f"C13.R4: from_file (and its helpers) no longer have exactly one payload read ({len(hosts)})")
    f, pr = hosts[0]
    size_names = {n.id for n in ast.walk(pr.args[0]) if isinstance(n, ast.Name)}
    loop = next((l for l in walk(f.node) if isinstance(l, (ast.For, ast.While)) and any(x is pr for x in ast.walk(l))), None)
    ctx.require(bool(size_names), "C13.R4: payload read has no size variable")
    if f is f0:
        ctx.require(loop is not None, "C13.R4: payload read is not inside the entry loop")
    # the statement list that reads one entry: the loop body, or the body of the per-entry helper
    body = loop.body if loop is not None else f.node.body
    pidx = next(i for i, st in enumerate(body) if any(x is pr for x in ast.walk(st)))
    first_read = next((i for i, st in enumerate(body[:pidx]) if any(isinstance(c, ast.Call) and isinstance(c.func, ast.Attribute)
                                                                    and c.func.attr == "read" for c in ast.walk(st))), None)
    ctx.require(first_read is not None, "C13.R4: no header read in front of the payload read")
    n = 0
    for st in body[first_read + 1:pidx]:
        for x in ast.walk(st):
            if isinstance(x, (ast.Continue, ast.Return)):
                conds = conditions(x, f.node)
                names = set()
                for c in conds:
                    if c.kind in ("if", "early-exit") and any(c.test is t or any(c.test is y for y in ast.walk(t))
                                                              for t in [s_.test for s_ in ast.walk(st) if isinstance(s_, ast.If)]):
                        names |= {y.id for y in ast.walk(c.test) if isinstance(y, ast.Name)}
                n += 1
                # module-level / class-level constants in the test are part of the bound, not of the entry
                names = {y for y in names if not isinstance(ConstEval(repo, f.module).ev(ast.Name(id=y, ctx=ast.Load())), (int, float))
                         or y in size_names}
                ok = bool(names) and names <= size_names
                ctx.ob("C13.R4", f"from_file: skip `{norm(st)[:60]}` in front of the payload read depends on the size field only",
                       ok, ctx.w(f, x), f"the entry is skipped on {sorted(names - size_names) or 'no condition'} before its "
                       f"{'/'.join(sorted(size_names))} payload bytes are consumed: the next header is read from inside the payload")
    ctx.ob("C13.R4", "from_file: payload read follows the header reads in the entry loop", True, ctx.w(f, pr))


def r2(ctx):
    """The separately callable part of C13.R2: Quaternion.__init__ keeps the three wire components exactly as given
    (W is derived; X/Y/Z are never recomputed).  Every decoder - the compressed-object readers and the template data
    packer's LLQuaternion unpacker - builds rotations through this constructor."""
    repo = ctx.repo
    ctx.rule("C13.R2", "adapters/constructors applied by the fast path are the ones the template names for that "
                       "field; text decoding is strict on both sides; byte order equal; gate flags are "
                       "CompressedFlags members tested against the Flags field")
    # the three wire components of a packed rotation are kept exactly as read (W is derived, X/Y/Z never recomputed)
    qc = repo.cls("Quaternion", "hippolyzer/lib/base/datatypes.py")
    qi = qc.methods.get("__init__")
    ctx.require(qi is not None, "datatypes.Quaternion.__init__ vanished")
    qparams = [a.arg for a in qi.node.args.args if a.arg != "self"][:3]
    from ..core import stores as _st2
    for comp in qparams:
        sts = [x for x in _st2(qi.node, into_defs=False) if x.path in (f"self.{comp}", comp)]
        ok = len(sts) == 1 and sts[0].path == f"self.{comp}" and sts[0].value is not None and \
            (ap(sts[0].value) == comp or (isinstance(sts[0].value, ast.Call) and ap(sts[0].value.func) == "float"
                                          and len(sts[0].value.args) == 1 and ap(sts[0].value.args[0]) == comp))
        ctx.ob("C13.R2", f"Quaternion.__init__ stores component {comp} exactly as given", ok, qi.where,
               f"{[norm(x.node) for x in sts]}: both decoders build rotations through this constructor; recomputing a wire "
               f"component changes the re-encoded payload")



def _resolve_spec_call(repo, mod, node, depth=0):
    """the constructor call behind a spec expression (module-level names are looked through)"""
    while isinstance(node, (ast.Name, ast.Attribute)) and depth < 5:
        name = node.id if isinstance(node, ast.Name) else node.attr
        nxt = repo.module_assign(mod, name)
        if nxt is None:
            return None
        node, depth = nxt, depth + 1
    return node if isinstance(node, ast.Call) else None


def _bind(call, init, env=None):
    """parameter name -> argument node of `call` against the signature of `init` (defaults filled in; Names of the
    caller's own parameters are replaced through `env`)"""
    params = [a.arg for a in init.node.args.args][1:]
    defaults = init.node.args.defaults
    out = {}
    for i, p_ in enumerate(params):
        j = i - (len(params) - len(defaults))
        if 0 <= j < len(defaults):
            out[p_] = defaults[j]
    args = [a for a in call.args if not isinstance(a, ast.Starred)]
    for p_, a in zip(params, args):
        out[p_] = a
    for kw_ in call.keywords:
        if kw_.arg in params:
            out[kw_.arg] = kw_.value
    if env:
        out = {k: (env.get(v.id) if isinstance(v, ast.Name) and v.id in env else v) for k, v in out.items()}
    return out


def _ctor_arg(repo, ci, call, attr):
    """value node a construction `call` of class `ci` gives to the field stored as self.<attr>, followed through
    `super().__init__(...)` forwarding (None: unknown)"""
    from ..core import stores as _st
    mro = [c for c in repo.mro(ci) if "__init__" in c.methods]
    env = None
    cur_call = call
    for k, c in enumerate(mro):
        init = c.methods["__init__"]
        env = _bind(cur_call, init, env)
        for x in _st(init.node, into_defs=False):
            if x.path == f"self.{attr}" and isinstance(x.value, ast.Name) and x.value.id in env:
                return env[x.value.id]
            if x.path == f"self.{attr}" and isinstance(x.value, ast.Constant):
                return x.value
        sup = [y for y in calls(init.node) if isinstance(y.func, ast.Attribute) and y.func.attr == "__init__"]
        if len(sup) != 1:
            return None
        cur_call = sup[0]
    return None


def r5(ctx):
    """A section whose presence is decided by the Flags field must come back when the decoded value is re-encoded:
    the section's serializer may not have a value that its own deserialize produces from a non-empty byte range
    (a bare terminator) and that its serialize turns into nothing at all.  (D35: TypedBytesTerminated(empty_is_none=True)
    decodes an empty NUL-terminated section to None and writes no terminator for None.)"""
    repo = ctx.repo
    ctx.rule("C13.R5", "flag-gated sections never vanish on re-encode: the serializer of a CompressedOption section has no "
                       "value that its deserialize produces after consuming bytes and its serialize writes as nothing")
    tfields, _flag_field, tci = template_fields(ctx)
    n = 0
    for f in tfields:
        if not f["gate"]:
            continue
        n += 1
        v = f["node"]
        call = _resolve_spec_call(repo, tci.module, v.args[1])
        where = ctx.w(tci.module, v)
        key = f"section {f['key']}: re-encoding a decoded value writes the section back"
        if call is None:
            ctx.ob("C13.R5", key, True, where)
            continue
        cname = strip_mod(ap(call.func) or "")
        ci = repo.resolve_class(cname, tci.module) or repo.resolve_class(cname, repo.module(SER))
        if ci is None:
            ctx.ob("C13.R5", key, True, where)
            continue
        ser = next((c.methods["serialize"] for c in repo.mro(ci) if "serialize" in c.methods), None)
        de = next((c.methods["deserialize"] for c in repo.mro(ci) if "deserialize" in c.methods), None)
        bad = None
        if ser is not None and de is not None:
            params = [a.arg for a in ser.node.args.args]
            vname = params[1] if len(params) > 1 else None
            wname = params[2] if len(params) > 2 else "writer"
            # a bare `return` that is reached when the value is None, before anything was written
            for ret in [r for r in walk(ser.node) if isinstance(r, ast.Return) and r.value is None]:
                conds = conditions(ret, ser.node)
                ats = [(a_, pol) for c in conds for a_, pol in atoms(c.test, c.polarity)]
                on_none = any(isinstance(a_, ast.Compare) and ap(a_.left) == vname and len(a_.ops) == 1 and
                              isinstance(a_.ops[0], ast.Is) and isinstance(a_.comparators[0], ast.Constant) and
                              a_.comparators[0].value is None and pol for a_, pol in ats)
                if not on_none:
                    continue
                # statements that use the writer in front of the return (same function, earlier line, not in a sibling branch)
                wrote_before = any(isinstance(x, ast.Name) and x.id == wname and getattr(x, "lineno", 0) < ret.lineno
                                   and not isinstance(getattr(x, "_parent", None), ast.arg)
                                   for x in ast.walk(ser.node)
                                   if not any(x is y for y in ast.walk(ser.node.args)))
                if wrote_before:
                    continue
                enabled = True
                for a_, pol in ats:
                    path = ap(a_)
                    if path and path.startswith("self."):
                        arg = _ctor_arg(repo, ci, call, path[5:])
                        if isinstance(arg, ast.Constant) and bool(arg.value) != pol:
                            enabled = False
                if not enabled:
                    continue
                gives_none = any(isinstance(r, ast.Return) and isinstance(r.value, ast.Constant) and r.value.value is None
                                 for r in walk(de.node))
                framed = "Terminated" in cname or any(
                    isinstance(x, ast.Call) and "Terminated" in (ap(x.func) or "")
                    for c in repo.mro(ci) if "__init__" in c.methods for x in ast.walk(c.methods["__init__"].node))
                if gives_none and framed:
                    bad = ret
                    break
        ctx.ob("C13.R5", key, bad is None, where if bad is None else ctx.w(ser, bad),
               f"{cname}.serialize returns without writing when the value is None (`{norm(bad)[:70] if bad is not None else ''}`), "
               f"but its deserialize yields None for an empty terminated section: with {f['gate'][0]} set the payload comes "
               f"back one terminator short")
    ctx.floor("C13.R5", "gated sections", n, 10)


def r6(ctx):
    """Re-encoding reproduces the payload only if the encode side writes sequence-valued sections in the order they
    were decoded.  Every codec class on the compressed template's path (the fields, the shared sub-templates they name
    and the classes those are built from) is inspected: its encode / serialize method - and the same-class helpers it
    calls - may not sort, de-duplicate through a set, or reverse the value (a reversal is accepted when the decode side
    of the same class has one too)."""
    repo = ctx.repo
    ctx.rule("C13.R6", "encode side keeps decoded order: no codec class on the compressed template's path sorts, dedupes through a "
                       "set or (one-sidedly) reverses the value it writes")
    classes = _codec_classes(ctx)
    ctx.floor("C13.R6", "codec classes on the template's path", len(classes), 10)
    _r6_body(ctx, classes)


def _codec_classes(ctx):
    """Every repo class on the compressed template's path: the fields, the shared sub-templates they name and the classes
    those are built from (with their bases)."""
    repo = ctx.repo
    _tfields, _ff, tci = template_fields(ctx)
    tnode = repo.class_attr(tci, "TEMPLATE")
    mod = tci.module
    seen_names, classes = set(), {}
    work = [tnode]
    sermod = repo.module(SER)
    while work:
        n = work.pop()
        for x in ast.walk(n):
            name = None
            if isinstance(x, ast.Name):
                name = x.id
            elif isinstance(x, ast.Attribute) and isinstance(x.value, ast.Name) and x.value.id in ("se", "tmpls"):
                name = x.attr
            if not name or name in seen_names:
                continue
            seen_names.add(name)
            for m_ in (mod, sermod):
                ci = repo.resolve_class(name, m_)
                if ci is not None:
                    for c in repo.mro(ci):
                        if c.module.rel.startswith("hippolyzer/"):
                            classes[c.qual if hasattr(c, "qual") else c.name] = c
                    if ci.module is mod:
                        # a described dataclass: the specs of its fields are part of the path
                        for st in ci.node.body:
                            if isinstance(st, (ast.Assign, ast.AnnAssign)) and st.value is not None:
                                work.append(st.value)
                    break
                fns_ = [g for g in repo.funcs.get(name, []) if g.module is mod and g.cls is None and g.parent_fn is None] \
                    if m_ is mod else []
                if len(fns_) == 1:
                    # a spec factory (`_te_field(...)`): what it builds is on the path
                    work.extend(fns_[0].node.body)
                    break
                tgt = repo.module_assign(m_, name)
                if tgt is not None and m_ is mod:
                    work.append(tgt)
                    break
    return classes


def _r6_body(ctx, classes):
    repo = ctx.repo
    ORDER_OPS = {"sorted": "sorts", "set": "dedupes through a set", "frozenset": "dedupes through a set", "reversed": "reverses"}
    for cname, ci in sorted(classes.items()):
        for side, other in (("encode", "decode"), ("serialize", "deserialize")):
            f = ci.methods.get(side)
            if f is None:
                continue
            fns = [f] + [ci.methods[c.func.attr] for c in calls(f.node) if isinstance(c.func, ast.Attribute) and
                         isinstance(c.func.value, ast.Name) and c.func.value.id in ("self", "cls") and c.func.attr in ci.methods
                         and c.func.attr not in (side, other)]
            found = []
            for g in fns:
                for c in calls(g.node):
                    nm = ap(c.func) or ""
                    if nm in ORDER_OPS and c.args:
                        found.append((g, c, ORDER_OPS[nm]))
                    elif isinstance(c.func, ast.Attribute) and c.func.attr in ("sort", "reverse") and not c.args:
                        found.append((g, c, "sorts in place" if c.func.attr == "sort" else "reverses"))
            o = repo.lookup_method(ci, other)
            o_rev = o is not None and any((ap(c.func) or "") == "reversed" or (isinstance(c.func, ast.Attribute) and c.func.attr == "reverse")
                                          for c in calls(o.node))
            bad = [(g, c, what) for g, c, what in found if not (what == "reverses" and o_rev)]
            # a membership / equality test on a set built from the value does not change what is written
            bad = [(g, c, what) for g, c, what in bad
                   if not any(isinstance(a, (ast.Compare,)) for a in _ancestors(c))]
            ctx.ob("C13.R6", f"{ci.name}.{side} writes the value in its decoded order", not bad,
                   ctx.w(bad[0][0], bad[0][1]) if bad else f.where,
                   f"{ci.name}.{side} {bad[0][2]} the value (`{norm(bad[0][1])[:70]}`): a payload whose elements are not already in "
                   f"that order decodes fine in both decoders but re-encodes to different bytes" if bad else "")


def r8(ctx):
    """Re-encoding reproduces the payload only if the writer of a repeated section emits every entry the reader produced.
    In the serialize / encode method (and same-class helpers) of every codec class on the template's path, a write that
    sits in a loop over the decoded entries may be skipped only for the reader's own sentinel key (`key is None`): never
    depending on the entry's VALUE (dropping "redundant" entries - equal to the default, empty, zero - changes the bytes
    although both decoders still agree on what they read)."""
    repo = ctx.repo
    ctx.rule("C13.R8", "writers of repeated sections emit every decoded entry: inside a loop over the value, no write is skipped "
                       "depending on the entry's value (only the reader's own `is None` sentinel key may be passed over)")
    classes = _codec_classes(ctx)
    n_loops = 0
    for cname, ci in sorted(classes.items()):
        for side, other in (("encode", "decode"), ("serialize", "deserialize")):
            f = ci.methods.get(side)
            if f is None:
                continue
            fns = [f] + [ci.methods[c.func.attr] for c in calls(f.node) if isinstance(c.func, ast.Attribute) and
                         isinstance(c.func.value, ast.Name) and c.func.value.id in ("self", "cls") and c.func.attr in ci.methods
                         and c.func.attr not in (side, other)]
            for g in fns:
                for loop in [n for n in walk(g.node) if isinstance(n, ast.For)]:
                    writes = [c for c in calls(loop) if isinstance(c.func, ast.Attribute) and
                              c.func.attr in ("write", "write_bytes", "append", "extend")]
                    if not writes:
                        continue
                    # key / value names of the loop target
                    tnames = [n.id for n in ast.walk(loop.target) if isinstance(n, ast.Name)]
                    items = isinstance(loop.iter, ast.Call) and isinstance(loop.iter.func, ast.Attribute) and \
                        loop.iter.func.attr == "items" and isinstance(loop.target, ast.Tuple) and len(loop.target.elts) == 2
                    key_names = {n.id for n in ast.walk(loop.target.elts[0]) if isinstance(n, ast.Name)} if items else set()
                    # the entry's value = the loop-target names that are handed to a write as the data (not the spec of a
                    # zip(specs, vals), not the index of an enumerate)
                    def _data_args(w):
                        if w.func.attr == "write":
                            return w.args[1:2] + [k.value for k in w.keywords if k.arg in ("val", "value")]
                        return w.args[:1]
                    written = {n.id for w in writes for a in _data_args(w) for n in ast.walk(a) if isinstance(n, ast.Name)}
                    val_names = (set(tnames) - key_names) & written
                    # separator / framing writes carry no entry data: when they happen is not this rule's business
                    writes = [w for w in writes if any(isinstance(n, ast.Name) and n.id in (val_names | key_names)
                                                       for a in _data_args(w) for n in ast.walk(a))]
                    if not writes:
                        continue
                    n_loops += 1
                    bad = None
                    for w in writes:
                        for c in conditions(w, loop):
                            used = {n.id for n in ast.walk(c.test) if isinstance(n, ast.Name)}
                            if used & val_names and _is_value_test(c.test, val_names):
                                bad = (w, c, "the entry's value")
                            elif used & key_names and not _is_none_test(c.test, key_names, lambda e, _ci=ci, _g=g: _none_const(repo, _ci, _g, e)):
                                bad = (w, c, "the entry's key")
                            if bad:
                                break
                        if bad:
                            break
                    ctx.ob("C13.R8", f"{ci.name}.{g.name}: loop over `{norm(loop.iter)[:50]}` writes every entry", bad is None,
                           ctx.w(g, bad[0]) if bad else ctx.w(g, loop),
                           f"`{norm(bad[0])[:60]}` is skipped depending on {bad[2]} (`{norm(bad[1].test)[:60]}`): an entry the reader "
                           f"produced is not written back, so the re-encoded section differs from the payload" if bad else "")
    ctx.floor("C13.R8", "entry-writing loops in codec classes on the template's path", n_loops, 3)


def _none_const(repo, ci, g, e):
    """e is None: the literal, or a class / module constant bound to it (`DEFAULT_KEY = None`)"""
    if isinstance(e, ast.Constant):
        return e.value is None
    v = None
    if isinstance(e, ast.Attribute) and isinstance(e.value, ast.Name):
        k = ci if e.value.id in ("self", "cls") else repo.resolve_class(e.value.id, g.module)
        v = repo.class_attr(k, e.attr) if k is not None else None
    elif isinstance(e, ast.Name):
        v = repo.module_assign(g.module, e.id)
    return isinstance(v, ast.Constant) and v.value is None


def _is_none_test(test, names, is_none=lambda e: isinstance(e, ast.Constant) and e.value is None):
    """`k is None` / `k is not None` / `not ...` of it, over the given names"""
    if isinstance(test, ast.UnaryOp) and isinstance(test.op, ast.Not):
        return _is_none_test(test.operand, names, is_none)
    return isinstance(test, ast.Compare) and len(test.ops) == 1 and isinstance(test.ops[0], (ast.Is, ast.IsNot)) and \
        isinstance(test.left, ast.Name) and test.left.id in names and is_none(test.comparators[0])


def _is_value_test(test, names):
    """the test looks at what the entry's value IS (equality / identity / truth / membership / len), as opposed to its type"""
    for n in ast.walk(test):
        if isinstance(n, ast.Call) and (ap(n.func) or "") in ("isinstance", "issubclass", "type", "callable", "hasattr"):
            return False
    return True


def _ancestors(n):
    p = getattr(n, "_parent", None)
    while p is not None:
        yield p
        p = getattr(p, "_parent", None)


def _ctx_adapter_parts(repo, aci):
    """(key expression, name of its context parameter, option table dict) of a ContextAdapter subclass: the key function
    may be a lambda or a module-level function with a single `return`, the table a dict literal or a local bound to one"""
    init = aci.methods.get("__init__")
    if init is None:
        return None
    for c in calls(init.node):
        if not (isinstance(c.func, ast.Attribute) and c.func.attr == "__init__"):
            continue
        key_body = pn = table = None
        for a in c.args:
            if isinstance(a, ast.Lambda) and a.args.args:
                key_body, pn = a.body, a.args.args[0].arg
            elif isinstance(a, ast.Name):
                fns = [g for g in repo.funcs.get(a.id, []) if g.module is aci.module and g.cls is None and g.parent_fn is None]
                if len(fns) == 1 and fns[0].node.args.args:
                    body = [st for st in fns[0].node.body if not (isinstance(st, ast.Expr) and isinstance(st.value, ast.Constant))]
                    if len(body) == 1 and isinstance(body[0], ast.Return) and body[0].value is not None:
                        key_body, pn = body[0].value, fns[0].node.args.args[0].arg
                        continue
                    # the normal form turns `return a if c else b` into if c: return a / else: return b
                    if len(body) == 1 and isinstance(body[0], ast.If) and len(body[0].body) == 1 and len(body[0].orelse) == 1 and \
                            all(isinstance(x, ast.Return) and x.value is not None for x in (body[0].body[0], body[0].orelse[0])):
                        key_body = ast.IfExp(test=body[0].test, body=body[0].body[0].value, orelse=body[0].orelse[0].value)
                        pn = fns[0].node.args.args[0].arg
                        continue
                from ..core import stores as _st
                for st in _st(init.node, into_defs=False):
                    if st.path == a.id and isinstance(st.value, ast.Dict):
                        table = st.value
            elif isinstance(a, ast.Dict):
                table = a
        if key_body is not None and table is not None:
            return key_body, pn, table
    return None


def r7(ctx):
    """Display mode (pod=True) decodes se.IntEnum fields to member NAMES.  A ContextAdapter on the template's path whose
    option table is keyed by the members of such an enum must turn a name back into the member before the lookup, or the
    display-mode decoder silently falls back to its default codec and shows a different value than the tracker decoded
    (D53: ObjectStateAdapter keyed on ctx.PCode)."""
    repo = ctx.repo
    ctx.rule("C13.R7", "context adapters keyed by enum members look the member up for the plain-data (name) form of the field too")
    tmod = repo.module(TMPL)
    n = 0
    for cname, lst in sorted(repo.classes.items()):
        for ci in lst:
            if ci.module is not tmod or not any(c.name == "ContextAdapter" for c in repo.mro(ci)):
                continue
            parts = _ctx_adapter_parts(repo, ci)
            if parts is None:
                continue
            key_body, _pn, table = parts
            init = ci.methods["__init__"]
            lam = key_body
            for _once in (0,):
                enums = {ap(k.value) for k in table.keys if isinstance(k, ast.Attribute) and ap(k.value)}
                enums = {e for e in enums if (lambda e_: (lambda c_: c_ is not None and is_enum(repo, c_))(repo.resolve_class(e_, tmod)))(e)}
                if not enums:
                    continue
                n += 1
                names_handled = any(isinstance(x, ast.Subscript) and ap(x.value) in enums for x in ast.walk(lam))
                ctx.ob("C13.R7", f"{ci.name}: key function maps a member name to the member before the lookup", names_handled,
                       ctx.w(init, lam), f"the option table is keyed by {sorted(enums)} members, but in plain-data mode the context holds the "
                       f"member's NAME: `{norm(lam)[:80]}` returns it as it is, no key matches and the default codec is used")
    ctx.floor("C13.R7", "enum-keyed context adapters in templates.py", n, 1)


def is_enum(repo, ci):
    from ..consteval import is_enum_class
    return is_enum_class(repo, ci)
