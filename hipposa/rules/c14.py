"""C14 - tracked world stays self-consistent (DESIGN.md section 4, C14.R1-R6).

Decides necessary structural conditions only: who may write the scene-graph indices, lock-step
maintenance of paired indices, consistent None checks of Optional lookups, the lifecycle of request
futures, handlers reached only through the guarded dispatcher, unconditional adoption / orphaning.
Equality with a reference scene graph over all histories is not decided.
"""
from __future__ import annotations

import ast
from typing import Callable, Dict, List, Optional, Tuple

from ..cfg import CFG
from ..core import (AnalysisError, FuncInfo, FUNC_TYPES, _block_of, ancestors, ap, atoms, call_attr, calls, enclosing_stmt,
                    facts, find_calls, is_none_test, norm, parent, paths_in, stores, walk)
from .common import (callers_of, cfg_node_expr, cfg_node_fallible, collaborator_class, guarded_catch_all, inline_self_calls, must_pass, normal_path, origin, single_def,
                     where_of, writers_of)

OM = "hippolyzer/lib/client/object_manager.py"
POM = "hippolyzer/lib/proxy/object_manager.py"
OBJ = "hippolyzer/lib/base/objects.py"
STATE = "hippolyzer/lib/client/state.py"
ANCHOR_FILES = (OM, POM, OBJ, STATE)

# primitives the rules want to see as calls (never inlined when helper calls are followed)
PRIMS = frozenset({
    "track_object", "untrack_object", "_parent_object", "_unparent_object", "_track_orphan", "_untrack_orphan",
    "collect_orphans", "cancel_futures", "resolve_futures", "register_future", "lookup_localid", "lookup_fullid",
    "_track_new_object", "_kill_object_by_local_id", "_update_existing_object", "handle_object_reparented",
    "_run_object_update_hooks", "_run_kill_object_hooks", "_rebuild_avatar_objects", "_get_region_state",
    "_get_region_manager", "clear",
})

# DESIGN.md Appendix A.1 (frozen owner table).  missing_locals is bookkeeping that the property
# statement does not observe: extra writers are reported as NOTE only.
RS, WM = "RegionObjectsState", "ClientWorldObjectManager"
OWNERS: Dict[str, set] = {
    "_fullid_lookup": {f"{WM}.__init__", f"{WM}._track_new_object", f"{WM}._kill_object_by_local_id",
                       f"{WM}.untrack_region_objects", f"{WM}.clear"},
    "localid_lookup": {f"{RS}.__init__", f"{RS}.clear", f"{RS}.track_object", f"{RS}.untrack_object"},
    "_orphans": {f"{RS}.__init__", f"{RS}.clear", f"{RS}.collect_orphans", f"{RS}._track_orphan",
                 f"{RS}._untrack_orphan"},
    "_object_futures": {f"{RS}.__init__", f"{RS}.clear", f"{RS}.register_future"},
    "ChildIDs": {"Object.__init__", f"{RS}._parent_object", f"{RS}._unparent_object"},
    "Children": {"Object.__init__", f"{RS}._parent_object", f"{RS}._unparent_object"},
    "Parent": {f"{RS}._parent_object", f"{RS}._unparent_object"},
}
NOTE_OWNERS = {
    "missing_locals": {f"{RS}.__init__", f"{RS}.clear", f"{RS}.track_object", f"{RS}._parent_object",
                       f"{WM}._kill_object_by_local_id", f"{WM}._handle_terse_object_update",
                       f"{WM}._handle_object_update_cached"},
}

# Optional-returning lookups (R3)
LOOKUPS = ("_get_region_state", "_get_region_manager", "lookup_localid", "lookup_fullid",
           "region_by_circuit_addr", "region_by_handle", "lookup_avatar")
INDEX_GETS = ("localid_lookup", "_fullid_lookup", "_region_managers")


# --------------------------------------------------------------------------- small helpers

class Fn:
    """An anchored function with helper calls inlined (primitives kept) and its CFG."""

    def __init__(self, ctx, qual, module=None):
        self.fi: FuncInfo = ctx.repo.fn(qual, module)
        self.tree = inline_self_calls(ctx.repo, self.fi, depth=2, keep=PRIMS, collaborators=True)
        self.cfg = CFG(self.tree)
        self.params = [a.arg for a in self.tree.args.posonlyargs + self.tree.args.args]

    def w(self, node):
        return where_of(self.fi, node)

    def nodes(self, sub):
        return self.cfg.stmt_nodes_containing(sub)

    def describe(self, path):
        return self.cfg.describe_path(path) if path else None


def bind_call(callee: Optional[FuncInfo], call: ast.Call) -> Dict[str, ast.AST]:
    """parameter name -> argument expression (self excluded); positional index keys when unknown."""
    out: Dict[str, ast.AST] = {}
    params = []
    if callee is not None:
        a = callee.node.args
        params = [p.arg for p in a.posonlyargs + a.args]
        if callee.cls is not None and params:
            params = params[1:]
    for i, e in enumerate(call.args):
        out[params[i] if i < len(params) else f"#{i}"] = e
    for k in call.keywords:
        if k.arg:
            out[k.arg] = k.value
    return out


def strip_copy(e) -> Tuple[Optional[ast.AST], bool]:
    """(base expression, is_copy) for X[:], list(X), tuple(X), reversed(X), sorted(X), X.copy()."""
    copied = False
    while True:
        if isinstance(e, ast.Subscript) and isinstance(e.slice, ast.Slice) and e.slice.lower is None \
                and e.slice.upper is None:
            e, copied = e.value, True
        elif isinstance(e, ast.Call) and isinstance(e.func, ast.Name) and e.func.id in \
                ("list", "tuple", "reversed", "sorted") and len(e.args) == 1:
            e, copied = e.args[0], True
        elif isinstance(e, ast.Call) and isinstance(e.func, ast.Attribute) and e.func.attr == "copy" and not e.args:
            e, copied = e.func.value, True
        else:
            return e, copied


def object_of(tree, name_node, key_name: str) -> bool:
    """`name_node` (a Name) holds the tracked object whose local id is `key_name`
    (bound from localid_lookup.get(key) / localid_lookup[key] / lookup_localid(key))."""
    if not isinstance(name_node, ast.Name):
        return False
    d = single_def(tree, name_node.id)
    if isinstance(d, ast.Call) and d.args and ap(d.args[0]) == key_name:
        f = ap(d.func) or ""
        return f.endswith(".localid_lookup.get") or f.endswith(".lookup_localid") or f == "lookup_localid"
    if isinstance(d, ast.Subscript) and (ap(d.value) or "").endswith(".localid_lookup") and ap(d.slice) == key_name:
        return True
    return False


def loop_targets(loop) -> List[str]:
    return [n.id for n in ast.walk(loop.target) if isinstance(n, ast.Name)]


def body_must_pass(fn: Fn, loop, pnodes) -> Optional[list]:
    """Witness of an iteration of `loop` (entered at its first body statement) that reaches the loop
    head again or leaves the function without passing a node of pnodes; None when there is none."""
    heads = fn.cfg.nodes_for(loop)
    first_stmt = loop.body[0]
    while isinstance(first_stmt, ast.Try) and first_stmt.body:     # a try is entered at its first body statement
        first_stmt = first_stmt.body[0]
    firsts = [n for n in fn.cfg.nodes_for(first_stmt) if n.kind != "handler"]
    if not heads or not firsts:
        raise AnalysisError(f"{fn.fi.qual}: loop at line {loop.lineno} has no CFG nodes")
    pset = set(pnodes)
    hset = set(heads) | {fn.cfg.exit}
    after = set()
    for h in heads:  # nodes following the loop (break targets / normal loop exit) also end the iteration
        for s in h.succs:
            if s not in firsts:
                after.add(s)
    return normal_path(fn.cfg, firsts, lambda n: n in hset or n in after, lambda n: n in pset, include_start=True)


# --------------------------------------------------------------------------- where the request futures live

_TAB = {"names": {"_object_futures"}, "field": "_object_futures", "via": None, "holder": None}


def _last_attr(path: Optional[str]) -> str:
    p = path or ""
    for suf in (".items()", ".keys()", ".values()"):
        if p.endswith(suf):
            p = p[:-len(suf)]
    return p.split(".")[-1].replace("[]", "").replace("()", "") if "." in p else ""


def is_tab(path: Optional[str]) -> bool:
    """path denotes the futures table (the field itself or a property forwarding to it)."""
    return _last_attr(path) in _TAB["names"]


def discover_futures_table(ctx):
    """The futures table is the mapping register_future stores the new future's list in - wherever the
    bookkeeping lives (RegionObjectsState itself or a collaborator object it delegates to)."""
    repo = ctx.repo
    reg = Fn(ctx, f"{RS}.register_future")
    typed = {a.arg for a in reg.tree.args.args if a.annotation is not None and "ObjectUpdateType" in ast.unparse(a.annotation)}
    fields = set()
    for s_ in stores(reg.tree, into_defs=False):
        k = s_.target.slice if s_.kind == "setitem" else s_.node.args[0] if (
            s_.kind == "mutcall" and s_.method == "setdefault" and s_.node.args) else None
        if k is None or "." not in s_.path:
            continue
        k = origin(reg.tree, k)
        if isinstance(k, ast.Tuple) and any(isinstance(e, ast.Name) and e.id in typed for e in k.elts):
            fields.add(s_.path.split(".")[-1])
            parts = s_.path.split(".")
            _TAB["via"] = parts[1] if len(parts) == 3 and parts[0] == reg.params[0] else None
    ctx.require(len(fields) == 1, f"register_future no longer stores into one futures table keyed by "
                                  f"(<local id>, <update type>) (found {sorted(fields)})")
    field = next(iter(fields))
    names = {field}
    for lst in repo.classes.values():        # forwarding properties: `return self.<...>.<field>`
        for ci in lst:
            if ci.module.rel not in ANCHOR_FILES:
                continue
            for m in ci.methods.values():
                if any((ap(d) or "") == "property" for d in m.node.decorator_list):
                    rets = [r for r in walk(m.node) if isinstance(r, ast.Return) and r.value is not None]
                    if len(rets) == 1 and _last_attr(ap(rets[0].value)) == field and (ap(rets[0].value) or "").startswith("self."):
                        names.add(m.name)
    _TAB["names"], _TAB["field"] = names, field
    rs = repo.cls(RS, OM)
    holder = collaborator_class(repo, rs, _TAB["via"]) if _TAB.get("via") else rs
    _TAB["holder"] = holder.qual if holder is not None else rs.qual
    return field


# --------------------------------------------------------------------------- per-run index (speed only)

_IDX: Dict[tuple, list] = {}


def _mod_index(repo, mod):
    """[(top-level FuncInfo, stores, calls)] of one module, computed once per run."""
    idx = repo.__dict__.setdefault("_c14_mod_index", {})    # per Repo object (id() values are reused after gc)
    if mod.rel not in idx:
        idx[mod.rel] = [(f, stores(f.node, into_defs=True), calls(f.node, into_defs=True))
                        for f in repo.all_funcs if f.parent_fn is None and f.module is mod]
    return idx[mod.rel]


def _fn_text_mentions(f: FuncInfo, word: str) -> bool:
    # prefilter only: an identifier cannot be used by a function without occurring in its text
    lines = f.module.src.splitlines()[f.node.lineno - 1:getattr(f.node, "end_lineno", f.node.lineno)]
    return any(word in ln for ln in lines)


def fast_writers_of(repo, attr: str):
    out = []
    for mod in repo.modules.values():
        if attr not in mod.src:
            continue
        for f, sts, _ in _mod_index(repo, mod):
            for st in sts:
                if "." in st.path and st.path.split(".")[-1].replace("[]", "") == attr:
                    out.append((f, st))
    return out


def fast_callers_of(repo, name: str):
    out = []
    for mod in repo.modules.values():
        if name not in mod.src:
            continue
        for f, _, cs in _mod_index(repo, mod):
            for c in cs:
                if call_attr(c) == name:
                    out.append((f, c))
    return out


def tab_writers(repo):
    """Stores to the futures table.  A private field name is matched by name everywhere; a public (possibly
    generic) name only inside the classes that hold the table or through the attribute that holds the collaborator."""
    field = _TAB["field"]
    out = []
    holders = {_TAB.get("holder")}
    via = {_TAB["via"]} if _TAB.get("via") else set()
    for nm in sorted(_TAB["names"]):
        for f, st in fast_writers_of(repo, nm):
            if nm.startswith("_"):
                out.append((f, st))
            elif (f.cls is not None and f.cls.qual in holders) or any(f".{a}.{nm}" in st.path for a in via):
                out.append((f, st))
    return out


# --------------------------------------------------------------------------- R1

def _alias_stores(repo, f: FuncInfo, field: str):
    out = []
    sts = next(s for g, s, _ in _mod_index(repo, f.module) if g is f)
    names = {s.path for s in sts if "." not in s.path and "[" not in s.path and "(" not in s.path}
    for n in names:
        # any binding of the name that aliases the container (or one of its elements) counts
        ps = [ap(s.value) for s in sts if s.path == n and s.kind == "assign" and s.value is not None]
        if any(p and "." in p and p.split(".")[-1] in (field, field + "[]") for p in ps):
            for s in sts:
                if s.path == n and s.kind in ("mutcall", "setitem", "augsetitem", "delitem", "augassign"):
                    out.append(s)
    return out


def r1(ctx):
    repo = ctx.repo
    ctx.rule("C14.R1", "index ownership: _fullid_lookup, localid_lookup, _orphans, _object_futures, "
                       "Object.ChildIDs/Children/Parent are written only by the frozen owner functions "
                       "(or helpers called only by them)")
    for q in sorted({q for qs in OWNERS.values() for q in qs}):
        repo.fn(q)  # vanished owner anchor -> AnalysisError

    owner_classes = [repo.cls(RS, OM), repo.cls(WM, OM)]

    def collab_sites(f: FuncInfo):
        """Functions of the owner classes that delegate to method f of a collaborator object they construct."""
        out = []
        if f.cls is None:
            return out
        for ci in owner_classes:
            init = repo.lookup_method(ci, "__init__")
            attrs = {st.path.split(".")[1] for st in stores(init.node, into_defs=False)
                     if st.kind == "assign" and st.path.startswith("self.") and st.path.count(".") == 1} if init else set()
            for attr in attrs:
                cc = collaborator_class(repo, ci, attr)
                if cc is None or not any(k == f.cls for k in repo.mro(cc)):
                    continue
                if f.name == "__init__":
                    out.append(init)
                    continue
                for c_ in repo.mro(ci):
                    for m in c_.methods.values():
                        if any(ap(c.func) == f"self.{attr}.{f.name}" for c in calls(m.node, into_defs=True)):
                            out.append(m)
        return out

    def allowed(f: FuncInfo, owners, depth=3) -> bool:
        if f.qual in owners:
            return True
        if depth == 0:
            return False
        cs = collab_sites(f)
        if cs:
            return all(allowed(g, owners, depth - 1) for g in cs)
        cs = [g for g, _ in fast_callers_of(repo, f.name) if g != f]
        return bool(cs) and all(allowed(g, owners, depth - 1) for g in cs)

    tops = [f for f in repo.all_funcs if f.parent_fn is None]
    owners_tab = dict(OWNERS)
    owners_tab[_TAB["field"]] = owners_tab.pop("_object_futures")   # the futures table under its current name
    for table, armed in ((owners_tab, True), (NOTE_OWNERS, False)):
        for field, owners in table.items():
            found: Dict[str, Tuple[FuncInfo, list]] = {}
            for f, st in (tab_writers(repo) if field == _TAB["field"] else fast_writers_of(repo, field)):
                found.setdefault(f.full, (f, []))[1].append(st)
            for f in tops:
                if field in f.module.src and _fn_text_mentions(f, field):
                    for st in _alias_stores(repo, f, field):
                        found.setdefault(f.full, (f, []))[1].append(st)
            if armed:
                ctx.floor("C14.R1", f"writer functions of {field}", len(found), 2)
            for full, (f, sts) in sorted(found.items()):
                ok = allowed(f, owners)
                what = ", ".join(sorted({norm(s.node if isinstance(s.node, ast.stmt) else enclosing_stmt(s.node) or s.node)
                                         for s in sts}))[:200]
                if armed:
                    ctx.ob("C14.R1", f"{field} written by {f.qual}", ok, ctx.w(f, sts[0].node),
                           f"not an owner of {field} (owners: {sorted(owners)}): {what}")
                elif not ok:
                    ctx.note(f"C14.R1 (not armed) {field} written outside its usual owners by {f.qual} "
                             f"at {ctx.w(f, sts[0].node)}")


# --------------------------------------------------------------------------- R2

def _child_ops(f: FuncInfo):
    ops = []
    for s in stores(f.node, into_defs=True):
        if "." not in s.path:
            continue
        recv, last = s.path.rsplit(".", 1)
        if last not in ("ChildIDs", "Children"):
            continue
        idx, val, op = "", None, s.kind
        if s.kind == "mutcall":
            c = s.node
            op = s.method
            if op in ("insert",) and len(c.args) >= 2:
                idx, val = norm(c.args[0]), c.args[1]
            elif op in ("pop",) and c.args:
                idx = norm(c.args[0])
            elif op in ("append", "remove", "appendleft") and c.args:
                val = c.args[0]
        elif s.kind == "delitem":
            op, idx = "del[]", norm(s.target.slice)
        elif s.kind in ("setitem", "augsetitem"):
            op, idx, val = "set[]", norm(s.target.slice), s.value
        elif s.kind == "assign":
            op = "assign"
        elif s.kind == "del":
            op = "del"
        st = s.node if isinstance(s.node, ast.stmt) else enclosing_stmt(s.node)
        block, _ = _block_of(st)
        ops.append({"field": last, "recv": recv, "op": op, "idx": idx, "val": val, "block": id(block), "node": s.node})
    return ops


def r2(ctx):
    repo = ctx.repo
    ctx.rule("C14.R2", "lock-step pairs: every ChildIDs mutation has the same mutation of Children (same receiver, "
                       "index, block); track/untrack maintain localid_lookup; _track_new_object and the kill path "
                       "keep _fullid_lookup in step with track_object/untrack_object")
    npairs = 0
    for f in [f for f in repo.all_funcs if f.parent_fn is None and "Child" in f.module.src and _fn_text_mentions(f, "Child")]:
        ops = _child_ops(f)
        groups: Dict[tuple, Dict[str, list]] = {}
        for o in ops:
            groups.setdefault((o["block"], o["recv"], o["op"], o["idx"]), {"ChildIDs": [], "Children": []})[o["field"]].append(o)
        for (_, recv, op, idx), g in groups.items():
            ids, ch = g["ChildIDs"], g["Children"]
            first = (ids or ch)[0]
            ok = len(ids) == len(ch)
            msg = "" if ok else (f"{len(ids)} operation(s) on {recv}.ChildIDs but {len(ch)} on {recv}.Children with the "
                                 f"same index in the same block: the two lists go out of step")
            if ok and op in ("insert", "append", "appendleft", "remove", "set[]"):
                for a, b in zip(ids, ch):
                    pa, pb = ap(a["val"]) if a["val"] is not None else None, ap(b["val"]) if b["val"] is not None else None
                    if pa and pb and pa != pb + ".LocalID":
                        ok, msg = False, f"ChildIDs gets {pa} while Children gets {pb} (expected {pb}.LocalID)"
            npairs += 1
            ctx.ob("C14.R2", f"{f.qual}: {recv}.ChildIDs/.Children {op}({idx}) in lock-step", ok,
                   ctx.w(f, first["node"]), msg)
    ctx.floor("C14.R2", "ChildIDs/Children operation pairs", npairs, 3)

    # localid_lookup maintained by track_object / untrack_object
    t = Fn(ctx, f"{RS}.track_object")
    obj = t.params[1] if len(t.params) > 1 else None
    ctx.require(obj is not None, "track_object lost its object parameter")
    st_nodes = [n for s in stores(t.tree, into_defs=False)
                if s.kind == "setitem" and s.path.endswith(".localid_lookup") and ap(s.target.slice) == f"{obj}.LocalID"
                and ap(s.value) == obj for n in t.nodes(s.node)]
    wit = must_pass(t.cfg, st_nodes)
    ctx.ob("C14.R2", f"{RS}.track_object stores localid_lookup[{obj}.LocalID] = {obj} on every normal path",
           bool(st_nodes) and wit is None, t.fi.where, "object tracked without entering the local-id index",
           t.describe(wit))
    u = Fn(ctx, f"{RS}.untrack_object")
    uobj = u.params[1] if len(u.params) > 1 else None
    ctx.require(uobj is not None, "untrack_object lost its object parameter")
    rm_nodes = _removals(u, ".localid_lookup", f"{uobj}.LocalID")
    wit = must_pass(u.cfg, rm_nodes)
    ctx.ob("C14.R2", f"{RS}.untrack_object removes localid_lookup[{uobj}.LocalID] on every normal path",
           bool(rm_nodes) and wit is None, u.fi.where, "object untracked but left in the local-id index",
           u.describe(wit))

    # _track_new_object: track_object(obj) and _fullid_lookup[obj.FullID] = obj on every normal path
    n = Fn(ctx, f"{WM}._track_new_object")
    tr = [c for c in find_calls(n.tree, "track_object", into_defs=False) if c.args and ap(c.args[0]) in n.params]
    ctx.ob("C14.R2", f"{WM}._track_new_object calls track_object on its object parameter", len(tr) >= 1, n.fi.where)
    for c in tr:
        o = ap(c.args[0])
        wit = must_pass(n.cfg, n.nodes(c))
        ctx.ob("C14.R2", f"{WM}._track_new_object: track_object({o}) on every normal path", wit is None, n.w(c),
               "new object may enter the full-id index without being tracked by its region", n.describe(wit))
        fs = [x for s in stores(n.tree, into_defs=False)
              if s.kind == "setitem" and s.path.endswith("._fullid_lookup") and ap(s.target.slice) == f"{o}.FullID"
              and ap(s.value) == o for x in n.nodes(s.node)]
        wit = must_pass(n.cfg, fs)
        ctx.ob("C14.R2", f"{WM}._track_new_object: _fullid_lookup[{o}.FullID] = {o} on every normal path",
               bool(fs) and wit is None, n.w(c), "object tracked by local id but not by full id: the two lookups disagree",
               n.describe(wit))

        # the two index updates are adjacent: nothing that can fail (or look the object up) runs in between
        tn = set(n.nodes(c))
        sn = set(fs)
        for first, second, what in ((tn, sn, "track_object"), (sn, tn, "the full-id store")):
            if first and second and normal_path(n.cfg, list(first), lambda x: x in second) is not None:
                between = n.cfg.reachable(list(first), avoid=lambda x: x in second, exc=False)
                bad = sorted((x for x in between if x not in first and cfg_node_fallible(n.cfg, x)),
                             key=lambda x: getattr(x.ast, "lineno", 0))
                ctx.ob("C14.R2", f"{WM}._track_new_object: local-id and full-id index are updated back to back", not bad,
                       n.w(c), ("after " + what + ", " + norm(cfg_node_expr(n.cfg, bad[0]))[:100] + " runs before the other "
                                "index is updated: if it raises (or looks the object up) the object is in one index only")
                       if bad else "")
                break

    # kill path: untrack_object(obj) goes with _fullid_lookup removal of obj.FullID
    k = Fn(ctx, f"{WM}._kill_object_by_local_id")
    us = [c for c in find_calls(k.tree, "untrack_object", into_defs=False) if c.args and isinstance(c.args[0], ast.Name)]
    ctx.floor("C14.R2", "untrack_object calls on the kill path", len(us), 1)
    for c in us:
        o = c.args[0].id
        rms = set(_removals(k, "._fullid_lookup", f"{o}.FullID"))
        cn = k.nodes(c)
        after = must_pass(k.cfg, rms, starts=cn)
        before = normal_path(k.cfg, [k.cfg.entry], lambda x: x in cn, lambda x: x in rms)
        ok = bool(rms) and (after is None or before is None or all(x in rms for x in cn))
        ctx.ob("C14.R2", f"{WM}._kill_object_by_local_id: untrack_object({o}) paired with removal of "
                         f"_fullid_lookup[{o}.FullID]", ok, k.w(c),
               "killed object stays reachable by full id", k.describe(after))


def r2_strong_indices(ctx):
    """The index tables own the tracked objects: they are never bound to a weakref container."""
    repo = ctx.repo
    n = 0
    for field in ("_fullid_lookup", "localid_lookup", "_orphans", _TAB["field"]):
        for f, st in (tab_writers(repo) if field == _TAB["field"] else fast_writers_of(repo, field)):
            if st.kind != "assign" or st.value is None or st.path.split(".")[-1] != field:
                continue
            n += 1
            ctor = ap(st.value.func) if isinstance(st.value, ast.Call) else None
            weak = ctor is not None and (ctor.startswith("weakref.") or ctor.split(".")[-1].startswith("Weak"))
            ctx.ob("C14.R2", f"{f.qual}: {field} is bound to a container that keeps its values alive", not weak,
                   ctx.w(f, st.node), f"{field} = {norm(st.value)}: an index that holds its objects weakly loses every "
                                      f"object nobody else references (e.g. one moved to an untracked region) without a "
                                      f"kill, so lookups stop containing exactly the announced objects")
    ctx.floor("C14.R2", "index table bindings", n, 4)


def r2_kill_blocks(ctx):
    """Every ObjectData block of a KillObject is applied (no path of an iteration skips the kill)."""
    h = Fn(ctx, f"{WM}._handle_kill_object")
    kcs = find_calls(h.tree, "_kill_object_by_local_id", into_defs=False)
    loops = []
    for c in kcs:
        lp = next((a for a in ancestors(c) if isinstance(a, (ast.For, ast.AsyncFor))), None)
        if lp is not None and isinstance(lp.target, ast.Name) and len(c.args) >= 2 \
                and lp.target.id in {n.id for n in ast.walk(origin(h.tree, c.args[1])) if isinstance(n, ast.Name)} \
                and lp not in loops:
            loops.append(lp)
    msgpar = h.params[1] if len(h.params) > 1 else None
    loops = [lp for lp in loops if msgpar in {n.id for n in ast.walk(lp.iter) if isinstance(n, ast.Name)}]
    ctx.ob("C14.R2", f"{WM}._handle_kill_object kills per block of the message", len(loops) == 1, h.fi.where,
           f"found {len(loops)} loop(s) over the message's blocks calling _kill_object_by_local_id(<state>, <block id>)")
    for lp in loops:
        wit = must_pass(h.cfg, h.cfg.nodes_for(lp))
        ctx.ob("C14.R2", f"{WM}._handle_kill_object reaches the kill loop on every normal path", wit is None, h.w(lp),
               "a KillObject message can be dropped as a whole", h.describe(wit))
        cs = [c for c in kcs if any(a is lp for a in ancestors(c))]
        wit = body_must_pass(h, lp, [n for c in cs for n in h.nodes(c)])
        ctx.ob("C14.R2", f"{WM}._handle_kill_object applies the kill for every block", wit is None, h.w(lp),
               "some iteration skips _kill_object_by_local_id: the killed object (its descendants, orphans and pending "
               "requests) stays in the region state that belongs to the sending circuit", h.describe(wit))


def _removals(fn: Fn, field_suffix: str, key_path: str):
    out = []
    for s in stores(fn.tree, into_defs=False):
        if not s.path.endswith(field_suffix):
            continue
        if s.kind == "delitem" and ap(s.target.slice) == key_path:
            out.extend(fn.nodes(s.node))
        elif s.kind == "mutcall" and s.method == "pop" and s.node.args and ap(s.node.args[0]) == key_path:
            out.extend(fn.nodes(s.node))
    return out


# --------------------------------------------------------------------------- R3

def _lookup_kind(call) -> Optional[str]:
    if not isinstance(call, ast.Call):
        return None
    name = call_attr(call)
    if name in LOOKUPS:
        return name
    if name == "get" and isinstance(call.func, ast.Attribute):
        p = ap(call.func.value) or ""
        last = p.split(".")[-1]
        if last in INDEX_GETS and len(call.args) <= 2 and \
                (len(call.args) == 1 or (isinstance(call.args[1], ast.Constant) and call.args[1].value is None)):
            return f"{last}.get"
    return None


def _tested_names(fn_node) -> set:
    out = set()
    for n in walk(fn_node):
        if isinstance(n, ast.Compare):
            t = is_none_test(n)
            if t:
                out.add(t[0])
        elif isinstance(n, ast.Name) and isinstance(n.ctx, ast.Load):
            p = parent(n)
            if isinstance(p, (ast.If, ast.While, ast.IfExp)) and p.test is n:
                out.add(n.id)
            elif isinstance(p, ast.UnaryOp) and isinstance(p.op, ast.Not):
                out.add(n.id)
            elif isinstance(p, ast.BoolOp):
                out.add(n.id)
            elif isinstance(p, ast.Assert) and p.test is n:
                out.add(n.id)
            elif isinstance(p, ast.comprehension) and any(n is i for i in p.ifs):
                out.add(n.id)
    return out


def _nonnull_fact(var: str) -> Callable[[ast.AST, bool], bool]:
    def pred(e, pol):
        t = is_none_test(e)
        if t and t[0] == var:
            return t[1] != pol      # `is None` false  /  `is not None` true
        if isinstance(e, ast.Name) and e.id == var:
            return pol
        if isinstance(e, ast.Call) and isinstance(e.func, ast.Name) and e.func.id == "isinstance" and e.args \
                and ap(e.args[0]) == var:
            return pol
        return False
    return pred


def r3(ctx):
    repo = ctx.repo
    ctx.rule("C14.R3", "Optional lookup results are checked consistently: if a function None-tests one result of a "
                       "lookup, every dereference of a result of that lookup in the same function is dominated by a "
                       "not-None fact")
    for lk in LOOKUPS:
        defs = repo.funcs.get(lk, [])
        ctx.require(bool(defs), f"Optional lookup {lk} vanished")
        opt = [d for d in defs if d.node.returns is not None and "Optional" in ast.unparse(d.node.returns)]
        ctx.require(bool(opt), f"lookup {lk} is no longer annotated Optional: re-read it and amend C14.R3")
    nfuncs = nobs = 0
    for f in repo.all_funcs:
        if f.module.rel not in ANCHOR_FILES:
            continue
        binds: Dict[str, set] = {}
        impure = set()
        for s in stores(f.node, into_defs=False):
            if "." in s.path or "[" in s.path or "(" in s.path or s.kind not in ("assign", "augassign"):
                continue
            k = _lookup_kind(s.value) if (s.kind == "assign" and isinstance(s.node, (ast.Assign, ast.AnnAssign))
                                          and not isinstance(parent(s.target), (ast.Tuple, ast.List))) else None
            if k:
                binds.setdefault(s.path, set()).add(k)
            elif s.kind == "assign" and isinstance(s.value, ast.Constant) and s.value.value is None:
                pass        # `x = None` keeps x what it was: possibly None
            else:
                impure.add(s.path)
        binds = {v: ks for v, ks in binds.items() if v not in impure}
        if not binds:
            continue
        tested = _tested_names(f.node)
        tested_kinds = {k for v, ks in binds.items() if v in tested for k in ks}
        derefs = []
        for n in walk(f.node):
            base = None
            if isinstance(n, ast.Attribute) and isinstance(n.value, ast.Name):
                base, what = n.value.id, f".{n.attr}"
            elif isinstance(n, ast.Subscript) and isinstance(n.value, ast.Name):
                base, what = n.value.id, "[]"
            elif isinstance(n, ast.Call) and isinstance(n.func, ast.Name):
                base, what = n.func.id, "()"
            if base in binds:
                derefs.append((n, base, what))
        if tested_kinds:
            nfuncs += 1
        for n, var, what in derefs:
            kinds = binds[var]
            if not (kinds & tested_kinds):
                ctx.note(f"C14.R3 unchecked-by-design: {f.qual} dereferences {var}{what} "
                         f"({'/'.join(sorted(kinds))} result) and never None-tests that lookup "
                         f"({ctx.w(f, n)}): caller-established precondition")
                continue
            ok = any(_nonnull_fact(var)(e, pol) for e, pol in facts(n, f.node))
            nobs += 1
            ctx.ob("C14.R3", f"{f.qual}: {var}{what} ({'/'.join(sorted(kinds))}) dominated by a not-None check", ok,
                   ctx.w(f, n), f"{var} comes from an Optional lookup that this function elsewhere tests for None, "
                                f"but this dereference is not guarded: a None result raises in the handler")
    # an id lookup can always miss: dereferencing its result in place can never be guarded
    for f in repo.all_funcs:
        if f.module.rel not in ANCHOR_FILES:
            continue
        for n in walk(f.node):
            if isinstance(n, (ast.Attribute, ast.Subscript)) and isinstance(n.value, ast.Call) and isinstance(n.ctx, ast.Load):
                k = _lookup_kind(n.value)
                if k in ("lookup_localid", "lookup_fullid", "lookup_avatar") or (k or "").endswith(".get"):
                    what = f".{n.attr}" if isinstance(n, ast.Attribute) else "[]"
                    ctx.ob("C14.R3", f"{f.qual}: {k}(...){what} dereferenced in place", False, ctx.w(f, n),
                           f"{norm(n)[:100]}: a lookup by local / full id returns None for an id that is not tracked "
                           f"(ordinary: killed, never announced, selected by the viewer only); the in-place dereference "
                           f"raises in the handler")
    ctx.floor("C14.R3", "functions that None-test a lookup result", nfuncs, 8)
    ctx.floor("C14.R3", "guarded dereferences", nobs, 15)


# --------------------------------------------------------------------------- R4

def _futures_key_layout(ctx, reg: Fn):
    """Registration sites of register_future (`T[k] = lst` or `T.setdefault(k, [])`), the key tuple, its arity
    and the index of the update-type component."""
    sites = []
    for s in stores(reg.tree, into_defs=False):
        if not is_tab(s.path):
            continue
        if s.kind == "setitem":
            sites.append({"node": s.node, "key": s.target.slice, "value": s.value, "call": None})
        elif s.kind == "mutcall" and s.method == "setdefault" and s.node.args:
            sites.append({"node": s.node, "key": s.node.args[0], "value": None, "call": s.node})
    ctx.require(len(sites) >= 1, "register_future no longer stores into _object_futures")
    key = origin(reg.tree, sites[0]["key"])
    ctx.require(isinstance(key, ast.Tuple), f"register_future key is not a tuple literal: {norm(key)}")
    typed = {a.arg for a in reg.tree.args.args if a.annotation is not None and "ObjectUpdateType" in ast.unparse(a.annotation)}
    tpos = [i for i, e in enumerate(key.elts) if isinstance(e, ast.Name) and e.id in typed]
    ctx.require(len(tpos) == 1, "cannot tell which key component of _object_futures is the update type")
    return sites, key, len(key.elts), tpos[0]


def _key_parts(lp, over_items: bool):
    """(name of the key variable or None, names of destructured key components or None) of a loop over the table."""
    t = lp.target
    if over_items:
        if not (isinstance(t, (ast.Tuple, ast.List)) and len(t.elts) == 2):
            return None, None
        t = t.elts[0]
    if isinstance(t, ast.Name):
        return t.id, None
    if isinstance(t, (ast.Tuple, ast.List)) and all(isinstance(e, ast.Name) for e in t.elts):
        return None, [e.id for e in t.elts]
    return None, None


def _projection_index(e, keyvar, comps) -> Optional[int]:
    """Index of the key component an expression denotes (`key[i]` or the i-th destructured name)."""
    if keyvar and isinstance(e, ast.Subscript) and isinstance(e.value, ast.Name) and e.value.id == keyvar \
            and isinstance(e.slice, ast.Constant) and isinstance(e.slice.value, int):
        return e.slice.value
    if comps and isinstance(e, ast.Name) and e.id in comps:
        return comps.index(e.id)
    return None


def _cancel_all_loops(fn: Fn):
    """Outer loops over _object_futures in which .cancel() is called on every future unconditionally."""
    out = []
    for lp in [n for n in walk(fn.tree) if isinstance(n, (ast.For, ast.AsyncFor))]:
        if not any(is_tab(p) for p in paths_in(lp.iter)):
            continue
        if any(isinstance(x, (ast.Break, ast.Return)) for x in walk(lp)):
            continue
        for c in find_calls(lp, "cancel", into_defs=False):
            if not facts(c, lp) and body_must_pass(fn, lp, fn.nodes(c)) is None:
                out.append(lp)
                break
    return out


def r4(ctx):
    repo = ctx.repo
    ctx.rule("C14.R4", "future lifecycle: untrack/clear/kill cancel pending requests; partial-key filters over "
                       "_object_futures do not stop at the first match; keys agree between register/resolve/cancel; "
                       "entries are removed only when provably finished; only pending futures are resolved")
    reg = Fn(ctx, f"{RS}.register_future")
    res = Fn(ctx, f"{RS}.resolve_futures")
    can = Fn(ctx, f"{RS}.cancel_futures")
    unt = Fn(ctx, f"{RS}.untrack_object")
    clr = Fn(ctx, f"{RS}.clear")
    kil = Fn(ctx, f"{WM}._kill_object_by_local_id")
    sets, key, arity, tpos = _futures_key_layout(ctx, reg)
    idpos = [i for i in range(arity) if i != tpos]

    # (a) untrack_object -> cancel_futures(obj.LocalID)
    obj = unt.params[1]
    cs = [c for c in find_calls(unt.tree, "cancel_futures", into_defs=False) if c.args and ap(c.args[0]) == f"{obj}.LocalID"]
    wit = must_pass(unt.cfg, [n for c in cs for n in unt.nodes(c)])
    ctx.ob("C14.R4", f"{RS}.untrack_object reaches cancel_futures({obj}.LocalID) on every normal path",
           bool(cs) and wit is None, unt.fi.where,
           "an object that left the region keeps pending requests that can never be resolved", unt.describe(wit))

    # (b) clear cancels everything before dropping the table
    loops = _cancel_all_loops(clr)
    heads = [n for lp in loops for n in clr.cfg.nodes_for(lp)]
    wit = must_pass(clr.cfg, heads)
    ctx.ob("C14.R4", f"{RS}.clear cancels every pending future on every normal path", bool(loops) and wit is None,
           clr.fi.where, "region teardown leaves requests pending forever", clr.describe(wit))

    # (c) kill of an unknown object cancels its requests (complement of the untrack_object branch)
    kc = [c for c in find_calls(kil.tree, "cancel_futures", into_defs=False)]
    ku = [c for c in find_calls(kil.tree, "untrack_object", into_defs=False)]
    pn = [n for c in kc + ku for n in kil.nodes(c)]
    ok = bool(kc or ku) and must_pass(kil.cfg, pn) is None
    if not ok:
        for c in kc:
            for u_ in ku:
                fc, fu = facts(c, kil.tree), facts(u_, kil.tree)
                if len(fc) == 1 and len(fu) == 1 and norm(fc[0][0]) == norm(fu[0][0]) and fc[0][1] != fu[0][1] \
                        and isinstance(fc[0][0], ast.Name) and single_def(kil.tree, fc[0][0].id) is not None:
                    ok = True
    ctx.ob("C14.R4", f"{WM}._kill_object_by_local_id cancels requests for the killed id whether or not it was tracked",
           ok, kil.fi.where, "KillObject for an untracked local id leaves its requests pending")

    # (c2) descendants of a killed id that is not tracked are its orphans: collected exactly when obj is unknown
    lid = kil.params[2] if len(kil.params) > 2 else None
    cos = [c for c in find_calls(kil.tree, "collect_orphans", into_defs=False) if c.args and ap(c.args[0]) == lid]
    casc = [lp for lp in walk(kil.tree) if isinstance(lp, ast.For) and any(
        c.args and len(c.args) >= 2 and ap(c.args[1]) == ap(lp.target)
        for c in find_calls(lp, "_kill_object_by_local_id", into_defs=False))]
    ok_co, why_co = False, f"no collect_orphans({lid}) call"
    for c in cos:
        fs = facts(c, kil.tree)
        st = enclosing_stmt(c)
        tgt = st.targets[0].id if isinstance(st, ast.Assign) and len(st.targets) == 1 and isinstance(st.targets[0], ast.Name) else None
        feeds = any(isinstance(strip_copy(lp.iter)[0], ast.Name) and strip_copy(lp.iter)[0].id == tgt for lp in casc) or \
            any(strip_copy(lp.iter)[0] is c for lp in casc)
        lookup = [e for e, pol in fs if not pol and isinstance(e, ast.Name) and isinstance(single_def(kil.tree, e.id), ast.Call)
                  and call_attr(single_def(kil.tree, e.id)) == "lookup_localid"]
        if not feeds:
            why_co = "the collected orphans do not feed the cascading kill loop"
        elif not fs or (len(fs) == 1 and lookup):
            ok_co = True
        else:
            why_co = (f"collect_orphans({lid}) is subject to {[(norm(e), p) for e, p in fs]}: orphans waiting for an "
                      f"untracked killed parent survive although their ancestor was killed")
    ctx.ob("C14.R6", f"{WM}._kill_object_by_local_id cascades to the orphans of an untracked killed id", ok_co,
           kil.fi.where, why_co)

    # (d) partial-key filters must not stop early
    nloops = 0
    for f in [f for f in repo.all_funcs if f.parent_fn is None and f.module.rel in ANCHOR_FILES]:
        for lp in [n for n in walk(f.node, into_defs=True) if isinstance(n, (ast.For, ast.AsyncFor))]:
            base, _ = strip_copy(lp.iter)
            p = ap(base) or ""
            if not is_tab(p) or p.endswith(".values()"):
                continue
            keyvar, comps = _key_parts(lp, p.endswith(".items()"))
            if keyvar is None and comps is None:
                raise AnalysisError(f"{f.qual}: loop over _object_futures with unsupported target {norm(lp.target)}")
            projs = {_projection_index(x, keyvar, comps) for c_ in walk(lp) if isinstance(c_, ast.Compare)
                     for x in [c_.left] + list(c_.comparators)} - {None}
            if not projs:
                continue
            nloops += 1
            partial = len(projs) < arity
            exits = [x for x in walk(lp) if isinstance(x, (ast.Break, ast.Return))]
            ctx.ob("C14.R4", f"{f.qual}: filter on key component {','.join(map(str, sorted(projs)))} of _object_futures "
                             f"visits every key", not (partial and exits), ctx.w(f, exits[0] if exits else lp),
                   f"keys are {arity}-tuples {norm(key)}; a filter on a projection can match several keys, leaving the "
                   f"loop at the first match skips the others")
    ctx.stats["C14.R4.projection filters over _object_futures"] = nloops

    # cancel_futures: projection is the id component, compared with the parameter, every future cancelled
    cpar = can.params[1]
    cmp_ok, cancel_ok = False, False
    for lp in [n for n in walk(can.tree) if isinstance(n, ast.For)]:
        pth = ap(strip_copy(lp.iter)[0]) or ""
        if not is_tab(pth) or pth.endswith(".values()"):
            continue
        keyvar, comps = _key_parts(lp, pth.endswith(".items()"))
        for c in find_calls(lp, "cancel", into_defs=False):
            fs = facts(c, can.tree)
            for e, pol in fs:
                if isinstance(e, ast.Compare) and len(e.ops) == 1 and (
                        (isinstance(e.ops[0], ast.Eq) and pol) or (isinstance(e.ops[0], ast.NotEq) and not pol)):
                    sides = [e.left, e.comparators[0]]
                    sub = [_projection_index(s_, keyvar, comps) for s_ in sides]
                    oth = [s_ for s_ in sides if ap(s_) == cpar]
                    if oth and any(i is not None and i in idpos for i in sub):
                        cmp_ok = True
                        cancel_ok = len(fs) == 1
    # equivalent form: direct lookups of (local_id, t) for EVERY member t of the update-type key space
    enum_name = next(((ap(a.annotation) or "").split(".")[-1] for a in reg.tree.args.args
                      if isinstance(key.elts[tpos], ast.Name) and a.arg == key.elts[tpos].id and a.annotation is not None), None)
    direct_msg = ""
    ncancel = 0
    for c in find_calls(can.tree, "cancel", into_defs=False):
        ncancel += 1
        loops = [a for a in ancestors(c) if isinstance(a, ast.For)]
        for i, lp in enumerate(loops):
            srcx = strip_copy(origin(can.tree, lp.iter))[0]
            k = None
            if isinstance(srcx, ast.Call) and call_attr(srcx) == "get" and isinstance(srcx.func, ast.Attribute) \
                    and is_tab(ap(srcx.func.value)) and srcx.args:
                k = origin(can.tree, srcx.args[0])
            elif isinstance(srcx, ast.Subscript) and is_tab(ap(srcx.value)):
                k = origin(can.tree, srcx.slice)
            if not (isinstance(k, ast.Tuple) and len(k.elts) == arity and all(ap(k.elts[j]) == cpar for j in idpos)):
                continue
            t = k.elts[tpos]
            whole = any(isinstance(t, ast.Name) and ap(o.target) == t.id and enum_name is not None
                        and (ap(strip_copy(o.iter)[0]) or "").split(".")[-1] == enum_name for o in loops[i + 1:])
            if whole:
                cmp_ok = True
                extra = [e for e, pol in facts(c, can.tree)
                         if not (isinstance(e, ast.Compare) and len(e.ops) == 1 and isinstance(e.ops[0], (ast.In, ast.NotIn))
                                 and any(is_tab(pp) for pp in paths_in(e)))]
                cancel_ok = cancel_ok or not extra
            else:
                direct_msg = (f"direct lookup of {norm(k)} fixes the update-type component to {norm(t)}: requests "
                              f"registered under the other members of {enum_name} for that local id are never cancelled")
    ctx.ob("C14.R4", f"{RS}.cancel_futures matches the local-id component of the key against its parameter",
           cmp_ok, can.fi.where, direct_msg or f"key layout is {norm(key)} (update type at index {tpos}); found "
                                               f"{ncancel} cancel call(s), none under a filter on the id component")
    ctx.ob("C14.R4", f"{RS}.cancel_futures cancels every future of every matching key", cancel_ok, can.fi.where,
           direct_msg or "cancellation is subject to a further condition")

    # (e) key agreement in resolve_futures
    rk = None
    for c in calls(res.tree):
        if call_attr(c) in ("get", "pop", "setdefault") and isinstance(c.func, ast.Attribute) and is_tab(ap(c.func.value)) and c.args:
            rk = origin(res.tree, c.args[0])
    for n in walk(res.tree):
        if isinstance(n, ast.Subscript) and is_tab(ap(n.value)) and rk is None:
            rk = origin(res.tree, n.slice)
    rtyped = {a.arg for a in res.tree.args.args if a.annotation is not None and "ObjectUpdateType" in ast.unparse(a.annotation)}
    okk = isinstance(rk, ast.Tuple) and len(rk.elts) == arity and isinstance(rk.elts[tpos], ast.Name) \
        and rk.elts[tpos].id in rtyped and all((ap(rk.elts[i]) or "").endswith(".LocalID") for i in idpos)
    ctx.ob("C14.R4", f"{RS}.resolve_futures looks up the key layout register_future stores", bool(okk), res.fi.where,
           f"register stores {norm(key)}, resolve looks up {norm(rk) if rk is not None else None}")

    # (f) register_future keeps earlier waiters of the key, appends and returns the new future
    rets = [r for r in walk(reg.tree) if isinstance(r, ast.Return)]
    rv = ap(rets[0].value) if len(rets) == 1 and rets[0].value is not None else None
    for site in sets:
        if site["call"] is None:
            v = origin(reg.tree, site["value"])
            keeps = isinstance(v, ast.Call) and call_attr(v) in ("get", "setdefault") and isinstance(v.func, ast.Attribute) \
                and is_tab(ap(v.func.value)) and v.args \
                and norm(origin(reg.tree, v.args[0])) == norm(key)
            lst = ap(site["value"])
            shown = norm(site["value"])
        else:   # T.setdefault(key, <fresh list>) returns the list already registered, if any
            dflt = site["call"].args[1] if len(site["call"].args) > 1 else None
            keeps = dflt is not None and ((isinstance(dflt, ast.List) and not dflt.elts)
                                          or (isinstance(dflt, ast.Call) and ap(dflt.func) == "list" and not dflt.args))
            st_ = enclosing_stmt(site["call"])
            lst = st_.targets[0].id if isinstance(st_, ast.Assign) and len(st_.targets) == 1 \
                and isinstance(st_.targets[0], ast.Name) and st_.value is site["call"] else None
            shown = norm(site["call"])
        ctx.ob("C14.R4", f"{RS}.register_future stores back the list already registered for the key", bool(keeps),
               reg.w(site["node"]), f"stored value {shown} does not come from _object_futures.get/setdefault(<same key>, "
                                    f"<fresh list>): earlier waiters on the key are dropped and never resolved or cancelled")
        apps = [c for c in find_calls(reg.tree, "append", into_defs=False)
                if isinstance(c.func, ast.Attribute) and c.args and ap(c.args[0]) == rv
                and ((lst is not None and ap(c.func.value) == lst) or c.func.value is site["call"])]
        wit = must_pass(reg.cfg, [n for c in apps for n in reg.nodes(c)])
        ctx.ob("C14.R4", f"{RS}.register_future appends the returned future to the stored list", bool(apps) and wit is None
               and rv is not None, reg.fi.where, "the returned future is not reachable from _object_futures")

    # (g) entries leave _object_futures only when their futures are provably finished
    nrem = 0
    for f, st in tab_writers(repo):
        if f.name == "__init__":
            continue
        removal = st.kind in ("delitem", "del") or (st.kind == "mutcall" and st.method in ("pop", "popitem", "clear")) \
            or st.kind == "assign"
        if not removal:
            continue
        nrem += 1
        fn = Fn(ctx, f.qual, f.module.rel)
        # re-find the store inside the (inlined) tree by construct text
        cands = [s for s in stores(fn.tree, into_defs=True) if s.path == st.path and s.kind == st.kind
                 and s.method == st.method and norm(s.node) == norm(st.node)]
        ctx.require(bool(cands), f"{f.qual}: cannot re-locate {norm(st.node)} for C14.R4")
        s = cands[0]
        ok, why = _removal_justified(fn, s)
        ctx.ob("C14.R4", f"{f.qual}: {norm(s.node)} only drops finished futures", ok, fn.w(s.node),
               why or "entry removed from _object_futures without proof that every future in it is done: a pending "
                      "request stored under that key can no longer be resolved or cancelled")
    ctx.floor("C14.R4", "removals from _object_futures", nrem, 1)

    # (h) resolve only pending futures (done-callbacks that prune the lists run later, not synchronously)
    srs = [c for f_ in (res,) for c in find_calls(f_.tree, "set_result", into_defs=False)]
    ctx.floor("C14.R4", "set_result calls in resolve_futures", len(srs), 1)
    for c in srs:
        recv = ap(c.func.value) if isinstance(c.func, ast.Attribute) else None
        ok = guarded_catch_all(c, res.tree) or any(
            isinstance(e, ast.Call) and call_attr(e) == "done" and isinstance(e.func, ast.Attribute)
            and ap(e.func.value) == recv and not pol for e, pol in facts(c, res.tree))
        ok = ok or any(isinstance(h.type, ast.AST) and "InvalidStateError" in ast.unparse(h.type)
                       for a in ancestors(c) if isinstance(a, ast.Try) for h in a.handlers)
        ctx.ob("C14.R4", f"{RS}.resolve_futures: {recv}.set_result only on a future that is not done", ok, res.w(c),
               "finished/cancelled futures stay in the list until their done-callback runs (scheduled, not "
               "synchronous): set_result on one raises InvalidStateError inside the object-update handler")


def _removal_justified(fn: Fn, s) -> Tuple[bool, str]:
    node = s.node
    rn = fn.nodes(node if isinstance(node, ast.stmt) else node)
    # (1) dominated by a cancel-everything loop of the same function
    loops = _cancel_all_loops(fn)
    heads = set(n for lp in loops for n in fn.cfg.nodes_for(lp))
    if heads and rn and normal_path(fn.cfg, [fn.cfg.entry], lambda n: n in rn, lambda n: n in heads) is None:
        return True, ""
    fs = facts(node, None)
    # (2) identity of the stored list + emptiness
    ident = None
    for e, pol in fs:
        if isinstance(e, ast.Compare) and len(e.ops) == 1 and isinstance(e.ops[0], ast.Is) and pol:
            for a, b in ((e.left, e.comparators[0]), (e.comparators[0], e.left)):
                pa = ap(a) or ""
                if (pa.endswith("[]") or pa.endswith(".get()")) and is_tab(pa[:-2] if pa.endswith("[]") else pa[:-6]) and isinstance(b, ast.Name):
                    ident = b.id
    if ident and any(isinstance(e, ast.Name) and e.id == ident and not pol for e, pol in fs):
        return True, ""
    # (3) take the list and finish every future in it
    if s.kind == "mutcall" and s.method == "pop":
        st = enclosing_stmt(node)
        if isinstance(st, ast.Assign) and len(st.targets) == 1 and isinstance(st.targets[0], ast.Name) and st.value is node:
            taken = st.targets[0].id
            for lp in [n for n in walk(fn.tree) if isinstance(n, ast.For) and ap(strip_copy(n.iter)[0]) == taken]:
                for c in calls(lp):
                    if call_attr(c) in ("cancel", "set_result", "set_exception") and not facts(c, lp):
                        return True, ""
    return False, ""


# --------------------------------------------------------------------------- R5

def r5(ctx):
    repo = ctx.repo
    ctx.rule("C14.R5", "object handlers are reached only through the guarded dispatcher: every subscribed handler "
                       "is invoked solely via MessageHandler -> Event.notify, whose handler call cannot leak")
    subs = []
    for cname, mod in ((WM, OM), ("ProxyWorldObjectManager", POM), ("ProxyObjectManager", POM)):
        ci = repo.cls(cname, mod)
        init = ci.methods.get("__init__")
        ctx.require(init is not None, f"{cname}.__init__ vanished")
        for c in find_calls(init.node, "subscribe", into_defs=False):
            if len(c.args) >= 2 and isinstance(c.args[1], ast.Attribute) and isinstance(c.args[1].value, ast.Name) \
                    and c.args[1].value.id == "self":
                subs.append((ci, init, c, c.args[1].attr))
    ctx.floor("C14.R5", "handler subscriptions", len(subs), 10)
    for ci, init, c, hname in subs:
        h = repo.lookup_method(ci, hname)
        ctx.ob("C14.R5", f"{ci.name}: subscribed handler {hname} exists", h is not None, ctx.w(init, c))
        direct = []
        for g, call in fast_callers_of(repo, hname):
            f_ = call.func
            if isinstance(f_, ast.Attribute) and isinstance(f_.value, ast.Call) and ap(f_.value.func) == "super" \
                    and g.name == hname:
                continue  # override delegating to its base
            direct.append(f"{g.qual} ({ctx.w(g, call)})")
        defs_ = [k.methods[hname] for k in repo.mro(ci) + repo.subclasses(ci, strict=True) if hname in k.methods]
        valued = [(d_, r) for d_ in defs_ for r in walk(d_.node) if isinstance(r, ast.Return) and r.value is not None
                  and not (isinstance(r.value, ast.Constant) and not r.value.value)]
        ctx.ob("C14.R5", f"{ci.name}.{hname} (and its overrides) return nothing", not valued,
               ctx.w(valued[0][0], valued[0][1]) if valued else ctx.w(init, c),
               f"{valued[0][0].qual + ': ' + norm(valued[0][1]) if valued else ''}: Event.notify unsubscribes a handler whose "
               f"call returns something truthy - the object handler silently stops receiving its messages")
        ctx.ob("C14.R5", f"{ci.name}.{hname} is invoked only by the dispatcher", not direct, ctx.w(init, c),
               f"called directly from {direct}: an exception would escape to that caller")
    # the dispatcher itself
    sub = repo.fn("MessageHandler.subscribe")
    ctx.ob("C14.R5", "MessageHandler.subscribe registers the handler on the per-name Event",
           any(call_attr(c) == "subscribe" and c.args and ap(c.args[0]) == sub.node.args.args[2].arg
               for c in calls(sub.node)), sub.where)
    ev = repo.cls("Event", "hippolyzer/lib/base/events.py")
    callattr = repo.class_attr(ev, "__call__")
    ctx.ob("C14.R5", "Event.__call__ is Event.notify", ap(callattr) == "notify" if callattr is not None else False,
           f"{ev.module.rel}:{ev.node.lineno}")
    nt = repo.fn("Event.notify")
    hvars = set()
    for lp in [n for n in walk(nt.node) if isinstance(n, ast.For) and (ap(strip_copy(lp_iter(n))[0]) or "").endswith(".subscribers")]:
        hvars.add(ap(lp.target))
        if isinstance(lp.target, (ast.Tuple, ast.List)) and lp.target.elts:
            hvars.add(ap(lp.target.elts[0]))    # `for handler, args, ... in self.subscribers[:]`
        hvars.discard(None)
        for s in stores(lp, into_defs=False):
            if isinstance(s.node, ast.Assign) and isinstance(s.node.targets[0], ast.Tuple) and ap(s.node.value) in hvars \
                    and s.node.targets[0].elts and s.target is s.node.targets[0].elts[0]:
                hvars.add(s.path)
    hcalls = [c for c in calls(nt.node) if isinstance(c.func, ast.Name) and c.func.id in hvars]
    ctx.floor("C14.R5", "synchronous handler invocations in Event.notify", len(hcalls), 1)
    for c in hcalls:
        ctx.ob("C14.R5", f"Event.notify: {norm(c.func)}(...) lies in a catch-all try that never re-raises",
               guarded_catch_all(c, nt.node), ctx.w(nt, c), "a raising object handler would abort the dispatch")


def lp_iter(loop):
    return loop.iter


# --------------------------------------------------------------------------- R6

def _child_loops(fn: Fn, base_path: str):
    out = []
    for lp in [n for n in walk(fn.tree) if isinstance(n, ast.For)]:
        e, copied = strip_copy(origin(fn.tree, lp.iter))
        e2, c2 = strip_copy(origin(fn.tree, e)) if isinstance(e, ast.Name) else (e, False)
        if ap(e2) == base_path and isinstance(lp.target, ast.Name):
            out.append((lp, copied or c2))
    return out


def _iter_eval_node(fn: Fn, lp):
    """CFG node(s) at which the iterated sequence of `lp` is computed."""
    if strip_copy(lp.iter)[1]:
        return fn.cfg.nodes_for(lp)          # copied when the loop is entered
    if isinstance(lp.iter, ast.Name):
        d = single_def(fn.tree, lp.iter.id)
        if d is not None and strip_copy(d)[1]:
            return fn.nodes(d)               # snapshot taken where the name is bound
    return fn.cfg.nodes_for(lp)              # alias of the live list: read while iterating


def r6(ctx):
    repo = ctx.repo
    ctx.rule("C14.R6", "adoption and orphaning are unconditional and ordered: track_object parents the object and "
                       "adopts every collected orphan; untrack_object unparents and then orphans every former child "
                       "and unparents itself; a link is never undone later in the same operation")
    t = Fn(ctx, f"{RS}.track_object")
    obj = t.params[1]
    po = repo.fn(f"{RS}._parent_object")
    pcs = [c for c in find_calls(t.tree, "_parent_object", into_defs=False)
           if ap(bind_call(po, c).get("obj")) == obj]
    wit = must_pass(t.cfg, [n for c in pcs for n in t.nodes(c)])
    ctx.ob("C14.R6", f"{RS}.track_object calls _parent_object({obj}) on every normal path", bool(pcs) and wit is None,
           t.fi.where, "a tracked object is not linked to (or orphaned under) its parent", t.describe(wit))
    # adoption loop
    adopt = []
    for lp in [n for n in walk(t.tree) if isinstance(n, ast.For) and isinstance(n.target, ast.Name)]:
        e, _ = strip_copy(origin(t.tree, lp.iter))
        if isinstance(e, ast.Call) and e.args and ap(e.args[0]) == f"{obj}.LocalID" and (
                call_attr(e) == "collect_orphans" or
                (call_attr(e) == "pop" and (ap(e.func.value) or "").endswith("._orphans"))):
            adopt.append(lp)
    ctx.ob("C14.R6", f"{RS}.track_object iterates collect_orphans({obj}.LocalID)", len(adopt) == 1, t.fi.where,
           f"found {len(adopt)} adoption loops: orphans waiting for this parent are never adopted")
    idx_nodes = [n for s in stores(t.tree, into_defs=False)
                 if s.kind == "setitem" and s.path.endswith(".localid_lookup") and ap(s.target.slice) == f"{obj}.LocalID"
                 for n in t.nodes(s.node)]
    for lp in adopt:
        wit = must_pass(t.cfg, t.cfg.nodes_for(lp))
        ctx.ob("C14.R6", f"{RS}.track_object reaches the adoption loop on every normal path", wit is None, t.w(lp),
               "adoption skipped on some path", t.describe(wit))
        acs = [c for c in find_calls(lp, "_parent_object", into_defs=False)
               if object_of(t.tree, bind_call(po, c).get("obj"), lp.target.id)]
        wit = body_must_pass(t, lp, [n for c in acs for n in t.nodes(c)]) if acs else ["no call"]
        ctx.ob("C14.R6", f"{RS}.track_object re-parents every collected orphan", bool(acs) and wit is None, t.w(lp),
               "an orphan taken out of the orphanage is not linked to its parent (and is no longer an orphan either)",
               t.describe(wit) if acs else None)
        for c in acs:
            cn = t.nodes(c)
            w2 = normal_path(t.cfg, [t.cfg.entry], lambda n: n in cn, lambda n: n in idx_nodes)
            ctx.ob("C14.R6", f"{RS}.track_object indexes {obj} by local id before adopting children", w2 is None, t.w(c),
                   "_parent_object(child) finds the parent through localid_lookup", t.describe(w2))

    # untrack_object
    u = Fn(ctx, f"{RS}.untrack_object")
    uo = u.params[1]
    up = repo.fn(f"{RS}._unparent_object")
    to = repo.fn(f"{RS}._track_orphan")
    loops = _child_loops(u, f"{uo}.ChildIDs")
    unp, orp = [], []
    for lp, copied in loops:
        v = lp.target.id
        ucs = [c for c in find_calls(lp, "_unparent_object", into_defs=False)
               if object_of(u.tree, bind_call(up, c).get("obj"), v)]
        tcs = [c for c in find_calls(lp, "_track_orphan", into_defs=False)
               if ap(bind_call(to, c).get("local_id")) == v and ap(bind_call(to, c).get("parent_id")) == f"{uo}.LocalID"]
        if ucs:
            unp.append((lp, copied, ucs))
        if tcs:
            orp.append((lp, copied, tcs))
    ctx.ob("C14.R6", f"{RS}.untrack_object unparents every former child", len(unp) >= 1, u.fi.where,
           f"no loop over {uo}.ChildIDs calling _unparent_object(<child object>, ...)")
    ctx.ob("C14.R6", f"{RS}.untrack_object places every former child in the orphanage under {uo}.LocalID",
           len(orp) >= 1, u.fi.where, f"no loop over {uo}.ChildIDs calling _track_orphan(<child id>, {uo}.LocalID): "
                                      f"children of a departed parent are not re-adopted when it reappears")
    for what, group in (("unparent", unp), ("orphan", orp)):
        for lp, copied, cs in group:
            wit = must_pass(u.cfg, u.cfg.nodes_for(lp))
            ctx.ob("C14.R6", f"{RS}.untrack_object reaches the {what} loop on every normal path", wit is None, u.w(lp),
                   "", u.describe(wit))
            wit = body_must_pass(u, lp, [n for c in cs for n in u.nodes(c)])
            ctx.ob("C14.R6", f"{RS}.untrack_object: {what} call on every iteration", wit is None, u.w(lp),
                   "some former child is skipped", u.describe(wit))
    for lp, copied, cs in unp:
        ctx.ob("C14.R6", f"{RS}.untrack_object: unparent loop iterates a copy of {uo}.ChildIDs", copied, u.w(lp),
               "_unparent_object deletes from the list being iterated: elements are skipped")
    # the orphan loop's snapshot must be taken before children are unparented
    for lp, copied, cs in orp:
        ev_nodes = set(_iter_eval_node(u, lp))
        for lp1, _, ucs in unp:
            if lp1 is lp:
                continue
            un = [n for c in ucs for n in u.nodes(c)]
            w2 = normal_path(u.cfg, un, lambda n: n in ev_nodes)
            ctx.ob("C14.R6", f"{RS}.untrack_object: former children are snapshotted before they are unparented",
                   w2 is None, u.w(lp), f"the orphan loop reads {uo}.ChildIDs after _unparent_object emptied it",
                   u.describe(w2))
    scs = [c for c in find_calls(u.tree, "_unparent_object", into_defs=False)
           if ap(bind_call(up, c).get("obj")) == uo and ap(bind_call(up, c).get("old_parent_id")) == f"{uo}.ParentID"]
    wit = must_pass(u.cfg, [n for c in scs for n in u.nodes(c)])
    ctx.ob("C14.R6", f"{RS}.untrack_object calls _unparent_object({uo}, {uo}.ParentID) on every normal path",
           bool(scs) and wit is None, u.fi.where, "the departed object stays in its parent's child lists",
           u.describe(wit))

    # handle_object_reparented
    h = Fn(ctx, f"{RS}.handle_object_reparented")
    ho = h.params[1]
    for name, callee in (("_unparent_object", up), ("_parent_object", po)):
        cs = [c for c in find_calls(h.tree, name, into_defs=False) if ap(bind_call(callee, c).get("obj")) == ho]
        wit = must_pass(h.cfg, [n for c in cs for n in h.nodes(c)])
        ctx.ob("C14.R6", f"{RS}.handle_object_reparented calls {name}({ho}) on every normal path",
               bool(cs) and wit is None, h.fi.where, "", h.describe(wit))

    # ordering: a link made in an operation is not undone later in the same operation
    nlinks = 0
    rs = repo.cls(RS, OM)
    for mname, mfi in sorted(rs.methods.items()):
        if mname in ("_parent_object", "_unparent_object", "_track_orphan", "_untrack_orphan"):
            continue
        fn = Fn(ctx, f"{RS}.{mname}") if mname not in ("track_object", "untrack_object", "handle_object_reparented") \
            else {"track_object": t, "untrack_object": u, "handle_object_reparented": h}[mname]
        links = [("parent", c, bind_call(po, c)) for c in find_calls(fn.tree, "_parent_object", into_defs=False)] + \
                [("orphan", c, bind_call(to, c)) for c in find_calls(fn.tree, "_track_orphan", into_defs=False)]
        unlinks = [(c, bind_call(up, c)) for c in find_calls(fn.tree, "_unparent_object", into_defs=False)] + \
                  [(c, bind_call(repo.fn(f"{RS}._untrack_orphan"), c))
                   for c in find_calls(fn.tree, "_untrack_orphan", into_defs=False)]
        for kind, lc, la in links:
            nlinks += 1
            for uc, ua in unlinks:
                uobj = ua.get("obj")
                uq = ua.get("old_parent_id", ua.get("parent_id"))
                names = set()
                if kind == "parent":
                    lo = la.get("obj")
                    same = isinstance(lo, ast.Name) and isinstance(uobj, ast.Name) and lo.id == uobj.id
                    if same:
                        names = {lo.id}
                else:
                    x, p = la.get("local_id"), la.get("parent_id")
                    xo = ap(x)
                    is_obj = isinstance(uobj, ast.Name) and xo is not None and (
                        xo == f"{uobj.id}.LocalID" or object_of(fn.tree, uobj, xo))
                    same_parent = uq is not None and p is not None and (
                        norm(uq) == norm(p) or (isinstance(uobj, ast.Name) and ap(uq) == f"{uobj.id}.ParentID"))
                    same = is_obj and same_parent
                    if same:
                        names = {uobj.id} | ({x.id} if isinstance(x, ast.Name) else set())
                if not same:
                    continue
                rebind = set()
                for lp in [n for n in walk(fn.tree) if isinstance(n, (ast.For, ast.AsyncFor))]:
                    if set(loop_targets(lp)) & names:
                        rebind |= set(fn.cfg.nodes_for(lp))
                un = set(fn.nodes(uc))
                wit = normal_path(fn.cfg, fn.nodes(lc), lambda n: n in un, lambda n: n in rebind)
                ctx.ob("C14.R6", f"{RS}.{mname}: {norm(lc)} is not undone by a later {norm(uc)}", wit is None,
                       fn.w(lc), "the link / orphan entry just created for this object is removed again by the "
                                 "later call (which clears Parent and deletes the orphan entry for the same parent)",
                       fn.describe(wit))
    ctx.floor("C14.R6", "link calls examined for ordering", nlinks, 2)


# --------------------------------------------------------------------------- R7

def r7(ctx):
    """Load-once latches of the per-region object manager are released by teardown."""
    repo = ctx.repo
    ctx.rule("C14.R7", "teardown releases load-once latches: a flag that makes a loader of the region object manager "
                       "return early once set is reset by clear() on every normal path (else state of the previous "
                       "incarnation of the region is served after teardown)")
    ci = repo.cls("ProxyObjectManager", POM)
    latches = []
    for mname, mfi in sorted(ci.methods.items()):
        if mname in ("__init__", "clear"):
            continue
        sets = {s.path for s in stores(mfi.node, into_defs=False) if s.kind == "assign" and s.path.startswith("self.")
                and isinstance(s.value, ast.Constant) and s.value.value is True}
        if not sets:
            continue
        for st in mfi.node.body:
            if isinstance(st, ast.If) and not st.orelse and st.body and isinstance(st.body[-1], ast.Return):
                # the loader proceeds past the guard only while self.F is falsy
                reads = {ap(e) for e, pol in atoms(st.test, False) if isinstance(e, ast.Attribute) and not pol}
                for f_ in sorted(sets & reads):
                    latches.append((mfi, f_, st))
    ctx.floor("C14.R7", "load-once latches in ProxyObjectManager", len(latches), 1)
    clr = Fn(ctx, "ProxyObjectManager.clear", POM)
    for mfi, field, guard in latches:
        resets = [n for s in stores(clr.tree, into_defs=False)
                  if s.kind == "assign" and s.path == field and isinstance(s.value, ast.Constant) and not s.value.value
                  for n in clr.nodes(s.node)]
        wit = must_pass(clr.cfg, resets)
        ctx.ob("C14.R7", f"ProxyObjectManager.clear resets {field} (latch of {mfi.name})", bool(resets) and wit is None,
               clr.fi.where, f"{mfi.name} returns early while {field} is set and sets it itself; clear() does not "
                             f"reset it on every path, so after region teardown {mfi.name} is a no-op and what it "
                             f"loaded for the previous incarnation keeps being used", clr.describe(wit))


# --------------------------------------------------------------------------- R8

def r8(ctx):
    """Registration of a region with the world manager and its release at teardown are unconditional."""
    repo = ctx.repo
    ctx.rule("C14.R8", "region registration symmetry: a RegionHandshake always (re)registers the region with the world "
                       "object manager, teardown always releases it (given a handle); object-kind dispatch tables "
                       "consulted by update normalisation are total over PCode")
    n = 0
    for f, c in fast_callers_of(repo, "track_region_objects"):
        if not f.module.rel.startswith("hippolyzer/lib/") or f.module.rel.endswith("test_utils.py"):
            continue
        hs = None
        for a in ancestors(c):
            if isinstance(a, ast.If) and any(
                    pol and isinstance(e, ast.Compare) and len(e.ops) == 1 and isinstance(e.ops[0], ast.Eq)
                    and isinstance(e.comparators[0], ast.Constant) and e.comparators[0].value == "RegionHandshake"
                    and (ap(e.left) or "").endswith(".name") for e, pol in atoms(a.test, True)) \
                    and any(x is c for s_ in a.body for x in ast.walk(s_)):
                hs = a
                break
        if hs is None:
            ctx.note(f"C14.R8: {f.qual} registers its region outside a RegionHandshake branch ({ctx.w(f, c)}): not checked")
            continue
        n += 1
        own = {id(e) for e, _ in atoms(hs.test, True)}
        harg = ap(c.args[0]) if c.args else None

        def arg_set(e, pol):    # the handle passed to the call is itself known to be set
            t = is_none_test(e)
            return (t is not None and t[0] == harg and t[1] != pol) or (ap(e) == harg and pol)
        extra = [(e, p_) for e, p_ in facts(c, hs) if id(e) not in own and not arg_set(e, p_)]
        ctx.ob("C14.R8", f"{f.qual}: every RegionHandshake registers the region with the world object manager",
               not extra and not any(isinstance(a, (ast.For, ast.While, ast.Try)) for a in ancestors(c)
                                     if any(a is x for x in ast.walk(hs))),
               ctx.w(f, c), f"registration is subject to {[(norm(e), p) for e, p in extra]}: the world manager drops the "
                            f"region at teardown, so a later handshake that fails this test leaves the region's updates "
                            f"unhandled (`unknown region`) for good")
    ctx.floor("C14.R8", "region registrations in a RegionHandshake branch", n, 1)
    # teardown
    clr = Fn(ctx, "ClientObjectManager.clear", OM)
    ucs = find_calls(clr.tree, "untrack_region_objects", into_defs=False)
    ctx.floor("C14.R8", "untrack_region_objects calls in ClientObjectManager.clear", len(ucs), 1)
    for c in ucs:
        harg = ap(c.args[0]) if c.args else None
        extra = []
        for e, pol in facts(c, clr.tree):
            t = is_none_test(e)
            if (t and t[0] == harg and t[1] != pol) or (ap(e) == harg and pol):
                continue
            extra.append((norm(e), pol))
        ctx.ob("C14.R8", "ClientObjectManager.clear releases the region from the world object manager whenever it has a handle",
               not extra, clr.w(c), f"release is subject to {extra}: a torn-down region stays registered (its manager is "
                                    f"a dead proxy) or its objects stay in the full-id index")
    # PCode dispatch tables used by normalisation
    from ..consteval import enum_members
    tm = repo.module("hippolyzer/lib/base/templates.py")
    pcodes = set(enum_members(repo, repo.cls("PCode", "hippolyzer/lib/base/templates.py")))
    nt = 0
    for d in [x for x in ast.walk(tm.tree) if isinstance(x, ast.Dict)]:
        keys = [ap(k) for k in d.keys if k is not None]
        pk = {k.split(".")[-1] for k in keys if k and k.split(".")[-2:-1] == ["PCode"]}
        if not pk:
            continue
        consumer = parent(d) if isinstance(parent(d), ast.Call) else None
        if consumer is None and isinstance(parent(d), (ast.Assign, ast.AnnAssign)):
            # the table is named first and handed to the dispatcher afterwards
            tgt = parent(d).targets[0] if isinstance(parent(d), ast.Assign) else parent(d).target
            fn_ = next((a for a in ancestors(d) if isinstance(a, FUNC_TYPES)), None)
            if isinstance(tgt, ast.Name) and fn_ is not None:
                consumer = next((c for c in calls(fn_) if any(
                    isinstance(a_, ast.Name) and a_.id == tgt.id for a_ in list(c.args) + [k.value for k in c.keywords])), None)
        if consumer is None:
            continue
        nt += 1
        has_default = any(k and k.split(".")[-1] == "MISSING" for k in keys)
        missing = sorted(pcodes - pk)
        owner = ".".join(reversed([a.name for a in ancestors(d) if isinstance(a, (ast.ClassDef,) + FUNC_TYPES)])) or "<module>"
        ctx.ob("C14.R8", f"templates.py: PCode dispatch table in {owner} is total", has_default or not missing,
               f"{tm.rel}:{d.lineno}",
               f"no default row and no row for {missing}: decoding the State of such an object raises inside the "
               f"object-update handler")
    ctx.floor("C14.R8", "PCode dispatch tables", nt, 1)
    # a PCode the enum has no name for is an ordinary wire value: converting it must not raise in the normalisers
    om = repo.module(OBJ)
    npc = 0
    # objects.py and the repo modules it pulls its normalisers / readers from (code that moved out of it)
    skip = ("templates", "serialization", "datatypes", "helpers", "llsd")
    near = {om.rel} | {m_.rel for m_ in repo.modules.values()
                       if any(t == m_.name or t.startswith(m_.name + ".") for t in om.imports.values())
                       and m_.name.startswith("hippolyzer.lib.base.") and m_.name.split(".")[-1] not in skip
                       and ".message" not in m_.name}
    # a tolerant constructor on the enum itself (`PCode.from_wire(x)`: `cls(val)` inside) converts for its callers
    pci = repo.resolve_class("PCode", repo.module(TMPL)) if "TMPL" in globals() else None
    if pci is None:
        pcs = repo.classes.get("PCode", [])
        pci = pcs[0] if len(pcs) == 1 else None
    own = []
    if pci is not None:
        used = {(ap(c.func) or "").split(".")[-1] for f in repo.all_funcs if f.module.rel in near for c in calls(f.node)
                if ".PCode." in "." + (ap(c.func) or "")}
        own = [m_ for nm, m_ in pci.methods.items() if nm in used]
    for f in [f for f in repo.all_funcs if f.module.rel in near] + own:
        for c in calls(f.node):
            is_conv = (ap(c.func) or "").split(".")[-1] == "PCode" or (f in own and (ap(c.func) or "") == "cls")
            if is_conv and c.args and not isinstance(c.args[0], ast.Constant):
                npc += 1
                from ..core import try_contexts
                ok = any(tc.section == "body" and any(
                    h.type is None or any(n in ast.unparse(h.type) for n in ("ValueError", "Exception")) for h in tc.node.handlers)
                    for tc in try_contexts(c, f.node))
                ctx.ob("C14.R8", f"{f.qual}: {norm(c)} tolerates a PCode the enum does not name", ok, ctx.w(f, c),
                       "enum conversion of the wire value outside a try that handles ValueError: an object of an unnamed "
                       "kind makes the update handler raise (its sibling keeps such kinds as plain numbers)")
    ctx.floor("C14.R8", "PCode conversions in objects.py", npc, 1)


# --------------------------------------------------------------------------- R9

def r9(ctx):
    """One Object per FullID: a freshly built Object is tracked only where a lookup by the announced FullID
    returned nothing."""
    from ..core import conditions
    from .common import class_methods_reachable
    repo = ctx.repo
    ctx.rule("C14.R9", "one Object per FullID: in the update handlers (and their helpers) a freshly built Object reaches "
                       "_track_new_object / track_object only on the branch where lookup_fullid(<its FullID>) found nothing")
    funcs = []
    for h in ("_handle_object_update", "_handle_object_update_compressed", "_handle_object_update_cached"):
        for g in class_methods_reachable(repo, repo.fn(f"{WM}.{h}"), depth=3):
            if g not in funcs and g.name not in ("_track_new_object", "_update_existing_object", "_kill_object_by_local_id"):
                funcs.append(g)
    n = 0
    for g in funcs:
        for c in [c for c in calls(g.node) if call_attr(c) in ("_track_new_object", "track_object")]:
            fresh = None
            for a in c.args:
                o = origin(g.node, a)
                if isinstance(o, ast.Call) and (ap(o.func) or "").split(".")[-1] == "Object":
                    fresh = o
            if fresh is None:
                continue
            n += 1
            src_names = {ap(k.value) for k in fresh.keywords if k.arg is None and ap(k.value)}
            ok, why = False, "no dominating `lookup_fullid(<data>['FullID'])` miss"
            for cond in conditions(c, g.node):
                for e, pol in atoms(cond.test, cond.polarity):
                    t = is_none_test(e)
                    var = t[0] if (t and t[1] == pol) else (e.id if isinstance(e, ast.Name) and not pol else None)
                    if var is None or "." in var:
                        continue
                    guard = enclosing_stmt(cond.test)
                    block, _ = _block_of(guard)
                    if block is None:
                        continue
                    last = None     # the binding of var in force at the guard
                    for st in block:
                        if st is guard:
                            break
                        for s_ in stores(st, into_defs=False):
                            if s_.path == var:
                                last = s_
                    v = last.value if last is not None and last.kind == "assign" else None
                    if isinstance(v, ast.Call) and call_attr(v) == "lookup_fullid" and v.args \
                            and isinstance(v.args[0], ast.Subscript) and isinstance(v.args[0].slice, ast.Constant) \
                            and v.args[0].slice.value == "FullID" and (not src_names or ap(v.args[0].value) in src_names):
                        ok = True
                    elif v is not None:
                        why = f"`{var}` tested at the guard comes from {norm(v)[:80]}, not from a lookup by the new object's FullID"
            ctx.ob("C14.R9", f"{g.qual}: {call_attr(c)}({norm(fresh)[:60]}) only after lookup_fullid missed", ok, ctx.w(g, c),
                   f"{why}: an object that is already tracked under this FullID gets a second Object; the old instance "
                   f"leaves the indices but stays in its parent's ChildIDs/Children")
    ctx.floor("C14.R9", "fresh-Object tracking sites in the update handlers", n, 1)


# --------------------------------------------------------------------------- audit round (D85-D89 fixes)

def r_audit(ctx):
    repo = ctx.repo
    # (1) children exempt from the cascading kill stay orphans of an untracked killed parent
    kil = Fn(ctx, f"{WM}._kill_object_by_local_id")
    lid = kil.params[2] if len(kil.params) > 2 else None
    to = repo.fn(f"{RS}._track_orphan")
    for lp in [x for x in walk(kil.tree) if isinstance(x, ast.For)]:
        kills = [c for c in find_calls(lp, "_kill_object_by_local_id", into_defs=False)
                 if len(c.args) >= 2 and ap(c.args[1]) == ap(lp.target)]
        if not kills:
            continue
        kn = set(n for c in kills for n in kil.nodes(c))
        heads = set(kil.cfg.nodes_for(lp))
        skips = [k for k in walk(lp) if isinstance(k, ast.Continue)
                 and normal_path(kil.cfg, kil.nodes(k), lambda n: n in heads, lambda n: n in kn) is not None]
        tracks = [c for c in find_calls(lp, "_track_orphan", into_defs=False)
                  if ap(bind_call(to, c).get("local_id")) == ap(lp.target) and ap(bind_call(to, c).get("parent_id")) == lid]
        for k in skips:
            base = {(norm(e), p) for e, p in facts(k, lp)}
            ok = False
            for t in tracks:
                extra = [(e, p) for e, p in facts(t, lp) if (norm(e), p) not in base]
                unknown_parent = all(
                    not p and isinstance(e, ast.Name) and isinstance(single_def(kil.tree, e.id), ast.Call)
                    and call_attr(single_def(kil.tree, e.id)) == "lookup_localid" for e, p in extra)
                tn = kil.nodes(t)
                if len(extra) <= 1 and unknown_parent and \
                        normal_path(kil.cfg, tn, lambda n: n in set(kil.nodes(k)), lambda n: n in kn) is not None:
                    ok = True
            ctx.ob("C14.R6", f"{WM}._kill_object_by_local_id: a child exempt from the cascade stays an orphan of an "
                             f"untracked killed parent", ok, kil.w(k),
                   f"the orphan list of the untracked id was taken out of the orphanage (collect_orphans) and this branch "
                   f"skips the child without _track_orphan({ap(lp.target)}, {lid}): the surviving child is neither a child "
                   f"nor an orphan and is never adopted when the parent's local id is announced")
    # (2) lookup by handle prefers a live region
    rbh = repo.fn("BaseClientSession.region_by_handle")
    alive = any(p and (ap(e) or "").endswith(".is_alive") for r in walk(rbh.node) if isinstance(r, ast.Return)
                for e, p in facts(r, rbh.node)) or any(
        (ap(x) or "").endswith(".is_alive") for g in walk(rbh.node) if isinstance(g, (ast.GeneratorExp, ast.ListComp))
        for gen in g.generators for i in gen.ifs for x in ast.walk(i))
    def selects_alive(v):
        """The returned value was selected by an expression that asks for is_alive (generator filter / predicate lambda)."""
        o = origin(rbh.node, v) if v is not None else None
        return o is not None and any((ap(x) or "").endswith(".is_alive") for x in ast.walk(o) if isinstance(x, ast.Attribute))
    early = [r for r in walk(rbh.node) if isinstance(r, ast.Return) and r is not rbh.node.body[-1] and r.value is not None
             and not (isinstance(r.value, ast.Constant) and r.value.value is None)]
    stale = [r for r in early if not any(p_ and (ap(e) or "").endswith(".is_alive") for e, p_ in facts(r, rbh.node))
             and not selects_alive(r.value)]
    ctx.ob("C14.R8", "BaseClientSession.region_by_handle answers early only with a region it just saw alive", not stale,
           ctx.w(rbh, stale[0]) if stale else rbh.where,
           f"{norm(stale[0]) if stale else ''} hands back a region without asking whether it is alive at this lookup (a "
           f"remembered answer outlives the region's circuit): after a region restart the dead predecessor is returned again")
    if not alive:
        # finder helper with a predicate: `self._find(lambda r: r.handle == h and r.is_alive)`; the finder must return
        # only elements its predicate accepted, the lambda body supplies the fact
        for c in calls(rbh.node):
            if not (isinstance(c.func, ast.Attribute) and isinstance(c.func.value, ast.Name) and rbh.cls is not None):
                continue
            h = repo.lookup_method(rbh.cls, c.func.attr)
            lams = [a_ for a_ in list(c.args) + [k.value for k in c.keywords] if isinstance(a_, ast.Lambda)]
            if h is None or not lams:
                continue
            params = [p_.arg for p_ in h.node.args.posonlyargs + h.node.args.args][1:]
            bound = dict(zip(params, c.args))
            bound.update({k.arg: k.value for k in c.keywords if k.arg})
            for pname, lam in [(pn, v) for pn, v in bound.items() if isinstance(v, ast.Lambda)]:
                rets = [r for r in walk(h.node) if isinstance(r, ast.Return) and r.value is not None
                        and not (isinstance(r.value, ast.Constant) and r.value.value is None)]
                accepted_only = bool(rets) and all(
                    any(p_ and isinstance(e, ast.Call) and isinstance(e.func, ast.Name) and e.func.id == pname
                        and e.args and ap(e.args[0]) == ap(r.value) for e, p_ in facts(r, h.node)) for r in rets)
                live = any(p_ and (ap(e) or "").endswith(".is_alive") for e, p_ in atoms(lam.body, True))
                if accepted_only and live:
                    alive = True
    ctx.ob("C14.R8", "BaseClientSession.region_by_handle prefers a live region over a dead one with the same handle", alive,
           rbh.where, "dead regions stay in session.regions; the first region with the handle is returned dead or alive, so "
                      "after a region restart track_region_objects registers the dead region's object manager")
    # (3) a reply resolves pending requests whether or not it changed anything
    upd = Fn(ctx, f"{WM}._update_existing_object")
    states = {s_.path for s_ in stores(upd.tree, into_defs=False) if s_.kind == "assign" and isinstance(s_.value, ast.Call)
              and call_attr(s_.value) == "_get_region_state"}
    rcs = [c for c in calls(upd.tree) if call_attr(c) in ("_run_object_update_hooks", "resolve_futures")]

    def cond(c):
        out = []
        for e, p in facts(c, upd.tree):
            t = is_none_test(e)
            if (t and t[0] in states) or (isinstance(e, ast.Name) and e.id in states):
                continue
            out.append((norm(e), p))
        return out
    fs_ = [cond(c) for c in rcs]
    covered = any(not f for f in fs_) or any(len(a_) == 1 and len(b_) == 1 and a_[0][0] == b_[0][0] and a_[0][1] != b_[0][1]
                                             for a_ in fs_ for b_ in fs_)
    ctx.ob("C14.R4", f"{WM}._update_existing_object: a reply resolves the object's pending requests whether or not it "
                     f"changed anything", bool(rcs) and covered, upd.fi.where,
           f"futures are resolved only under {fs_}: the reply to a repeated request for an unchanged object leaves the "
           f"request pending forever (never resolved, never cancelled)")
    # (3b) whether a region state owns the object is decided by its index, not by the object's handle alone
    objp = upd.params[1] if len(upd.params) > 1 else None
    uts = [c for c in find_calls(upd.tree, "untrack_object", into_defs=False)
           if c.args and ap(c.args[0]) == objp and isinstance(c.func, ast.Attribute) and ap(c.func.value) in states]
    ctx.floor("C14.R2", "untrack_object calls in _update_existing_object", len(uts), 1)
    for c in uts:
        st = ap(c.func.value)
        checks = []
        for x in walk(upd.tree):
            if isinstance(x, ast.Compare) and len(x.ops) == 1 and isinstance(x.ops[0], (ast.Is, ast.IsNot)):
                sides = [origin(upd.tree, x.left), origin(upd.tree, x.comparators[0])]
                if any(ap(y) == objp for y in (x.left, x.comparators[0])) and any(
                        isinstance(y, ast.Call) and isinstance(y.func, ast.Attribute)
                        and (call_attr(y) == "lookup_localid" and ap(y.func.value) == st
                             or call_attr(y) == "get" and (ap(y.func.value) or "") == f"{st}.localid_lookup") for y in sides):
                    checks.append(x)
        cn = set(upd.nodes(c))
        dom = any(normal_path(upd.cfg, [upd.cfg.entry], lambda n: n in cn, lambda n, k=k: n in set(upd.nodes(k))) is None
                  for k in checks)
        ctx.ob("C14.R2", f"{WM}._update_existing_object: {st}.untrack_object({objp}) only after the index was asked whether "
                         f"it holds {objp}", bool(checks) and dom, upd.w(c),
               f"ownership is inferred from the region handles: an object parked under a handle that was not tracked when "
               f"it got there is not in {st}.localid_lookup although {st} exists by now - untrack_object raises KeyError, "
               f"and while the handles are equal the object is never tracked, parented or given its orphans")
    # (6) D122 (recorded): the handle -> manager registry is not checked against the region that announces the handle
    trk = Fn(ctx, f"{WM}.track_region_objects")
    region_aware = len(trk.params) > 2 or any(
        isinstance(x, ast.Compare) and isinstance(x.ops[0], (ast.Is, ast.IsNot)) and not any(
            isinstance(y, ast.Constant) and y.value is None for y in [x.left] + x.comparators) for x in walk(trk.tree))
    ctx.ob("C14.R8", f"{WM}.track_region_objects re-binds a handle that another region object announces", region_aware,
           trk.fi.where, "the registry is keyed by handle only and keeps whatever manager is registered: a successor region "
                         "under the same handle whose predecessor was never torn down shares the predecessor's index "
                         "(updates go by handle to the old state, kills by circuit to the new one)")
    # (4) the avatar index forgets an object together with the full-id index
    for q in (f"{WM}._kill_object_by_local_id", f"{WM}.untrack_region_objects"):
        g = Fn(ctx, q)
        for s_ in stores(g.tree, into_defs=False):
            if not s_.path.endswith("._fullid_lookup"):
                continue
            k = s_.target.slice if s_.kind == "delitem" else s_.node.args[0] if (
                s_.kind == "mutcall" and s_.method == "pop" and s_.node.args) else None
            if k is None or not (ap(k) or "").endswith(".FullID"):
                continue
            base = {(norm(e), p) for e, p in facts(s_.node, g.tree)}
            ok = False
            for a_ in stores(g.tree, into_defs=False):
                if not a_.path.endswith("._avatar_objects"):
                    continue
                ka = a_.target.slice if a_.kind == "delitem" else a_.node.args[0] if (
                    a_.kind == "mutcall" and a_.method == "pop" and a_.node.args) else None
                if ka is None or ap(ka) != ap(k):
                    continue
                extra = [(e, p) for e, p in facts(a_.node, g.tree) if (norm(e), p) not in base]
                if all(p and isinstance(e, ast.Compare) and "AVATAR" in norm(e) for e, p in extra):
                    ok = True
            ctx.ob("C14.R2", f"{q}: _fullid_lookup removal of {ap(k)} goes with the _avatar_objects removal", ok,
                   g.w(s_.node), "the avatar list is rebuilt from _avatar_objects: an avatar whose Object left the full-id "
                                 "index stays a valid Avatar pointing at the unloaded Object")
    # (5) clearing the world clears every registered region manager
    wc = Fn(ctx, f"{WM}.clear")
    ok5 = False
    for lp in [x for x in walk(wc.tree) if isinstance(x, ast.For)]:
        pth = ap(strip_copy(lp.iter)[0]) or ""
        if "._region_managers" not in pth:
            continue
        vals = set()
        if pth.endswith(".items()") and isinstance(lp.target, (ast.Tuple, ast.List)) and len(lp.target.elts) == 2:
            vals.add(ap(lp.target.elts[1]))
        elif pth.endswith(".values()"):
            vals.add(ap(lp.target))
        cs = [c for c in find_calls(lp, "clear", into_defs=False) if isinstance(c.func, ast.Attribute) and (
            ap(c.func.value) in vals or (isinstance(c.func.value, ast.Subscript) and (ap(c.func.value.value) or "").endswith("._region_managers")))]
        if cs and body_must_pass(wc, lp, [n for c in cs for n in wc.nodes(c)]) is None and must_pass(wc.cfg, wc.cfg.nodes_for(lp)) is None:
            ok5 = True
    ctx.ob("C14.R8", f"{WM}.clear clears every registered region object manager", ok5, wc.fi.where,
           "world teardown only signals `region was cleared` (untrack_region_objects) without clearing the regions: their "
           "local-id indices keep every object and their pending requests are neither resolved nor cancelled")


def run(ctx):
    discover_futures_table(ctx)
    r8(ctx)
    r9(ctx)
    r_audit(ctx)
    r1(ctx)
    r2(ctx)
    r2_kill_blocks(ctx)
    r2_strong_indices(ctx)
    r7(ctx)
    r3(ctx)
    r4(ctx)
    r5(ctx)
    r6(ctx)
    ctx.assume("equality with a reference scene graph over all histories is not decided; aliasing of index "
               "containers through attributes of other objects is not tracked")
