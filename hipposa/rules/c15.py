"""C15 - intercepted HTTP flows are handed back exactly once, state intact (DESIGN.md section 4, C15).

R1 finally-resume in MITMProxyEventManager.pump_proxy_event (CFG must-pass-through incl. exception edges
   raised inside the finally body), pump loop survives a failing event
R2 HippoHTTPFlow typestate (taken/resumed owners, take/resume/preempt guards, queue put ownership)
R3 proxy-side pump (_pump_callbacks) resumes the original flow on every path, survives failures
R4 state-transfer agreement (CapData <-> SerializedCapData, get_state/from_state keys, metadata defaults
   applied absent-only: finite-domain evaluation of HippoHTTPFlow.__init__)
"""
from __future__ import annotations

import ast
from typing import Any, Dict, List, Optional, Set, Tuple

from ..cfg import CFG
from ..consteval import ConstEval, EnumVal, enum_members, is_const
from ..core import (AnalysisError, FuncInfo, ancestors, ap, atoms, call_attr, calls, enclosing_stmt, facts, find_calls,
                    handler_catches_all, handler_reraises, is_none_test, norm, parent, paths_in, src, stores,
                    try_contexts, walk, FUNC_TYPES)
from .common import (call_index, inlined_funcinfo, origin, cfg_node_expr, cfg_node_fallible, cfg_search, class_methods_reachable, is_benign_call,
                     store_index)

EVM = "hippolyzer/lib/proxy/http_event_manager.py"
FLOW = "hippolyzer/lib/proxy/http_flow.py"
PROXY = "hippolyzer/lib/proxy/http_proxy.py"
CAPS = "hippolyzer/lib/proxy/caps.py"


# --------------------------------------------------------------------------- helpers

def _is_true(n):
    return isinstance(n, ast.Constant) and n.value is True


def _fallible(cfg):
    return lambda n: cfg_node_fallible(cfg, n)


def _final_try_of(node, stop) -> Optional[ast.Try]:
    for tc in try_contexts(node, stop):
        if tc.section == "final":
            return tc.node
    return None


def _outermost_in(block: List[ast.stmt], node) -> Optional[ast.stmt]:
    chain = [node] + list(ancestors(node))
    for st in block:
        if any(st is x for x in chain):
            return st
    return None


def _guard_facts(call, try_node: ast.Try) -> Set[Tuple[str, bool]]:
    """Conditions under which `call` runs, relative to the finally body it sits in."""
    out = set()
    for e, pol in facts(call, try_node):
        nt = is_none_test(e)
        if nt is not None:
            # `x is not None` (polarity True) -> x "present"
            path, is_none = nt
            out.add((f"{path} is not None", pol != is_none))
        else:
            out.add((ap(e) or norm(e), pol))
    return out


def _swallowing(node, stop) -> bool:
    for tc in try_contexts(node, stop):
        if tc.section != "body":
            continue
        for h in tc.node.handlers:
            if handler_catches_all(h) and handler_reraises(h) == "never" and \
                    not any(isinstance(x, (ast.Return, ast.Break)) for x in walk(h)):
                return True
    return False


def _contains(n_ast, sub) -> bool:
    return any(x is sub for x in ast.walk(n_ast))


def _handback_checks(ctx, R, fi: FuncInfo, cfg: CFG, resume: ast.Call, want: Set[Tuple[str, bool]], what: str):
    """Shared by R1/R3: `resume` sits in a finally, under exactly the guard `want`, and nothing fallible in
    its guard statement can pre-empt it.  Returns the CFG nodes that stand for 'the hand-back decision'."""
    t = _final_try_of(resume, fi.node)
    ctx.ob(R, f"{fi.qual}: {norm(resume)} sits in a finally", t is not None, ctx.w(fi, resume),
           f"{what} is not in a finally block: any exception in the handling code skips it")
    if t is None:
        return []
    got = _guard_facts(resume, t)
    ctx.ob(R, f"{fi.qual}: {norm(resume)} runs under exactly {sorted(k if p else 'not ' + k for k, p in want)}",
           got == want, ctx.w(fi, resume),
           f"guard in the finally is {sorted(k if p else 'not ' + k for k, p in got)}: a weaker guard hands the flow "
           f"back twice, a stronger one never hands it back")
    h = _outermost_in(t.finalbody, resume)
    hnodes = [n for n in cfg.nodes if n.ast is h]
    rnodes = set(cfg.stmt_nodes_containing(resume))
    inside = {id(x) for x in ast.walk(h)}

    def pre_empts(n):
        e = cfg_node_expr(cfg, n)
        return n.ast is not None and id(n.ast) in inside and n not in rnodes and cfg_node_fallible(cfg, n) \
            and not (e is not None and _contains(e, resume))
    bad = cfg_search(cfg, hnodes, target=pre_empts, avoid=lambda n: n in rnodes, follow_exc=lambda n: False,
                     start_edges="normal")
    # the head node of the guard statement itself
    bad_head = [n for n in hnodes if n not in rnodes and cfg_node_fallible(cfg, n)]
    ctx.ob(R, f"{fi.qual}: nothing fallible between the guard and {norm(resume)}", bad is None and not bad_head,
           ctx.w(fi, resume), "a call that may raise runs inside the hand-back statement before the resume",
           cfg.describe_path(bad) if bad else None)
    return hnodes


def _callees(repo, start: FuncInfo, depth=3) -> List[FuncInfo]:
    """start plus repo functions it (transitively) calls: same-module functions by name, methods via
    self/cls, and Class.method where Class resolves to a repo class."""
    out, frontier = [start], [start]
    for _ in range(depth):
        nxt = []
        for f in frontier:
            for c in calls(f.node, into_defs=True):
                fn = c.func
                cand = None
                if isinstance(fn, ast.Name):
                    cs = [g for g in repo.funcs.get(fn.id, []) if g.cls is None and g.parent_fn is None and
                          (g.module is f.module or f.module.imports.get(fn.id, "").endswith("." + fn.id))]
                    cand = cs[0] if len(cs) == 1 else None
                elif isinstance(fn, ast.Attribute):
                    rp = ap(fn.value)
                    if rp in ("self", "cls") and f.cls is not None:
                        cand = repo.lookup_method(f.cls, fn.attr)
                    elif rp:
                        ci = repo.resolve_class(rp, f.module)
                        if ci is not None:
                            cand = repo.lookup_method(ci, fn.attr)
                if cand is not None and cand not in out:
                    out.append(cand)
                    nxt.append(cand)
        frontier = nxt
    return out


# --------------------------------------------------------------------------- R1

def r1(ctx):
    repo = ctx.repo
    R = "C15.R1"
    ctx.rule(R, "pump_proxy_event: every path from HippoHTTPFlow.from_state to any exit (normal or exceptional, "
                "including exceptions raised inside the finally body) passes the hand-back statement "
                "`if not flow.taken and not flow.resumed: flow.resume()`; run() survives a failing event")
    pe0 = repo.fn("MITMProxyEventManager.pump_proxy_event")
    pe = inlined_funcinfo(repo, pe0, depth=2)     # dispatch / hand-back helpers spliced in where possible
    fns = [pe] + [f for f in class_methods_reachable(repo, pe0, depth=2) if f.cls is not None and f.cls == pe0.cls and f != pe0]
    fs = [c for c in find_calls(pe.node, "from_state") if (ap(c.func) or "").endswith("HippoHTTPFlow.from_state")]
    ctx.require(len(fs) == 1, f"{R}: expected exactly one HippoHTTPFlow.from_state call in pump_proxy_event, found {len(fs)}")
    st = enclosing_stmt(fs[0])
    ctx.require(isinstance(st, (ast.Assign, ast.AnnAssign)), f"{R}: from_state result is not bound to a name")
    flow_var = ap(st.targets[0] if isinstance(st, ast.Assign) else st.target)
    resumes = [(pe, c) for c in find_calls(pe.node, "resume", into_defs=False) if not c.args]
    if not resumes:
        resumes = [(f, c) for f in fns[1:] for c in find_calls(f.node, "resume", into_defs=False) if not c.args]
    ctx.ob(R, "pump_proxy_event path has exactly one hand-back site", len(resumes) == 1, pe.where,
           f"found {[f.qual + ': ' + norm(c) for f, c in resumes]}")
    if len(resumes) != 1:
        return
    g, rc = resumes[0]
    v = ap(rc.func.value)
    pe_cfg = CFG(pe.node)
    starts = pe_cfg.stmt_nodes_containing(fs[0])
    want = {(f"{v}.taken", False), (f"{v}.resumed", False)}
    if g is pe:
        ctx.ob(R, f"{pe.qual}: hand-back acts on the flow built by from_state", v == flow_var, ctx.w(pe, rc),
               f"resumes {v}, from_state result is {flow_var}")
        hnodes = _handback_checks(ctx, R, pe, pe_cfg, rc, want, "the hand-back")
        pnodes = set(hnodes)
    else:
        # try/finally extracted into a helper: pump_proxy_event must reach the helper, the helper must
        # pass its hand-back statement on every path from its entry
        sites = [c for c in find_calls(pe.node, g.name) if isinstance(c.func, ast.Attribute) and ap(c.func.value) == "self"]
        params = [a.arg for a in g.node.args.args][1:]
        ok = len(sites) == 1 and any(ap(a) == flow_var and i < len(params) and params[i] == v
                                     for i, a in enumerate(sites[0].args))
        ctx.ob(R, f"{pe.qual}: hands the from_state flow to {g.qual}", ok, pe.where,
               "the helper that resumes does not receive the flow built by from_state")
        if not ok:
            return
        gcfg = CFG(g.node)
        hnodes = _handback_checks(ctx, R, g, gcfg, rc, want, "the hand-back")
        hset = set(hnodes)
        path = cfg_search(gcfg, [gcfg.entry], target=lambda n: n is gcfg.exit or n is gcfg.raise_exit,
                          avoid=lambda n: n in hset, follow_exc=_fallible(gcfg))
        ctx.ob(R, f"{g.qual}: every path from entry to an exit passes the hand-back statement", path is None and bool(hset),
               g.where, "some path (possibly exceptional) leaves without resuming the flow",
               gcfg.describe_path(path) if path else None)
        pnodes = set(pe_cfg.stmt_nodes_containing(sites[0]))
    path = cfg_search(pe_cfg, starts, target=lambda n: n is pe_cfg.exit or n is pe_cfg.raise_exit,
                      avoid=lambda n: n in pnodes, follow_exc=_fallible(pe_cfg), start_edges="normal")
    ctx.ob(R, f"{pe.qual}: every path from from_state to an exit passes the hand-back statement",
           path is None and bool(pnodes), ctx.w(pe, fs[0]),
           "some path (possibly through an exception, also one raised inside the finally body before the resume) "
           "leaves the function with the flow neither taken nor handed back: it stays intercepted forever",
           pe_cfg.describe_path(path) if path else None)

    # hydration runs before the flow object (and hence the hand-back) exists: it must be total with respect
    # to state that legitimately changes while a request is outstanding (sessions / regions going away)
    hyd = _callees(repo, repo.fn("HippoHTTPFlow.from_state"), depth=3)
    ctx.floor(R, "functions on the hydration path", len(hyd), 2)
    partial = 0
    for f in hyd:
        for c in calls(f.node, into_defs=True):
            if isinstance(c.func, ast.Name) and c.func.id == "next" and not c.keywords and c.args and \
                    isinstance(c.args[0], (ast.GeneratorExp, ast.Call, ast.Name)):
                partial += 1
                ctx.ob(R, f"{f.qual}: search `{norm(c)}` has a default", len(c.args) >= 2, ctx.w(f, c),
                       "next() without a default raises StopIteration when nothing matches (e.g. the session was "
                       "closed meanwhile): from_state fails before the try/finally, the flow is never handed back")
        for x in walk(f.node, into_defs=True):
            if isinstance(x, ast.Subscript) and isinstance(x.ctx, ast.Load) and isinstance(x.value, ast.ListComp) \
                    and x.value.generators and x.value.generators[0].ifs:
                partial += 1
                ctx.ob(R, f"{f.qual}: search `{norm(x)}` cannot come up empty", False, ctx.w(f, x),
                       "indexing a filtered list raises IndexError when nothing matches: from_state fails before the "
                       "try/finally, the flow is never handed back")
    ctx.ob(R, "hydration path (from_state and its helpers) contains no partial search", True,
           repo.fn("HippoHTTPFlow.from_state").where, f"{len(hyd)} functions, {partial} searches")

    # the event loop survives a failing event
    run = repo.fn("MITMProxyEventManager.run")
    pumps = [c for c in find_calls(run.node, "pump_proxy_event")]
    ctx.floor(R, "pump_proxy_event calls in run()", len(pumps), 1)
    for c in pumps:
        in_loop = any(isinstance(a, (ast.While, ast.For)) for a in ancestors(c))
        ctx.ob(R, f"{run.qual}: {norm(c)} isolated inside the loop", in_loop and _swallowing(c, run.node), ctx.w(run, c),
               "one failing event would end the pump: no later flow is ever handed back")


# --------------------------------------------------------------------------- R2

FLOW_OWNERS = {"HippoHTTPFlow.__init__", "HippoHTTPFlow.take", "HippoHTTPFlow.resume"}
PUT_OWNERS = {"HippoHTTPFlow.resume", "HippoHTTPFlow.preempt"}


def _owned(repo, f: FuncInfo, owners: Set[str], depth=2) -> bool:
    """f is an owner, or a private helper method of an owner's class all of whose call sites
    (`self.<name>(...)`, by name over the whole tree) lie in owners / such helpers."""
    if f.qual in owners:
        return True
    if depth <= 0 or f.cls is None or not any(o.startswith(f.cls.name + ".") for o in owners):
        return False
    sites = call_index(repo).get(f.name, [])
    return bool(sites) and all(
        isinstance(c.func, ast.Attribute) and ap(c.func.value) in ("self", "cls") and g.cls is not None
        and g.cls == f.cls and _owned(repo, g, owners, depth - 1) for g, c in sites)


class _Ownership:
    """The two ownership facts of a flow (taken, resumed) in whichever representation the class uses: two bool
    attributes, or one enum.Flag slot with `taken` / `resumed` read through properties `MEMBER in self.<slot>`."""

    def __init__(self, repo, fc):
        self.repo, self.fc = repo, fc
        self.ev = ConstEval(repo, fc.module)
        self.slots: Set[str] = set()
        self.bits: Dict[str, Tuple[str, int]] = {}      # fact -> (slot, bit)
        for fact in ("taken", "resumed"):
            g = fc.methods.get(fact)
            if g is None or not any((ap(d) or "") == "property" for d in g.node.decorator_list):
                continue
            for r in [x for x in walk(g.node) if isinstance(x, ast.Return) and isinstance(x.value, ast.Compare)]:
                c = r.value
                if len(c.ops) == 1 and isinstance(c.ops[0], ast.In) and (ap(c.comparators[0]) or "").startswith("self."):
                    v = self.ev.ev(c.left)
                    if isinstance(v, EnumVal) and isinstance(v.value, int):
                        slot = ap(c.comparators[0]).split(".", 1)[1]
                        self.slots.add(slot)
                        self.bits[fact] = (slot, v.value)

    def _mask(self, node) -> Optional[int]:
        v = self.ev.ev(node)
        if isinstance(v, EnumVal) and isinstance(v.value, int):
            return v.value
        return v if isinstance(v, int) and not isinstance(v, bool) else None

    def _decode(self, slot, value: int) -> Dict[str, bool]:
        return {f: bool(value & bit) for f, (s_, bit) in self.bits.items() if s_ == slot}

    def effect(self, st) -> Dict[str, bool]:
        """What a statement stores into the ownership facts of `self`."""
        out: Dict[str, bool] = {}
        if isinstance(st, ast.Assign) and len(st.targets) == 1:
            p_ = ap(st.targets[0]) or ""
            if p_ in ("self.taken", "self.resumed") and isinstance(st.value, ast.Constant) and isinstance(st.value.value, bool):
                out[p_.split(".")[1]] = st.value.value
            elif p_.startswith("self.") and p_.split(".", 1)[1] in self.slots:
                m = self._mask(st.value)
                if m is not None:
                    out.update(self._decode(p_.split(".", 1)[1], m))
        elif isinstance(st, ast.AugAssign):
            p_ = ap(st.target) or ""
            if p_.startswith("self.") and p_.split(".", 1)[1] in self.slots:
                slot = p_.split(".", 1)[1]
                if isinstance(st.op, ast.BitOr):
                    m = self._mask(st.value)
                    if m is not None:
                        out.update({f: True for f, v in self._decode(slot, m).items() if v})
                elif isinstance(st.op, ast.BitAnd) and isinstance(st.value, ast.UnaryOp) and isinstance(st.value.op, ast.Invert):
                    m = self._mask(st.value.operand)
                    if m is not None:
                        out.update({f: False for f, v in self._decode(slot, m).items() if v})
        return out

    def facts(self, node, fn) -> Dict[str, bool]:
        """Ownership facts that dominate `node`."""
        out: Dict[str, bool] = {}
        for e, pol in facts(node, fn):
            p_ = ap(e)
            if p_ in ("self.taken", "self.resumed"):
                out[p_.split(".")[1]] = pol
            elif isinstance(e, ast.Compare) and len(e.ops) == 1:
                l, r, op = e.left, e.comparators[0], e.ops[0]
                if isinstance(op, (ast.Eq, ast.NotEq, ast.Is, ast.IsNot)):
                    for a, b in ((l, r), (r, l)):
                        pa = ap(a) or ""
                        if pa.startswith("self.") and pa.split(".", 1)[1] in self.slots:
                            m = self._mask(b)
                            if m is not None and (isinstance(op, (ast.Eq, ast.Is)) == pol):
                                out.update(self._decode(pa.split(".", 1)[1], m))
                elif isinstance(op, (ast.In, ast.NotIn)):
                    pr = ap(r) or ""
                    if pr.startswith("self.") and pr.split(".", 1)[1] in self.slots:
                        m = self._mask(l)
                        if m is not None:
                            present = isinstance(op, ast.In) == pol
                            out.update({f: present for f, v in self._decode(pr.split(".", 1)[1], m).items() if v})
        return out


def _queue_puts(node) -> List[ast.Call]:
    out = []
    for c in calls(node, into_defs=True):
        if call_attr(c) in ("put", "put_nowait") and isinstance(c.func, ast.Attribute):
            rp = ap(c.func.value) or ""
            if "callback_queue" in rp or "to_proxy_queue" in rp:
                out.append(c)
    return out


def r2(ctx):
    repo = ctx.repo
    R = "C15.R2"
    ctx.rule(R, "HippoHTTPFlow typestate: taken/resumed written only by __init__/take/resume; take requires "
                "not taken and not resumed and sets taken; resume requires not resumed, marks resumed and "
                "enqueues exactly one callback; preempt requires resumed and not taken; only resume/preempt "
                "put on the proxy queue")
    fc = repo.cls("HippoHTTPFlow", FLOW)
    family = {c.qual for c in repo.subclasses(fc)}
    own = _Ownership(repo, fc)
    n = 0
    owners = set(FLOW_OWNERS) | {f"{fc.name}.{a}.setter" for a in ("taken", "resumed")}
    for attr in sorted({"taken", "resumed"} | own.slots):
        for f, st in store_index(repo).get(attr, []):
            if st.kind not in ("assign", "augassign", "del"):
                continue
            base = st.path.rsplit(".", 1)[0]
            if base in ("self", "cls") and (f.cls is None or f.cls.qual not in family):
                continue
            n += 1
            ctx.ob(R, f"{f.qual}: {st.path} written by an owner", _owned(repo, f, owners), ctx.w(f, st.node),
                   f"flow ownership flag written outside {sorted(FLOW_OWNERS)}")
    ctx.floor(R, "taken/resumed stores", n, 3)

    def store_nodes(cfg, attr, val):
        return {x for x in cfg.nodes if x.kind == "stmt" and x.ast is not None and own.effect(x.ast).get(attr) is val}

    def _self_fact(node, fn, attr, polarity):
        return own.facts(node, fn).get(attr) is polarity

    take = inlined_funcinfo(repo, repo.fn("HippoHTTPFlow.take"))
    cfg = CFG(take.node)
    sn = store_nodes(cfg, "taken", True)
    path = cfg_search(cfg, [cfg.entry], target=lambda x: x is cfg.exit, avoid=lambda x: x in sn, follow_exc=lambda x: False)
    ctx.ob(R, "HippoHTTPFlow.take: every normal path sets self.taken = True", bool(sn) and path is None, take.where,
           "a taken flow that is not marked taken is resumed by pump_proxy_event as well as by the taker")
    for x in sn:
        ctx.ob(R, "HippoHTTPFlow.take: requires not taken and not resumed",
               _self_fact(x.ast, take.node, "taken", False) and _self_fact(x.ast, take.node, "resumed", False),
               ctx.w(take, x.ast), "taking a flow twice / after hand-back leads to a second hand-back")

    res = inlined_funcinfo(repo, repo.fn("HippoHTTPFlow.resume"))
    cfg = CFG(res.node)
    puts = _queue_puts(res.node)
    ctx.ob(R, "HippoHTTPFlow.resume: exactly one queue put", len(puts) == 1, res.where, f"found {len(puts)}")
    sn = store_nodes(cfg, "resumed", True)
    path = cfg_search(cfg, [cfg.entry], target=lambda x: x is cfg.exit, avoid=lambda x: x in sn, follow_exc=lambda x: False)
    ctx.ob(R, "HippoHTTPFlow.resume: every normal path sets self.resumed = True", bool(sn) and path is None, res.where,
           "a resumed flow not marked resumed is handed back again by the finally in pump_proxy_event")
    for c in puts:
        pn = set(cfg.stmt_nodes_containing(c))
        path = cfg_search(cfg, [cfg.entry], target=lambda x: x is cfg.exit, avoid=lambda x: x in pn, follow_exc=lambda x: False)
        ctx.ob(R, "HippoHTTPFlow.resume: every normal path enqueues the callback", path is None, ctx.w(res, c))
        ctx.ob(R, "HippoHTTPFlow.resume: put not inside a loop",
               not any(isinstance(a, (ast.For, ast.While)) for a in ancestors(c)), ctx.w(res, c))
        ctx.ob(R, "HippoHTTPFlow.resume: requires not resumed", _self_fact(c, res.node, "resumed", False), ctx.w(res, c),
               "a second resume() would enqueue a second callback for the same flow")
        _check_payload(ctx, R, res, c, "callback")
        before = cfg_search(cfg, [cfg.entry], target=lambda x: x in pn, avoid=lambda x: x in sn, follow_exc=lambda x: False)
        if before is not None:
            ctx.note("C15.R2: HippoHTTPFlow.resume enqueues before marking resumed (design lists the opposite order; "
                     "not a necessary condition in a synchronous method)")

    pre = inlined_funcinfo(repo, repo.fn("HippoHTTPFlow.preempt"))
    puts = _queue_puts(pre.node)
    ctx.ob(R, "HippoHTTPFlow.preempt: exactly one queue put", len(puts) == 1, pre.where, f"found {len(puts)}")
    for c in puts:
        ctx.ob(R, "HippoHTTPFlow.preempt: requires resumed and not taken",
               _self_fact(c, pre.node, "resumed", True) and _self_fact(c, pre.node, "taken", False), ctx.w(pre, c),
               "pre-empting a flow that is still owned here makes the proxy side resume it twice")
        _check_payload(ctx, R, pre, c, "preempt")

    nput = 0
    idx = call_index(repo)
    for name in ("put", "put_nowait"):
        for f, c in idx.get(name, []):
            if c in _queue_puts(c):
                nput += 1
                ctx.ob(R, f"{f.qual}: {norm(c.func)}(...) by resume/preempt", _owned(repo, f, PUT_OWNERS), ctx.w(f, c),
                       "callback queue written outside HippoHTTPFlow.resume/preempt: a flow can be handed back "
                       "without the resumed flag being consulted")
    ctx.floor(R, "proxy-queue puts", nput, 1)


def _pump_fns(repo) -> List[FuncInfo]:
    pc = repo.fn("IPCInterceptionAddon._pump_callbacks")
    return [f for f in class_methods_reachable(repo, pc, depth=3) if f.cls is not None and f.cls == pc.cls]


def _proxy_side_tags(repo) -> Set[str]:
    """String constants the proxy-side pump (and the helpers it calls) dispatches the dequeued event
    type on: `== "x"`, `in ("x", ...)`, keys of a dispatch dict literal."""
    out = set()
    for f in _pump_fns(repo):
        for x in walk(f.node, into_defs=True):
            if isinstance(x, ast.Compare) and len(x.ops) == 1 and isinstance(x.ops[0], (ast.Eq, ast.In)):
                for side in (x.left, x.comparators[0]):
                    for k in ([side] if not isinstance(side, (ast.Tuple, ast.List, ast.Set)) else side.elts):
                        if isinstance(k, ast.Constant) and isinstance(k.value, str):
                            out.add(k.value)
            elif isinstance(x, ast.Dict):
                for k in x.keys:
                    if isinstance(k, ast.Constant) and isinstance(k.value, str):
                        out.add(k.value)
    return out


def _check_payload(ctx, R, f, c, tag):
    a = c.args[0] if c.args else None
    sent = a.elts[0].value if isinstance(a, ast.Tuple) and a.elts and isinstance(a.elts[0], ast.Constant) else None
    ctx.ob(R, f"{f.qual}: event tag is one _pump_callbacks dispatches on", sent in _proxy_side_tags(ctx.repo), ctx.w(f, c),
           f"tag {sent!r} is not handled on the proxy side (ValueError there: the flow is never resumed)")
    ok = isinstance(a, ast.Tuple) and len(a.elts) == 3 and isinstance(a.elts[0], ast.Constant) and a.elts[0].value == tag \
        and (ap(a.elts[1]) or "").endswith("flow.id") and isinstance(a.elts[2], ast.Call) \
        and ap(a.elts[2].func) == "self.get_state"
    ctx.ob(R, f"{f.qual}: payload is ({tag!r}, flow id, self.get_state())", ok, ctx.w(f, c),
           f"payload {norm(a) if a is not None else None}: the proxy side unpacks (event_type, flow_id, flow_state)")


# --------------------------------------------------------------------------- R3

def _registry_attrs(repo, cls) -> Set[str]:
    """self.<attr> containers in which the interception addon registers intercepted flows
    (`self.<attr>[flow.id] = flow` next to `flow.intercept()`)."""
    out = set()
    for m in cls.methods.values():
        if not find_calls(m.node, "intercept", into_defs=False):
            continue
        for st in stores(m.node, into_defs=False):
            if st.kind == "setitem" and st.path.startswith("self.") and st.path.count(".") == 1:
                out.add(st.path)
    return out


def _deferred_resume_target(arg) -> Optional[str]:
    """`lambda: X.resume()` or the bound method `X.resume` -> X."""
    if isinstance(arg, ast.Lambda) and not arg.args.args and isinstance(arg.body, ast.Call) and not arg.body.args \
            and not arg.body.keywords and isinstance(arg.body.func, ast.Attribute) and arg.body.func.attr == "resume":
        return ap(arg.body.func.value)
    if isinstance(arg, ast.Attribute) and arg.attr == "resume":
        return ap(arg.value)
    return None


def _exitstack_mode(ctx, R, repo, pc: FuncInfo, fns: List[FuncInfo]) -> bool:
    """The hand-back is registered on a contextlib.ExitStack (`with ExitStack() as S: ... S.callback(lambda:
    X.resume())`): a registered callback runs on every exit of the with-block, so the obligations become
    'the registration (guarded by nothing but the presence of X) is reached after every look-up before anything
    can fail, inside the with-block'.  Returns False when the function does not have that shape."""
    regs = []
    for f in fns:
        for c in calls(f.node, into_defs=False):
            if call_attr(c) == "callback" and isinstance(c.func, ast.Attribute) and c.args and len(c.args) == 1 \
                    and not c.keywords and _deferred_resume_target(c.args[0]):
                regs.append((f, c, ap(c.func.value), _deferred_resume_target(c.args[0])))
    if not regs:
        return False
    ctx.ob(R, f"{pc.qual}: deferred resume registrations found", True, pc.where,
           f"{[f.qual + ': ' + norm(c) for f, c, _, _ in regs]}")
    # the stack: `with <...>ExitStack() as S` in the function that holds the look-ups
    holder = None
    for f in fns:
        for w in [x for x in walk(f.node) if isinstance(x, (ast.With, ast.AsyncWith))]:
            for it in w.items:
                if isinstance(it.context_expr, ast.Call) and (ap(it.context_expr.func) or "").split(".")[-1] == "ExitStack" \
                        and not it.context_expr.args and isinstance(it.optional_vars, ast.Name):
                    holder = (f, w, it.optional_vars.id)
    ctx.ob(R, f"{pc.qual}: deferred resume is registered on a `with ExitStack() as ...` block", holder is not None, pc.where,
           "the callback container is not an ExitStack entered with `with`: nothing guarantees the callback runs")
    if holder is None:
        return True
    hf, w, sname = holder
    cfg = CFG(hf.node)
    site_var: Dict[int, str] = {}
    reg_nodes = set()
    for g, rc, stack_name, v in regs:
        want = {(f"{v} is not None", True)}
        got = _guard_facts(rc, g.node)
        if g is hf:
            # relative to the look-up's own block: only presence tests of the flow count
            got = {k for k in got if k[0].startswith(v)}
        if got == {(v, True)}:
            want = got
        ctx.ob(R, f"{g.qual}: {norm(rc)} runs under exactly {sorted(k if p_ else 'not ' + k for k, p_ in want)}", got == want,
               ctx.w(g, rc), f"registration guarded by {sorted(k if p_ else 'not ' + k for k, p_ in got)}")
        if g is hf:
            ctx.ob(R, f"{g.qual}: {norm(rc)} registers on the with-block's stack", stack_name == sname, ctx.w(g, rc))
            for n in cfg.stmt_nodes_containing(rc):
                # the presence test that guards the registration stands for it (it is passed when there is no flow)
                reg_nodes.add(n)
                site_var[id(n)] = v
            for a in ancestors(rc):
                if isinstance(a, ast.If) and {ap(e) or (is_none_test(e) or [None])[0] for e, _ in atoms(a.test, True)} == {v}:
                    for n in cfg.nodes:
                        if n.ast is a:
                            reg_nodes.add(n)
                            site_var[id(n)] = v
        else:
            params = [a.arg for a in g.node.args.args]
            if g.cls is not None and not any((ap(d) or "") == "staticmethod" for d in g.node.decorator_list):
                params = params[1:]
            pre = [n for n in walk(g.node) if isinstance(n, ast.Call) and n is not rc and not is_benign_call(n)
                   and not any(n is x for x in ast.walk(rc))]
            ctx.ob(R, f"{g.qual}: nothing fallible besides the registration", not pre, g.where,
                   f"{[norm(x) for x in pre]} may raise before the resume is registered")
            sites = [c for c in find_calls(hf.node, g.name, into_defs=False)
                     if isinstance(c.func, ast.Attribute) and ap(c.func.value) in ("self", "cls")]
            ok_sites = []
            for c in sites:
                bound = dict(zip(params, [ap(a) for a in c.args]))
                if bound.get(stack_name) == sname and bound.get(v):
                    ok_sites.append((c, bound[v]))
            ctx.ob(R, f"{hf.qual}: every {g.name}(...) call passes the with-block's stack and a flow", bool(sites) and
                   len(ok_sites) == len(sites), hf.where)
            for c, fv in ok_sites:
                for n in cfg.stmt_nodes_containing(c):
                    reg_nodes.add(n)
                    site_var[id(n)] = fv
    inside = {id(x) for x in ast.walk(w)}
    loops = [a for a in ancestors(w) if isinstance(a, (ast.While, ast.For))]
    ctx.ob(R, f"{hf.qual}: the ExitStack block is one iteration of the pump loop", bool(loops), ctx.w(hf, w))
    heads = {n for n in cfg.nodes_for(loops[0]) if n.kind == "loop"} if loops else set()
    regs_attr = _registry_attrs(repo, hf.cls)
    ctx.require(bool(regs_attr), f"{R}: flow registry attribute of {hf.cls.name} not found")

    def is_lookup(e):
        return e is not None and any(
            (isinstance(x, ast.Subscript) and ap(x.value) in regs_attr) or
            (isinstance(x, ast.Call) and isinstance(x.func, ast.Attribute) and x.func.attr in ("get", "pop")
             and ap(x.func.value) in regs_attr) for x in ast.walk(e))
    lookups = [s_ for s_ in stores(hf.node, into_defs=False) if s_.kind == "assign" and isinstance(s_.target, ast.Name)
               and is_lookup(s_.value)]
    ctx.floor(R, "flow look-ups in the pump", len(lookups), 1)
    for s_ in lookups:
        starts = [n for n in cfg.nodes if n.ast is s_.node]
        mine = {n for n in reg_nodes if site_var.get(id(n)) == s_.path}
        path = cfg_search(cfg, starts, target=lambda n: cfg_node_fallible(cfg, n) or n in heads or n is cfg.exit or n is cfg.raise_exit,
                          avoid=lambda n: n in mine, follow_exc=lambda n: False, start_edges="normal")
        ctx.ob(R, f"{hf.qual}: flow looked up by `{norm(s_.node)}` is registered for resume before anything can fail",
               path is None and bool(mine) and id(s_.node) in inside, ctx.w(hf, s_.node),
               "a call that may raise runs (or the iteration ends) before the resume callback is registered / outside the "
               "ExitStack block: the intercepted flow stays paused", cfg.describe_path(path) if path else None)
    fall = [c for c in find_calls(hf.node, "set_state", into_defs=False)]
    ctx.floor(R, "set_state calls", len(fall), 2)
    for c in fall:
        ctx.ob(R, f"{hf.qual}: {norm(c)} failure does not end the pump", _swallowing(c, hf.node), ctx.w(hf, c),
               "an exception would end the _pump_callbacks task: no later flow is resumed")
    return True


def r3(ctx):
    repo = ctx.repo
    R = "C15.R3"
    ctx.rule(R, "_pump_callbacks (and the per-event helper it may call): once the original flow is looked up it is "
                "bound to the variable the finally tests before anything can fail, and every path to the next "
                "iteration / exit passes `if orig_flow is not None: orig_flow.resume()` in a finally (set_state "
                "failure included); a failing callback does not end the pump")
    pc = repo.fn("IPCInterceptionAddon._pump_callbacks")
    fns = _pump_fns(repo)
    resumes = [(f, c) for f in fns for c in find_calls(f.node, "resume", into_defs=False) if not c.args]
    if not resumes and _exitstack_mode(ctx, R, repo, pc, fns):
        return
    ctx.ob(R, f"{pc.qual}: exactly one resume site", len(resumes) == 1, pc.where,
           f"found {[f.qual + ': ' + norm(c) for f, c in resumes]}")
    if len(resumes) != 1:
        return
    g, rc = resumes[0]
    v = ap(rc.func.value)
    cfg = CFG(g.node)
    got_truthy = {(v, True)}
    t = _final_try_of(rc, g.node)
    want = {(f"{v} is not None", True)}
    if t is not None and _guard_facts(rc, t) == got_truthy:
        want = got_truthy     # `if orig_flow:` is equivalent for flow objects
    hnodes = set(_handback_checks(ctx, R, g, cfg, rc, want, "the resume of the original flow"))
    loops = [a for a in ancestors(rc) if isinstance(a, (ast.While, ast.For))]
    heads = {n for n in cfg.nodes_for(loops[0]) if n.kind == "loop"} if loops else set()
    if g is pc:
        ctx.require(bool(loops), f"{R}: resume is not inside the pump loop")
    else:
        # per-event helper: it must be driven from a loop in _pump_callbacks (possibly awaited)
        sites = [(f, c) for f in fns for c in find_calls(f.node, g.name, into_defs=False)
                 if isinstance(c.func, ast.Attribute) and ap(c.func.value) == "self"]
        ctx.ob(R, f"{pc.qual}: drives {g.qual} from its loop", bool(sites) and all(
            any(isinstance(a, (ast.While, ast.For)) for a in ancestors(c)) for _, c in sites), pc.where)

    # look-ups of the intercepted flow and the binding of the guard variable
    regs = _registry_attrs(repo, g.cls)
    ctx.require(bool(regs), f"{R}: flow registry attribute of {g.cls.name} not found")

    def is_lookup(e, depth=1):
        if e is None:
            return False
        for x in ast.walk(e):
            if (isinstance(x, ast.Subscript) and ap(x.value) in regs) or \
                    (isinstance(x, ast.Call) and isinstance(x.func, ast.Attribute) and x.func.attr in ("get", "pop")
                     and ap(x.func.value) in regs):
                return True
            # a helper of the class that returns the looked-up flow (`orig_flow = self._find_held_flow(..)`)
            if depth > 0 and isinstance(x, ast.Call) and isinstance(x.func, ast.Attribute) and ap(x.func.value) in ("self", "cls"):
                hm = repo.lookup_method(g.cls, x.func.attr)
                if hm is not None and any(isinstance(r_, ast.Return) and is_lookup(r_.value, depth - 1) for r_ in walk(hm.node)):
                    return True
        return False
    lookups = [s for s in stores(g.node, into_defs=False) if s.kind == "assign" and isinstance(s.target, ast.Name)
               and is_lookup(s.value)]
    ctx.floor(R, "flow look-ups in the pump", len(lookups), 1)
    binds = [s for s in stores(g.node, into_defs=False) if s.path == v and s.kind == "assign" and s.value is not None
             and not (isinstance(s.value, ast.Constant) and s.value.value is None)]
    bind_nodes = {n for n in cfg.nodes for s in binds if n.ast is s.node}
    for s in lookups:
        starts = [n for n in cfg.nodes if n.ast is s.node]
        if s.path != v:
            # looked up into another name: the guard variable must be bound before anything fallible runs
            bn = {n for n in bind_nodes if ap(n.ast.value) == s.path}
            path = cfg_search(cfg, starts, target=lambda n: cfg_node_fallible(cfg, n),
                              avoid=lambda n: n in bn or n in hnodes, follow_exc=lambda n: False, start_edges="normal")
            ctx.ob(R, f"{g.qual}: flow looked up by `{norm(s.node)}` is bound to {v} before anything can fail",
                   path is None and bool(bn), ctx.w(g, s.node),
                   f"a call that may raise runs on the looked-up flow while {v} is still unset: the finally skips the "
                   f"resume and the intercepted flow stays paused", cfg.describe_path(path) if path else None)
    ctx.floor(R, f"bindings of {v}", len(binds), 1)
    for s in binds:
        starts = [n for n in cfg.nodes if n.ast is s.node]
        path = cfg_search(cfg, starts, target=lambda n: n in heads or n is cfg.exit or n is cfg.raise_exit,
                          avoid=lambda n: n in hnodes, follow_exc=_fallible(cfg), start_edges="normal")
        ctx.ob(R, f"{g.qual}: after `{norm(s.node)}` every path passes the resume statement",
               path is None and bool(hnodes), ctx.w(g, s.node),
               "the intercepted flow is left paused in mitmproxy (viewer request hangs)",
               cfg.describe_path(path) if path else None)
    fall = [(f, c) for f in fns for c in find_calls(f.node, "set_state", into_defs=False)]
    ctx.floor(R, "set_state calls", len(fall), 2)
    for f_, c in fall:
        ok = _swallowing(c, f_.node)
        if not ok and f_ is not g:
            # applied in a helper: every call of that helper in the function holding the try must be contained
            hsites = [sc for sc in find_calls(g.node, f_.name, into_defs=False)
                      if isinstance(sc.func, ast.Attribute) and ap(sc.func.value) in ("self", "cls")]
            ok = bool(hsites) and all(_swallowing(sc, g.node) for sc in hsites)
        if not ok and g is not pc:
            ok = all(_swallowing(sc, f.node) for f, sc in sites) and bool(sites)
        ctx.ob(R, f"{f_.qual}: {norm(c)} failure does not end the pump", ok, ctx.w(f_, c),
               "an exception would end the _pump_callbacks task: no later flow is resumed")


# --------------------------------------------------------------------------- R4

def _class_fields(ci) -> List[str]:
    return [st.target.id for st in ci.node.body if isinstance(st, ast.AnnAssign) and isinstance(st.target, ast.Name)]


def _ctor_args(call: ast.Call, fields: List[str]) -> Dict[str, ast.AST]:
    out = {}
    for i, a in enumerate(call.args):
        if isinstance(a, ast.Starred):
            raise AnalysisError(f"C15.R4: starred construction {src(call)} not supported")
        if i < len(fields):
            out[fields[i]] = a
    for k in call.keywords:
        if k.arg is None:
            raise AnalysisError(f"C15.R4: **kwargs construction {src(call)} not supported")
        out[k.arg] = k.value
    return out


def _is_meta(node, aliases: Set[str]) -> bool:
    p = ap(node)
    return p is not None and (p in aliases or p.endswith(".metadata"))


class _Opaque:
    def __init__(self, tag, truthy=None):
        self.tag = tag
        self.truthy = truthy     # assumed truthiness of a transferred object (None: unknown)

    def __repr__(self):
        return f"<{self.tag}>"


_ABSENT = _Opaque("absent")


class _Unsupported(Exception):
    pass


class _MetaInterp:
    """Finite-domain evaluation of the metadata default application in HippoHTTPFlow.__init__."""

    def __init__(self, repo, fi: FuncInfo):
        self.repo, self.fi = repo, fi
        self.ev = ConstEval(repo, fi.module)
        self.aliases: Set[str] = set()
        for st in stores(fi.node, into_defs=False):
            if st.kind == "assign" and st.value is not None and isinstance(st.target, ast.Name) and \
                    (ap(st.value) or "").endswith(".metadata"):
                self.aliases.add(st.path)
        self.keys_seen: Set[Any] = set()

    def mentions_meta(self, node) -> bool:
        return any(_is_meta(x, self.aliases) for x in ast.walk(node) if isinstance(x, (ast.Name, ast.Attribute)))

    def key(self, node, env):
        k = self.ev.ev(node, env)
        if not is_const(k):
            raise _Unsupported(f"metadata key `{src(node)}` is not constant")
        self.keys_seen.add(k)
        return k

    def truth(self, v):
        if isinstance(v, _Opaque):
            if v.truthy is None:
                raise _Unsupported(f"truthiness of {v!r} is not known")
            return v.truthy
        return bool(v)

    def val(self, n, state, env):
        if isinstance(n, ast.Constant):
            return n.value
        if isinstance(n, ast.Name) and n.id in env:
            return env[n.id]
        if isinstance(n, ast.Call) and isinstance(n.func, ast.Attribute) and _is_meta(n.func.value, self.aliases):
            if n.func.attr == "get" and 1 <= len(n.args) <= 2 and not n.keywords:
                k = self.key(n.args[0], env)
                if k in state:
                    return state[k]
                return self.val(n.args[1], state, env) if len(n.args) == 2 else None
            raise _Unsupported(f"metadata call `{src(n)}`")
        if isinstance(n, ast.Subscript) and _is_meta(n.value, self.aliases):
            k = self.key(n.slice, env)
            if k not in state:
                raise _Unsupported(f"`{src(n)}` read before a default exists")
            return state[k]
        if isinstance(n, ast.Compare) and len(n.ops) == 1 and isinstance(n.ops[0], (ast.In, ast.NotIn)) and \
                _is_meta(n.comparators[0], self.aliases):
            r = self.key(n.left, env) in state
            return r if isinstance(n.ops[0], ast.In) else not r
        if isinstance(n, ast.Compare) and len(n.ops) == 1 and isinstance(n.ops[0], (ast.Is, ast.IsNot)) and \
                isinstance(n.comparators[0], ast.Constant) and n.comparators[0].value is None:
            r = self.val(n.left, state, env) is None
            return r if isinstance(n.ops[0], ast.Is) else not r
        if isinstance(n, ast.BoolOp):
            last = None
            for x in n.values:
                last = self.val(x, state, env)
                t = self.truth(last)
                if isinstance(n.op, ast.Or) and t:
                    return last
                if isinstance(n.op, ast.And) and not t:
                    return last
            return last
        if isinstance(n, ast.UnaryOp) and isinstance(n.op, ast.Not):
            return not self.truth(self.val(n.operand, state, env))
        if isinstance(n, ast.IfExp):
            return self.val(n.body if self.truth(self.val(n.test, state, env)) else n.orelse, state, env)
        if self.mentions_meta(n):
            raise _Unsupported(f"expression `{src(n)}` over the metadata dict")
        v = self.ev.ev(n, env)
        return v if is_const(v) else _Opaque(norm(n))

    def run(self, stmts, state, env):
        for st in stmts:
            if isinstance(st, (ast.Assign, ast.AnnAssign)):
                tgts = st.targets if isinstance(st, ast.Assign) else [st.target]
                if st.value is None:
                    continue
                if len(tgts) == 1 and isinstance(tgts[0], ast.Subscript) and _is_meta(tgts[0].value, self.aliases):
                    state[self.key(tgts[0].slice, env)] = self.val(st.value, state, env)
                    continue
                if len(tgts) == 1 and isinstance(tgts[0], ast.Name) and tgts[0].id in self.aliases:
                    continue
                if any(self.mentions_meta(t) for t in tgts) or self.mentions_meta(st.value):
                    if len(tgts) == 1 and isinstance(tgts[0], ast.Name):
                        env[tgts[0].id] = self.val(st.value, state, env)
                        continue
                    raise _Unsupported(f"statement `{norm(st)}`")
                continue
            if isinstance(st, ast.Expr):
                c = st.value
                if isinstance(c, ast.Call) and isinstance(c.func, ast.Attribute) and _is_meta(c.func.value, self.aliases):
                    if c.func.attr == "setdefault" and len(c.args) == 2 and not c.keywords:
                        k = self.key(c.args[0], env)
                        if k not in state:
                            state[k] = self.val(c.args[1], state, env)
                        continue
                    if c.func.attr == "update" and len(c.args) == 1 and isinstance(c.args[0], ast.Dict) and not c.keywords:
                        for kn, vn in zip(c.args[0].keys, c.args[0].values):
                            if kn is None:
                                raise _Unsupported(f"statement `{norm(st)}`")
                            state[self.key(kn, env)] = self.val(vn, state, env)
                        continue
                    raise _Unsupported(f"statement `{norm(st)}`")
                if self.mentions_meta(st):
                    raise _Unsupported(f"statement `{norm(st)}`")
                continue
            if isinstance(st, ast.If):
                if not self.mentions_meta(st):
                    continue
                self.run(st.body if self.truth(self.val(st.test, state, env)) else st.orelse, state, env)
                continue
            if isinstance(st, ast.For):
                if not self.mentions_meta(st):
                    continue
                it = st.iter
                items = False
                if isinstance(it, ast.Call) and isinstance(it.func, ast.Attribute) and it.func.attr == "items" and not it.args:
                    it, items = it.func.value, True
                table = self.ev.ev(it, env)
                if not is_const(table) or not isinstance(table, (dict, tuple, list, frozenset)):
                    raise _Unsupported(f"loop over non-constant `{src(st.iter)}`")
                seq = list(table.items()) if items and isinstance(table, dict) else list(table)
                names = [ap(e) for e in st.target.elts] if isinstance(st.target, ast.Tuple) else [ap(st.target)]
                for elem in seq:
                    env2 = dict(env)
                    vals = list(elem) if len(names) > 1 else [elem]
                    if len(vals) != len(names) or any(nm is None for nm in names):
                        raise _Unsupported(f"loop target `{src(st.target)}`")
                    env2.update(dict(zip(names, vals)))
                    self.run(st.body, state, env2)
                continue
            if isinstance(st, ast.Pass):
                continue
            if self.mentions_meta(st):
                raise _Unsupported(f"statement `{norm(st)}`")


def _presence_by_truthiness(ctx, R, repo, cd, ser, des, callable_fields):
    """serialize/deserialize decide 'is there a region / session' by truthiness of the object itself: sound only
    while the classes of those objects do not define __bool__ / __len__."""
    for st in cd.node.body:
        if not (isinstance(st, ast.AnnAssign) and isinstance(st.target, ast.Name) and st.target.id in callable_fields):
            continue
        field = st.target.id
        tested = False
        # serialize: `self.<field>()` used as a condition
        for g in class_methods_reachable(repo, ser, depth=2):
            for x in walk(g.node, into_defs=True):
                tests = []
                if isinstance(x, (ast.IfExp, ast.If, ast.While)):
                    tests = [x.test]
                elif isinstance(x, ast.BoolOp):
                    tests = x.values[:-1] if not isinstance(parent(x), (ast.If, ast.IfExp, ast.While, ast.BoolOp, ast.UnaryOp)) else x.values
                for t in tests:
                    for e, _ in atoms(t, True):
                        if isinstance(e, ast.Call) and ap(e.func) == f"self.{field}" and not e.args:
                            tested = True
        # deserialize: the constructor argument of the field is chosen by truthiness of a local
        for c in [r.value for r in walk(des.node) if isinstance(r, ast.Return) and isinstance(r.value, ast.Call)]:
            a = _ctor_args(c, _class_fields(cd)).get(field)
            if isinstance(a, ast.IfExp) and any(isinstance(e, ast.Name) for e, _ in atoms(a.test, True)):
                tested = True
        if not tested:
            continue
        names = {n.id for n in ast.walk(st.annotation) if isinstance(n, ast.Name)} | \
            {n.value for n in ast.walk(st.annotation) if isinstance(n, ast.Constant) and isinstance(n.value, str)}
        for nm in sorted(names):
            for token in [t for t in nm.replace("[", " ").replace("]", " ").replace(",", " ").split()]:
                ci = repo.resolve_class(token, cd.module)
                if ci is None or token in ("Optional", "Callable"):
                    continue
                offenders = [f"{c.name}.{m}" for c in repo.mro(ci) for m in ("__bool__", "__len__") if m in c.methods]
                ctx.ob(R, f"{ci.name}: truthiness means presence (CapData.{field} is tested by truthiness)", not offenders,
                       f"{ci.module.rel}:{ci.node.lineno}",
                       f"{offenders} makes a live {ci.name} falsy: CapData.serialize/deserialize then drop the {field} "
                       f"of the flow (use `is not None` there, or do not overload truthiness)")


def _ctor_domain(ctx, R, repo, sd, sf, des):
    """Every construction of SerializedCapData hands str-annotated fields a str; a field the hydration looks up
    in an enum by name (`Enum[ser.<field>]`) only ever gets a member name."""
    ann = {st.target.id: src(st.annotation) for st in sd.node.body if isinstance(st, ast.AnnAssign) and isinstance(st.target, ast.Name)}
    dflt = {st.target.id: st.value for st in sd.node.body if isinstance(st, ast.AnnAssign) and isinstance(st.target, ast.Name)
            and st.value is not None}
    sp = [a.arg for a in des.node.args.args][1]
    by_name = {}
    for x in walk(des.node):
        if isinstance(x, ast.Subscript) and isinstance(x.ctx, ast.Load) and (ap(x.slice) or "").startswith(sp + "."):
            ci = repo.resolve_class(ap(x.value) or "", des.module)
            if ci is not None:
                by_name[ap(x.slice).split(".", 1)[1]] = ci
    n = 0
    for f, c in call_index(repo).get(sd.name, []):
        if any(isinstance(a, ast.Starred) for a in c.args) or any(k.arg is None for k in c.keywords):
            continue   # rebuilt from a stored mapping (log replay): opaque
        n += 1
        ev = ConstEval(repo, f.module)
        args = _ctor_args(c, sf)
        for field in sf:
            e = args.get(field, dflt.get(field))
            if e is None:
                continue
            v = ev.ev(e) if field in args else ConstEval(repo, sd.module).ev(e)
            if "str" in ann.get(field, "") and (isinstance(v, EnumVal) or (is_const(v) and v is not None and not isinstance(v, str))):
                ctx.ob(R, f"{f.qual}: SerializedCapData.{field} receives a str", False, ctx.w(f, c),
                       f"`{norm(e)}` is {v!r}, the field is declared {ann[field]} and read back as a string on hydration")
            if field in by_name and isinstance(v, str):
                ctx.ob(R, f"{f.qual}: SerializedCapData.{field}={v!r} names a member of {by_name[field].name}",
                       v in enum_members(repo, by_name[field]), ctx.w(f, c),
                       f"hydration does {by_name[field].name}[...] on it: KeyError inside from_state, before the try/finally")
            elif field in by_name and isinstance(v, EnumVal):
                pass  # reported above
    # a field carried by member *name* needs an enum whose stored values all have a name that looks itself up:
    # a Flag whose members are combined into composite values does not
    for field, ci in sorted(by_name.items()):
        is_flag = any(b.split(".")[-1] in ("Flag", "IntFlag") for c_ in repo.mro(ci) for b in c_.base_names)
        combos = []
        if is_flag:
            def member(e, ci=ci):
                p_ = ap(e) or ""
                return p_.startswith(ci.name + ".") or ("." + ci.name + ".") in p_
            for g_ in repo.all_funcs:
                if g_.parent_fn is not None:
                    continue
                for x in walk(g_.node, into_defs=True):
                    if isinstance(x, ast.AugAssign) and isinstance(x.op, ast.BitOr) and member(x.value):
                        combos.append((g_, x))
                    elif isinstance(x, ast.BinOp) and isinstance(x.op, ast.BitOr) and (member(x.left) or member(x.right)) \
                            and not any(isinstance(a, ast.BinOp) and isinstance(a.op, ast.BitAnd) for a in ancestors(x)
                                        if isinstance(a, ast.expr)):
                        combos.append((g_, x))
        ctx.ob(R, f"{ci.name}: every stored value has a member name (SerializedCapData.{field} carries the name)",
               not is_flag, f"{ci.module.rel}:{ci.node.lineno}",
               f"{ci.name} is a Flag: combined values become expressible (in-tree combinations: "
               f"{[g_.qual + ': ' + norm(x) for g_, x in combos[:3]]}) and a composite value has no name that {ci.name}[...] can "
               f"look up on hydration (KeyError in from_state, before the try/finally)")
    ctx.ob(R, "SerializedCapData constructions checked against the field domains", n >= 1, f"{sd.module.rel}:{sd.node.lineno}",
           f"{n} construction site(s), enum-by-name fields {sorted(by_name)}")


def _queue_cycle(ctx, R, repo):
    """The two processes exchange flows over two queues with blocking puts from their single event loops: if both
    queues are bounded, two full queues block both loops for good (no hand-back ever again)."""
    fcx = repo.fn_opt("HTTPFlowContext.__init__")
    if fcx is None:
        raise AnalysisError(f"{R}: anchor HTTPFlowContext.__init__ vanished")
    queues = {}
    for st in stores(fcx.node, into_defs=False):
        if st.kind == "assign" and st.path.startswith("self.") and isinstance(st.value, ast.Call) and \
                (ap(st.value.func) or "").split(".")[-1] in ("Queue", "JoinableQueue"):
            size = st.value.args[0] if st.value.args else next((k.value for k in st.value.keywords if k.arg == "maxsize"), None)
            bounded = False
            if size is not None:
                v = ConstEval(repo, fcx.module).ev(size)
                if isinstance(size, ast.Attribute) and ap(size.value) in ("self", "cls") and fcx.cls is not None:
                    cv = repo.class_attr(fcx.cls, size.attr)
                    v = ConstEval(repo, fcx.module).ev(cv) if cv is not None else v
                bounded = not (isinstance(v, int) and not isinstance(v, bool) and v <= 0)
            queues[st.path.split(".", 1)[1]] = (bounded, st)
    ctx.floor(R, "inter-process flow queues", len(queues), 2)
    aliases = {"callback_queue": "to_proxy_queue"}
    blocking = set()
    for f, c in call_index(repo).get("put", []):
        rp = ap(c.func.value) if isinstance(c.func, ast.Attribute) else None
        if not rp:
            continue
        for q in queues:
            if q in rp or any(a in rp and tgt == q for a, tgt in aliases.items()):
                blk = c.args[1] if len(c.args) > 1 else next((k.value for k in c.keywords if k.arg == "block"), None)
                if not (isinstance(blk, ast.Constant) and blk.value is False):
                    blocking.add(q)
    stuck = sorted(q for q, (b, _) in queues.items() if b and q in blocking)
    ctx.ob(R, "HTTPFlowContext: the two flow queues cannot both block their producer", len(stuck) < 2, fcx.where,
           f"{stuck} are bounded and written with blocking put() from the two event loops: when both fill up each "
           f"process waits for the other to drain its queue and no flow is handed back again")


def _region_key_unique(ctx, R, repo, des):
    """CapData crosses the process boundary with the region identified by one attribute (deserialize compares
    `str(<region>.<key>)`): the session's region registry must keep that attribute unique, i.e. register_region never
    appends a region while one with the same key is already registered."""
    keys = set()
    sp = [a.arg for a in des.node.args.args][1]
    for g in _callees(repo, des, depth=2):
        for x in walk(g.node, into_defs=True):
            if isinstance(x, ast.Compare) and len(x.ops) == 1 and isinstance(x.ops[0], ast.Eq):
                sides = [x.left, x.comparators[0]]
                if any((ap(s_) or "").endswith("region_addr") for s_ in sides):
                    for s_ in sides:
                        for y in ast.walk(s_):
                            if isinstance(y, ast.Attribute) and not (ap(y) or "").startswith(sp + ".") and \
                                    not (ap(y) or "").endswith("region_addr"):
                                keys.add(y.attr)
                        for y in ast.walk(s_):    # getattr(candidate, "circuit_addr") in a generic helper
                            if isinstance(y, ast.Constant) and isinstance(y.value, str) and y.value.isidentifier():
                                keys.add(y.value)
    rr = repo.fn_opt("BaseClientSession.register_region")
    if rr is None or not keys:
        ctx.note(f"C15.R4: region key of CapData.deserialize ({sorted(keys)}) / register_region not located: uniqueness not checked")
        return
    cfg = CFG(rr.node)
    appends = {n for n in cfg.nodes for c in cfg_node_calls_(cfg, n) if call_attr(c) in ("append", "insert", "add")
               and isinstance(c.func, ast.Attribute) and (ap(c.func.value) or "").endswith(".regions")}
    n_match = 0
    for x in walk(rr.node):
        if isinstance(x, ast.If):
            at = [e for e, pol in atoms(x.test, True) if pol and isinstance(e, ast.Compare) and len(e.ops) == 1
                  and isinstance(e.ops[0], ast.Eq) and any(isinstance(y, ast.Attribute) and y.attr in keys
                                                          for s_ in (e.left, e.comparators[0]) for y in ast.walk(s_))]
            if not at or not any(isinstance(a, (ast.For, ast.While)) for a in ancestors(x)):
                continue
            n_match += 1
            first = [n for n in cfg.nodes if x.body and n.ast is x.body[0]]
            tn = [n for n in cfg.nodes if n.ast is x]
            path = cfg_search(cfg, tn, target=lambda n: n in appends, avoid=lambda n: x.orelse and n.ast is x.orelse[0],
                              follow_exc=lambda n: False, start_edges="normal") if first else None
            # only paths that go through the matching branch count
            if path is not None and not any(p_ in first for p_ in path):
                path = cfg_search(cfg, first, target=lambda n: n in appends, follow_exc=lambda n: False, start_edges="normal")
                if path is None and any(n in appends for n in first):
                    path = first
            ctx.ob(R, f"{rr.qual}: a region whose {sorted(keys & {y.attr for e in at for y in ast.walk(e) if isinstance(y, ast.Attribute)})} "
                      f"matches is reused, never registered a second time", path is None, ctx.w(rr, x),
                   "two registered regions can share the attribute CapData uses to name the owning region across the process "
                   "boundary: a flow of the first comes back from from_state() owned by the other",
                   cfg.describe_path(path) if path else None)
    if n_match == 0:
        ctx.note(f"C15.R4: {rr.qual} no longer looks regions up with an in-loop `<region>.{sorted(keys)[0]} == ...` test: "
                 f"uniqueness of the region key is not decided on this shape")
    ctx.ob(R, "register_region checked against the region key of CapData.deserialize", True, rr.where,
           f"key attribute(s) {sorted(keys)}, {n_match} matching test(s)")


def cfg_node_calls_(cfg, n):
    e = cfg_node_expr(cfg, n)
    return [] if e is None else [x for x in walk(e) if isinstance(x, ast.Call)]


def r4(ctx):
    repo = ctx.repo
    R = "C15.R4"
    ctx.rule(R, "state transfer: CapData.serialize/deserialize produce and consume all fields pairwise; get_state "
                "stores the serialised cap data before snapshotting and restores cap_data; from_state reads the "
                "same key; every metadata key read by a property has a default, applied absent-only (hydrating "
                "a flow never overwrites a transferred value)")
    cd = repo.cls("CapData", CAPS)
    sd = repo.cls("SerializedCapData", CAPS)
    cf, sf = _class_fields(cd), _class_fields(sd)
    ctx.floor(R, "CapData fields", len(cf), 5)
    ctx.floor(R, "SerializedCapData fields", len(sf), 5)
    pair = {}
    for s in sf:
        c = s if s in cf else s.split("_")[0] if s.split("_")[0] in cf else None
        ctx.ob(R, f"SerializedCapData.{s} corresponds to a CapData field", c is not None, f"{CAPS}:{sd.node.lineno}",
               "no CapData field with that name or stem")
        if c is not None:
            pair[s] = c
    ctx.ob(R, "CapData <-> SerializedCapData field correspondence is one-to-one",
           sorted(pair.values()) == sorted(cf), f"{CAPS}:{cd.node.lineno}", f"{pair} vs {cf}")

    ser = repo.fn("CapData.serialize")
    ctors = [c for c in calls(ser.node) if (ap(c.func) or "").split(".")[-1] == "SerializedCapData"]
    ctx.ob(R, "CapData.serialize builds exactly one SerializedCapData", len(ctors) == 1, ser.where)
    for c in ctors:
        args = _ctor_args(c, sf)
        for s in sf:
            e = args.get(s)
            ctx.ob(R, f"CapData.serialize provides {s}", e is not None, ctx.w(ser, c),
                   "field left at its default: lost across the process boundary")
            if e is not None and s in pair:
                mentioned = {p.split(".")[1] for p in paths_in(e) if p.startswith("self.") and p.split(".")[1] in cf}
                ctx.ob(R, f"CapData.serialize: {s} derived from self.{pair[s]}", mentioned == {pair[s]}, ctx.w(ser, e),
                       f"value `{norm(e)}` reads {sorted(mentioned)}")
    # dehydration runs inside resume() (the hand-back itself): it must be total for flows whose region /
    # session is gone, i.e. every dereference of an optional weakref field checks that the call returned something
    callable_fields = {st.target.id for st in cd.node.body if isinstance(st, ast.AnnAssign) and isinstance(st.target, ast.Name)
                       and "Callable" in src(st.annotation)}
    n_deref = 0
    for g in class_methods_reachable(repo, ser, depth=2):
        for x in walk(g.node, into_defs=True):
            if isinstance(x, ast.Attribute) and isinstance(x.value, ast.Call) and not x.value.args and not x.value.keywords \
                    and isinstance(x.value.func, ast.Attribute) and ap(x.value.func.value) == "self" \
                    and x.value.func.attr in callable_fields:
                n_deref += 1
                live = False
                for e, pol in facts(x, g.node):
                    nt = is_none_test(e)
                    if pol and norm(e) == norm(x.value):
                        live = True
                    if nt is not None and isinstance(e, ast.Compare) and norm(e.left) == norm(x.value) and pol != nt[1]:
                        live = True
                ctx.ob(R, f"{g.qual}: `{norm(x)}` only after `{norm(x.value)}` was found alive", live, ctx.w(g, x),
                       "a dead weakref returns None: AttributeError inside get_state()/resume(), the flow is never handed back")
    ctx.ob(R, "CapData.serialize: weakref dereferences checked for liveness", True, ser.where,
           f"{n_deref} dereference(s) of {sorted(callable_fields)}")

    des = repo.fn("CapData.deserialize")
    _presence_by_truthiness(ctx, R, repo, cd, ser, des, callable_fields)
    _ctor_domain(ctx, R, repo, sd, sf, des)
    _queue_cycle(ctx, R, repo)
    _region_key_unique(ctx, R, repo, des)
    params = [a.arg for a in des.node.args.args]
    ctx.require(len(params) >= 2, "CapData.deserialize lost its serialised-data parameter")
    sp = params[1]
    ctors = [r.value for r in walk(des.node) if isinstance(r, ast.Return) and isinstance(r.value, ast.Call)
             and ap(r.value.func) in ("cls", "CapData")]
    ctx.ob(R, "CapData.deserialize builds exactly one CapData", len(ctors) == 1, des.where)
    read = {p for p in paths_in(des.node) if p.startswith(sp + ".")}
    for s in sf:
        ctx.ob(R, f"CapData.deserialize consumes {s}", f"{sp}.{s}" in read, des.where,
               "serialised field ignored: routing metadata lost on hydration")
    for c in ctors:
        args = _ctor_args(c, cf)
        for f_ in cf:
            e = args.get(f_)
            ctx.ob(R, f"CapData.deserialize provides {f_}", e is not None, ctx.w(des, c),
                   "field left at its default on hydration")
            if e is not None and f_ in sf:
                mentioned = {p.split(".")[1] for p in paths_in(e) if p.startswith(sp + ".") and len(p.split(".")) > 1}
                ctx.ob(R, f"CapData.deserialize: {f_} derived from {sp}.{f_}", mentioned == {f_}, ctx.w(des, e),
                       f"value `{norm(e)}` reads {sorted(mentioned)}")

    # ---- get_state / from_state
    gs = inlined_funcinfo(repo, repo.fn("HippoHTTPFlow.get_state"))
    fs = inlined_funcinfo(repo, repo.fn("HippoHTTPFlow.from_state"))
    cev = ConstEval(repo, gs.module)

    def ckey(node):
        k = cev.ev(node)
        return k if isinstance(k, str) else None
    pops = [c for c in find_calls(gs.node, "pop", into_defs=False) if (ap(c.func.value) or "").endswith("metadata") and c.args]
    ctx.ob(R, "get_state pops exactly one metadata key", len(pops) == 1, gs.where, f"found {len(pops)}")
    if len(pops) == 1:
        pop = pops[0]
        k_obj = ckey(pop.args[0])
        st = enclosing_stmt(pop)
        cvar = ap(st.targets[0]) if isinstance(st, ast.Assign) and len(st.targets) == 1 else \
            ap(st.target) if isinstance(st, ast.AnnAssign) else None
        ctx.require(k_obj is not None and cvar is not None, f"{R}: get_state pop is not `<name> = metadata.pop(<const>, ...)`")
        sets = [s for s in stores(gs.node, into_defs=False) if s.kind == "setitem" and s.path.endswith("metadata")]
        def from_pop(e):
            return origin(gs.node, e) is pop or ap(e) == cvar

        def serialises_popped(e):
            return e is not None and any(isinstance(x, ast.Call) and call_attr(x) == "serialize"
                                         and isinstance(x.func, ast.Attribute) and from_pop(x.func.value)
                                         for x in ast.walk(e))
        ser_sets = [s for s in sets if serialises_popped(s.value)]
        ctx.ob(R, f"get_state stores {cvar}.serialize() into the metadata", len(ser_sets) == 1, gs.where, f"found {len(ser_sets)}")
        k_ser = ckey(ser_sets[0].target.slice) if ser_sets else None
        cfg = CFG(gs.node)
        inner = [c for c in find_calls(gs.node, "get_state", into_defs=False) if ap(c.func) != "self.get_state"]
        ctx.ob(R, "get_state snapshots the wrapped flow exactly once", len(inner) == 1, gs.where, f"found {len(inner)}")
        if k_ser is not None and len(inner) == 1:
            ser_nodes = {n for n in cfg.nodes for s in sets if n.ast is s.node and ckey(s.target.slice) == k_ser}
            tn = set(cfg.stmt_nodes_containing(inner[0]))
            path = cfg_search(cfg, [cfg.entry], target=lambda n: n in tn, avoid=lambda n: n in ser_nodes,
                              follow_exc=lambda n: False)
            ctx.ob(R, f"get_state: metadata[{k_ser!r}] is stored before the snapshot on every path", path is None,
                   ctx.w(gs, inner[0]), "the snapshot is taken without the serialised cap data",
                   cfg.describe_path(path) if path else None)
        restore = {n for n in cfg.nodes for s in sets if n.ast is s.node and ckey(s.target.slice) == k_obj
                   and s.value is not None and from_pop(s.value)}
        pn = cfg.stmt_nodes_containing(pop)
        path = cfg_search(cfg, pn, target=lambda n: n is cfg.exit, avoid=lambda n: n in restore, follow_exc=lambda n: False,
                          start_edges="normal")
        ctx.ob(R, f"get_state: metadata[{k_obj!r}] restored on every path to return", bool(restore) and path is None,
               gs.where, "after handing a flow back its cap_data is gone on this side (taken flows keep being used)",
               cfg.describe_path(path) if path else None)

        # nobody else overwrites resolved cap data: a store to metadata[k_ser] outside get_state's own
        # helpers must be dominated by "there is no cap data for this flow"
        if k_ser is not None:
            legit = {f.full for f in _callees(repo, repo.fn("HippoHTTPFlow.get_state"), depth=2)}
            n_other = 0
            for f, st in store_index(repo).get("metadata", []):
                if st.kind != "setitem" or f.full in legit or not isinstance(st.target, ast.Subscript):
                    continue
                if ConstEval(repo, f.module).ev(st.target.slice) != k_ser:
                    continue
                n_other += 1
                recv = ap(st.target.value)

                def no_cap_data_at(node, f, depth=2):
                    """`node` in `f` runs only when metadata[k_ser] is absent / falsy - decided by the conditions
                    dominating it, or (helper handed the flow) by those dominating every call site of f."""
                    def reads_key(e):
                        e = origin(f.node, e)
                        k = None
                        if isinstance(e, ast.Call) and isinstance(e.func, ast.Attribute) and e.func.attr == "get" and e.args \
                                and (ap(e.func.value) or "").endswith("metadata"):
                            k = ConstEval(repo, f.module).ev(e.args[0])
                        elif isinstance(e, ast.Subscript) and (ap(e.value) or "").endswith("metadata"):
                            k = ConstEval(repo, f.module).ev(e.slice)
                        return k == k_ser
                    for e, pol in facts(node, f.node):
                        if not pol and reads_key(e):
                            return True
                        if isinstance(e, ast.Compare) and len(e.ops) == 1 and (ap(e.comparators[0]) or "").endswith("metadata") \
                                and ConstEval(repo, f.module).ev(e.left) == k_ser and \
                                ((isinstance(e.ops[0], ast.NotIn) and pol) or (isinstance(e.ops[0], ast.In) and not pol)):
                            return True
                        nt = is_none_test(e)
                        if nt is not None and pol == nt[1]:
                            for x in ast.walk(e):
                                if isinstance(x, ast.Name) and x.id == nt[0] and reads_key(x):
                                    return True
                    if depth > 0 and f.cls is not None:
                        sites = [(g, c) for g, c in call_index(repo).get(f.name, [])
                                 if isinstance(c.func, ast.Attribute) and ap(c.func.value) in ("self", "cls")
                                 and g.cls is not None and f.cls in repo.mro(g.cls)]
                        if sites and len(sites) == len(call_index(repo).get(f.name, [])):
                            return all(no_cap_data_at(c, g, depth - 1) for g, c in sites)
                    return False
                ok = no_cap_data_at(st.node, f)
                ctx.ob(R, f"{f.qual}: store to {recv}[{k_ser!r}] only when no cap data was resolved", ok, ctx.w(f, st.node),
                       "the serialised cap data sent over by the main process (name, type, owning session and region) is "
                       "overwritten: the response event is routed without its session/region")
            ctx.ob(R, f"stores to metadata[{k_ser!r}] outside get_state checked", True, gs.where, f"{n_other} store(s)")

        # from_state
        fev = ConstEval(repo, fs.module)
        reads = []
        for c in find_calls(fs.node, "get", into_defs=False):
            if (ap(c.func.value) or "").endswith("metadata") and c.args:
                reads.append((c, fev.ev(c.args[0])))
        for x in walk(fs.node):
            if isinstance(x, ast.Subscript) and isinstance(x.ctx, ast.Load) and (ap(x.value) or "").endswith("metadata"):
                reads.append((x, fev.ev(x.slice)))
        ctx.ob(R, "from_state reads exactly one metadata key", len(reads) == 1, fs.where, f"found {[k for _, k in reads]}")
        for node, k in reads:
            ctx.ob(R, f"from_state reads the key get_state wrote ({k_ser!r})", k == k_ser, ctx.w(fs, node),
                   f"reads {k!r}: the serialised cap data is never found, every hydrated flow loses its routing metadata")
        dvars = set()
        for node, k in reads:
            st = enclosing_stmt(node)
            if isinstance(st, ast.Assign) and len(st.targets) == 1:
                dvars.add(ap(st.targets[0]))
        dcalls = [c for c in find_calls(fs.node, "deserialize", into_defs=False) if (ap(c.func) or "").endswith("CapData.deserialize")]
        read_nodes = [node for node, _ in reads]
        ctx.ob(R, "from_state hydrates via CapData.deserialize(<value read>)", len(dcalls) == 1 and bool(dcalls[0].args)
               and (ap(dcalls[0].args[0]) in dvars or any(origin(fs.node, dcalls[0].args[0]) is rn for rn in read_nodes)),
               fs.where)
        fcfg = CFG(fs.node)
        fsets = [s for s in stores(fs.node, into_defs=False) if s.kind == "setitem" and s.path.endswith("metadata")
                 and fev.ev(s.target.slice) == k_obj]
        sn = {n for n in fcfg.nodes for s in fsets if n.ast is s.node}
        path = cfg_search(fcfg, [fcfg.entry], target=lambda n: n is fcfg.exit, avoid=lambda n: n in sn, follow_exc=lambda n: False)
        ctx.ob(R, f"from_state sets metadata[{k_obj!r}] on every path to return", bool(sn) and path is None, fs.where,
               "hydrated flow without cap_data")
        hyd = [s for s in fsets if s.value is not None and any(x in dcalls for x in ast.walk(s.value))]
        ctx.ob(R, f"from_state stores the deserialised CapData under {k_obj!r}", len(hyd) == 1, fs.where)

    # ---- an addon's rewrite of the request / response survives: nothing read from the flow before the addon
    #      hooks ran may be written back into it afterwards
    em = repo.cls("MITMProxyEventManager", EVM)
    n_hooks = 0
    for m in em.methods.values():
        hooks = [c for c in calls(m.node) if (ap(c.func) or "") in ("AddonManager.handle_http_request",
                                                                     "AddonManager.handle_http_response") and c.args]
        for hc in hooks:
            fv = ap(hc.args[0])
            if not fv:
                continue
            n_hooks += 1
            mcfg = CFG(m.node)
            hn = mcfg.stmt_nodes_containing(hc)
            after = mcfg.reachable(hn, exc=False)
            after_stmts = [n.ast for n in after if n.kind == "stmt" and n.ast is not None]
            stale = {}
            for s_ in stores(m.node, into_defs=False):
                vp = ap(s_.value) if s_.value is not None else None
                if s_.kind == "assign" and isinstance(s_.target, ast.Name) and vp and \
                        (vp.startswith(fv + ".request.") or vp.startswith(fv + ".response.")):
                    dn = [n for n in mcfg.nodes if n.ast is s_.node]
                    if dn and all(n not in after for n in dn) and any(x in mcfg.reachable(dn, exc=False) for x in hn):
                        stale[s_.path] = vp
            tainted = dict(stale)
            for _ in range(6):
                for st in after_stmts:
                    for s_ in stores(st, into_defs=False):
                        if s_.kind == "assign" and isinstance(s_.target, ast.Name) and s_.value is not None and s_.path not in tainted:
                            src_names = [x.id for x in ast.walk(s_.value) if isinstance(x, ast.Name) and x.id in tainted]
                            if src_names:
                                tainted[s_.path] = tainted[src_names[0]]
            bad = []
            for st in after_stmts:
                for s_ in stores(st, into_defs=False):
                    if s_.kind in ("assign", "setitem", "augassign") and s_.value is not None and \
                            (s_.path.startswith(fv + ".request") or s_.path.startswith(fv + ".response")):
                        used = [x.id for x in ast.walk(s_.value) if isinstance(x, ast.Name) and x.id in tainted]
                        if used:
                            bad.append((s_, used[0]))
            for st in after_stmts:
                for s_ in stores(st, into_defs=False):
                    if s_.kind == "assign" and s_.path == f"{fv}.response":
                        kept = any((ap(e) or "") == f"{fv}.response_injected" and not pol for e, pol in facts(s_.node, m.node))
                        ctx.ob(R, f"{m.qual}: default handling sets `{s_.path}` only when no response was injected "
                                  f"[{norm(s_.value)[:60]}]", kept, ctx.w(m, s_.node),
                               f"after {norm(hc.func)} ran an addon may have answered the request itself "
                               f"({fv}.response_injected): this assignment replaces its response before the flow is handed back")
            for s_, nm in bad:
                ctx.ob(R, f"{m.qual}: `{norm(s_.node)}` does not write back a value read before {norm(hc.func)}", False,
                       ctx.w(m, s_.node), f"`{nm}` derives from `{tainted[nm]}` as it was before the addon hooks ran: an addon's "
                       f"rewrite of the request/response is silently discarded on hand-back")
            ctx.ob(R, f"{m.qual}: nothing read from the flow before {norm(hc.func)} is written back after it", not bad,
                   ctx.w(m, hc), f"pre-hook snapshots: {sorted(stale)}")
    ctx.floor(R, "http hook call sites in the event manager", n_hooks, 2)

    # ---- the message logger sees the flow before it is handed back: a log entry must not modify the flow it wraps
    le = repo.cls("HTTPMessageLogEntry")
    n_le = 0
    for mname, m in sorted(le.methods.items()):
        aliases = set()
        for _ in range(3):
            for s_ in stores(m.node, into_defs=False):
                if s_.kind == "assign" and isinstance(s_.target, ast.Name) and s_.value is not None and any(
                        (ap(x) or "").startswith("self.flow.") or (isinstance(x, ast.Name) and x.id in aliases)
                        for x in ([s_.value] + (list(s_.value.elts) if isinstance(s_.value, (ast.Tuple, ast.List)) else []))):
                    aliases.add(s_.path)
            for lp in [x for x in walk(m.node) if isinstance(x, ast.For)]:
                its = lp.iter.elts if isinstance(lp.iter, (ast.Tuple, ast.List)) else [lp.iter]
                if any((ap(x) or "").startswith("self.flow.") or (isinstance(x, ast.Name) and x.id in aliases) for x in its):
                    aliases |= {n_.id for n_ in ast.walk(lp.target) if isinstance(n_, ast.Name)}
        for s_ in stores(m.node, into_defs=False):
            root = s_.path.split(".")[0].replace("[]", "")
            hits = s_.path.startswith("self.flow.") or (root in aliases and ("." in s_.path or s_.kind in
                                                        ("setitem", "augsetitem", "delitem", "mutcall")))
            if s_.kind == "assign" and s_.path in aliases:
                hits = False
            if hits:
                n_le += 1
                ctx.ob(R, f"{m.qual}: `{norm(s_.node)}` does not modify the logged flow", False, ctx.w(m, s_.node),
                       "the logger runs before flow.resume() serialises the flow: what it changes here is what goes "
                       "back to the proxy process (rewritten request / injected response not intact)")
    ctx.ob(R, "HTTPMessageLogEntry never writes into the flow it wraps", n_le == 0, f"{le.module.rel}:{le.node.lineno}",
           f"{n_le} store(s) through self.flow")

    # ---- metadata defaults
    fc = repo.cls("HippoHTTPFlow", FLOW)
    init = repo.fn("HippoHTTPFlow.__init__")
    read_keys: Dict[str, str] = {}
    for name, m in fc.methods.items():
        is_prop = any((ap(d) or "") == "property" for d in m.node.decorator_list)
        if not is_prop:
            continue
        for x in walk(m.node):
            if isinstance(x, ast.Subscript) and isinstance(x.ctx, ast.Load) and (ap(x.value) or "").endswith("metadata"):
                k = cev.ev(x.slice)
                if isinstance(k, str):
                    read_keys.setdefault(k, m.qual)
    ctx.floor(R, "metadata keys read by properties", len(read_keys), 5)
    interp = _MetaInterp(repo, init)
    try:
        interp.run(init.node.body, {}, {})
    except _Unsupported as e:
        raise AnalysisError(f"{R}: HippoHTTPFlow.__init__ applies metadata defaults in an unsupported form: {e}")
    all_keys = sorted(set(read_keys) | {k for k in interp.keys_seen if isinstance(k, str)})
    for k in all_keys:
        outcomes = {}
        try:
            for label, v0 in (("absent", _ABSENT), ("True", True), ("False", False),
                              ("truthy object", _Opaque("transferred", True)),
                              ("falsy object", _Opaque("transferred-falsy", False))):
                state = {} if v0 is _ABSENT else {k: v0}
                interp.run(init.node.body, state, {})
                outcomes[label] = (v0, state.get(k, _ABSENT))
        except _Unsupported as e:
            raise AnalysisError(f"{R}: cannot evaluate the default of metadata[{k!r}] in __init__: {e}")
        if k in read_keys:
            ctx.ob(R, f"metadata[{k!r}] (read by {read_keys[k]}) has a default in __init__",
                   outcomes["absent"][1] is not _ABSENT, init.where, "property access raises KeyError on a fresh flow")
        # value domain of the key: bool flags (default is a bool) vs object-valued entries
        is_flag = isinstance(outcomes["absent"][1], bool)
        domain = ("True", "False") if is_flag else ("truthy object", "falsy object")
        changed = [f"{lab} -> {after!r}" for lab, (before, after) in outcomes.items()
                   if lab in domain and after is not before]
        ctx.ob(R, f"metadata[{k!r}] default is applied only when absent", not changed, init.where,
               (f"hydrating a flow rewrites a transferred value ({'; '.join(changed)}): the flag does not survive "
                f"the cross-process state transfer") if changed else "")


_DEADLINE_CALLS = {"timeout", "timeout_at", "wait_for", "fail_after", "move_on_after"}


def r5(ctx):
    repo = ctx.repo
    R = "C15.R5"
    ctx.rule(R, "code that holds a taken flow (a function outside the event manager that calls <param>.resume()) resumes "
                "it on every exit on which there is evidence of an exception: an await (cancellation), an explicit "
                "raise/assert or an enclosing deadline (asyncio.timeout / wait_for) must not be able to skip the resume")
    n = 0
    for f, c in call_index(repo).get("resume", []):
        if c.args or not isinstance(c.func, ast.Attribute) or not isinstance(c.func.value, ast.Name):
            continue
        g = f
        fnode = None
        for a in ancestors(c):
            if isinstance(a, FUNC_TYPES):
                fnode = a
                break
        if fnode is None:
            continue
        params = {a.arg for a in fnode.args.args + fnode.args.kwonlyargs}
        pos = [a.arg for a in fnode.args.args]
        in_manager = f.cls is not None and any(k.name in ("MITMProxyEventManager", "IPCInterceptionAddon") for k in repo.mro(f.cls))
        if in_manager:
            continue       # the event manager's hand-back and the proxy-side pump (R1 / R3)
        # everybody else may resume only a flow it was handed as taken: the receiver is a parameter and every call
        # site of the function passes `<flow>.take()` in that position
        rv = c.func.value.id
        owner = False
        if rv in pos and getattr(fnode, "name", None):
            i_ = pos.index(rv) - (1 if f.cls is not None and fnode is f.node and pos and pos[0] in ("self", "cls") else 0)
            sites = [cc for g_, cc in call_index(repo).get(fnode.name, [])
                     if (isinstance(cc.func, ast.Name) if f.cls is None or fnode is not f.node else
                         isinstance(cc.func, ast.Attribute) and ap(cc.func.value) in ("self", "cls"))]
            owner = bool(sites) and all(
                (i_ < len(cc.args) and any(isinstance(x, ast.Call) and call_attr(x) == "take" for x in ast.walk(cc.args[i_]))) or
                any(k.arg == rv and any(isinstance(x, ast.Call) and call_attr(x) == "take" for x in ast.walk(k.value))
                    for k in cc.keywords) for cc in sites)
        ctx.ob(R, f"{f.qual}: {norm(c)} resumes a flow this function was handed as taken", owner, ctx.w(f, c),
               "resume() by code that does not own the flow: a flow an addon took is handed back behind its back (the owner's "
               "later changes are lost and its own resume() trips the exactly-once assertion)")
        if not owner:
            continue
        n += 1
        cfg = CFG(fnode)
        rn = set(cfg.stmt_nodes_containing(c))
        deadline_bodies = set()
        for w in [x for x in walk(fnode) if isinstance(x, (ast.With, ast.AsyncWith))]:
            if any(isinstance(it.context_expr, ast.Call) and call_attr(it.context_expr) in _DEADLINE_CALLS for it in w.items):
                deadline_bodies |= {id(x) for st_ in w.body for x in ast.walk(st_)}

        def evidence(nd):
            e = cfg_node_expr(cfg, nd)
            if e is None:
                return False
            if any(isinstance(x, (ast.Raise, ast.Assert, ast.Await)) for x in walk(e)):
                return True       # an await can always complete with CancelledError (task killed on addon unload ...)
            if nd.ast is not None and id(nd.ast) in deadline_bodies and any(isinstance(x, (ast.Await, ast.Call)) for x in walk(e)):
                return True
            return any(isinstance(x, ast.Call) and call_attr(x) in _DEADLINE_CALLS and
                       (ap(x.func) or "").split(".")[0] in ("asyncio", "anyio", "async_timeout") for x in walk(e))
        ev_nodes = [nd for nd in cfg.nodes if nd not in rn and evidence(nd)]
        path = cfg_search(cfg, ev_nodes, target=lambda x: x is cfg.raise_exit, avoid=lambda x: x in rn,
                          follow_exc=evidence, start_edges="exc") if ev_nodes else None
        ctx.ob(R, f"{f.qual}: {norm(c)} cannot be skipped by a deadline / raise in the same function", path is None,
               ctx.w(f, c), "the exception leaves the function before the resume: the taken flow is never handed back "
               "(resume in a finally, or handle the timeout and answer with an error response)",
               cfg.describe_path(path) if path else None)
    ctx.floor(R, "holders of taken flows", n, 1)


def run(ctx):
    r5(ctx)
    r1(ctx)
    r2(ctx)
    r3(ctx)
    r4(ctx)
    ctx.assume("mitmproxy's own HTTPFlow.get_state/from_state/set_state/resume are trusted (third party)")
    ctx.assume("cross-process timing is not decided")
    idx = call_index(ctx.repo)
    others = [f.qual for f, c in idx.get("resume", []) if not c.args and f.qual not in
              ("MITMProxyEventManager.pump_proxy_event", "IPCInterceptionAddon._pump_callbacks")]
    for f, c in idx.get("take", []):
        if c.args or not f.module.rel.startswith("hippolyzer/"):
            continue
        outer = [a for a in ancestors(c) if isinstance(a, ast.Call)]
        if len(outer) >= 2:
            ctx.note(f"C15: {f.qual} evaluates `{norm(c)}` as an argument of `{norm(outer[-1].func)}(...)`: if that call "
                     f"raises (e.g. BaseAddon._schedule_task without a session) the flow stays taken and is never "
                     f"resumed (not armed: depends on code outside the anchored hand-back structure)")
    if others:
        ctx.note(f"C15: resume() also called by {sorted(set(others))} (code holding a taken flow; see C15.R5)")
